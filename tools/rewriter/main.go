// rewriter produces a `go build -overlay` in which every non-generated,
// non-test file of the regen-ledger modules has
//   - `for k, v := range m` over a MAP rewritten to iterate over
//     verifshim.Keys(m, site) (snapshot semantics: keys taken once, entries
//     deleted during the loop are skipped), and
//   - time.Now() rewritten to verifshim.Now(),
// so that the C10 explorer decides map iteration order and the wall clock.
// The shim package is added as a virtual package of the types module
// (github.com/regen-network/regen-ledger/types/v2/verifshim), which every
// other regen module already depends on.
//
// usage: rewriter -repo /repo -out <dir>   (writes <dir>/overlay.json)
package main

import (
	"bytes"
	"encoding/json"
	"flag"
	"fmt"
	"go/ast"
	"go/printer"
	"go/token"
	"go/types"
	"os"
	"path/filepath"
	"sort"
	"strings"

	"golang.org/x/tools/go/ast/astutil"
	"golang.org/x/tools/go/packages"
)

const shimPath = "github.com/regen-network/regen-ledger/types/v2/verifshim"

const shimSrc = `// Package verifshim is injected by /verif/tools/rewriter (overlay only).
package verifshim

import (
	"fmt"
	"sort"
	"time"
)

// Order, when set, returns for a dynamic map-range instance with n keys the
// permutation of the ascending key order to use (nil = ascending).
var Order func(site string, n int) []int

// Clock, when set, replaces time.Now.
var Clock func() time.Time

func less(a, b interface{}) bool {
	switch x := a.(type) {
	case string:
		return x < b.(string)
	case int:
		return x < b.(int)
	case int32:
		return x < b.(int32)
	case int64:
		return x < b.(int64)
	case uint:
		return x < b.(uint)
	case uint32:
		return x < b.(uint32)
	case uint64:
		return x < b.(uint64)
	}
	return fmt.Sprint(a) < fmt.Sprint(b)
}

// Keys returns the keys of m in the order chosen by the explorer.
func Keys[M ~map[K]V, K comparable, V any](m M, site string) []K {
	ks := make([]K, 0, len(m))
	for k := range m {
		ks = append(ks, k)
	}
	sort.Slice(ks, func(i, j int) bool { return less(ks[i], ks[j]) })
	if Order != nil {
		if p := Order(site, len(ks)); len(p) == len(ks) {
			out := make([]K, len(ks))
			for i, j := range p {
				out[i] = ks[j]
			}
			return out
		}
	}
	return ks
}

// Now is the explorer-controlled wall clock.
func Now() time.Time {
	if Clock != nil {
		return Clock()
	}
	return time.Now()
}
`

type report struct {
	MapRangeSites    []string `json:"map_range_sites"`
	TimeNowSites     []string `json:"time_now_sites"`
	SkippedGenerated int      `json:"skipped_generated_files"`
	Uninstrumented   []string `json:"uninstrumented_sites"`
	FilesRewritten   int      `json:"files_rewritten"`
	PackagesLoaded   int      `json:"packages_loaded"`
}

func main() {
	repo := flag.String("repo", "/repo", "repository root")
	out := flag.String("out", "", "output directory")
	flag.Parse()
	if *out == "" {
		fmt.Fprintln(os.Stderr, "need -out")
		os.Exit(2)
	}
	must(os.MkdirAll(*out, 0o755))
	overlay := map[string]string{}
	rep := report{}
	// the virtual shim package
	shimFile := filepath.Join(*out, "verifshim.go")
	must(os.WriteFile(shimFile, []byte(shimSrc), 0o644))
	overlay[filepath.Join(*repo, "types", "verifshim", "shim.go")] = shimFile

	n := 0
	for _, mod := range []string{"types", "x/data", "x/ecocredit", "x/intertx"} {
		cfg := &packages.Config{
			Mode: packages.NeedName | packages.NeedFiles | packages.NeedSyntax | packages.NeedTypes | packages.NeedTypesInfo | packages.NeedImports | packages.NeedDeps | packages.NeedCompiledGoFiles,
			Dir:  filepath.Join(*repo, mod),
			Env:  append(os.Environ(), "GOFLAGS=-mod=mod", "GOPROXY=off", "GOSUMDB=off", "GOTOOLCHAIN=local"),
			BuildFlags: []string{"-tags=verif"},
		}
		pkgs, err := packages.Load(cfg, "./...")
		must(err)
		for _, p := range pkgs {
			if len(p.Errors) > 0 {
				// a package of the working tree that does not type-check cannot be instrumented soundly
				fmt.Fprintf(os.Stderr, "package %s has errors: %v\n", p.PkgPath, p.Errors[0])
				os.Exit(3)
			}
			rep.PackagesLoaded++
			if strings.Contains(p.PkgPath, "/verifshim") {
				continue
			}
			for i, f := range p.Syntax {
				name := p.CompiledGoFiles[i]
				if strings.HasSuffix(name, "_test.go") || !strings.HasPrefix(name, *repo) {
					continue
				}
				if isGenerated(f) {
					rep.SkippedGenerated++
					continue
				}
				changed := rewriteFile(p, f, name, &rep)
				if !changed {
					continue
				}
				astutil.AddImport(p.Fset, f, shimPath)
				if !astutil.UsesImport(f, "time") {
					astutil.DeleteImport(p.Fset, f, "time")
				}
				var buf bytes.Buffer
				must(printer.Fprint(&buf, p.Fset, f))
				n++
				dst := filepath.Join(*out, fmt.Sprintf("f%04d_%s", n, filepath.Base(name)))
				must(os.WriteFile(dst, buf.Bytes(), 0o644))
				overlay[name] = dst
				rep.FilesRewritten++
			}
		}
	}
	sort.Strings(rep.MapRangeSites)
	sort.Strings(rep.TimeNowSites)
	bz, _ := json.MarshalIndent(map[string]interface{}{"Replace": overlay}, "", " ")
	must(os.WriteFile(filepath.Join(*out, "overlay.json"), bz, 0o644))
	rb, _ := json.MarshalIndent(rep, "", " ")
	must(os.WriteFile(filepath.Join(*out, "report.json"), rb, 0o644))
	fmt.Printf("rewriter: %d packages, %d map-range sites, %d time.Now sites, %d files rewritten, %d uninstrumented\n",
		rep.PackagesLoaded, len(rep.MapRangeSites), len(rep.TimeNowSites), rep.FilesRewritten, len(rep.Uninstrumented))
}

func isGenerated(f *ast.File) bool {
	for _, cg := range f.Comments {
		if cg.Pos() > f.Package {
			break
		}
		for _, c := range cg.List {
			if strings.Contains(c.Text, "Code generated") && strings.Contains(c.Text, "DO NOT EDIT") {
				return true
			}
		}
	}
	return false
}

func must(err error) {
	if err != nil {
		fmt.Fprintln(os.Stderr, "rewriter:", err)
		os.Exit(2)
	}
}

func sel(pkg, name string) *ast.SelectorExpr {
	return &ast.SelectorExpr{X: ast.NewIdent(pkg), Sel: ast.NewIdent(name)}
}

func isSimple(e ast.Expr) bool {
	switch x := e.(type) {
	case *ast.Ident:
		return true
	case *ast.SelectorExpr:
		return isSimple(x.X)
	case *ast.ParenExpr:
		return isSimple(x.X)
	}
	return false
}

func isBlank(e ast.Expr) bool {
	id, ok := e.(*ast.Ident)
	return e == nil || (ok && id.Name == "_")
}

func rewriteFile(p *packages.Package, f *ast.File, name string, rep *report) bool {
	changed := false
	counter := 0
	astutil.Apply(f, func(c *astutil.Cursor) bool {
		switch n := c.Node().(type) {
		case *ast.CallExpr:
			if s, ok := n.Fun.(*ast.SelectorExpr); ok && s.Sel.Name == "Now" {
				if id, ok := s.X.(*ast.Ident); ok {
					if pn, ok := p.TypesInfo.Uses[id].(*types.PkgName); ok && pn.Imported().Path() == "time" && len(n.Args) == 0 {
						rep.TimeNowSites = append(rep.TimeNowSites, pos(p.Fset, n.Pos()))
						n.Fun = sel("verifshim", "Now")
						changed = true
					}
				}
			}
		case *ast.RangeStmt:
			t := p.TypesInfo.TypeOf(n.X)
			if t == nil {
				return true
			}
			if _, ok := t.Underlying().(*types.Map); !ok {
				return true
			}
			site := pos(p.Fset, n.Pos())
			mexpr := n.X
			var pre ast.Stmt
			if !isSimple(mexpr) {
				if _, labeled := c.Parent().(*ast.LabeledStmt); labeled {
					rep.Uninstrumented = append(rep.Uninstrumented, site+" (labeled range over a non-trivial map expression)")
					return true
				}
				counter++
				tmp := ast.NewIdent(fmt.Sprintf("verifM%d", counter))
				pre = &ast.AssignStmt{Lhs: []ast.Expr{tmp}, Tok: token.DEFINE, Rhs: []ast.Expr{mexpr}}
				mexpr = tmp
			}
			counter++
			kIdent := ast.NewIdent(fmt.Sprintf("verifK%d", counter))
			okIdent := ast.NewIdent(fmt.Sprintf("verifOK%d", counter))
			vIdent := ast.NewIdent(fmt.Sprintf("verifV%d", counter))
			var head []ast.Stmt
			// v, ok := m[k]; if !ok { continue }
			head = append(head,
				&ast.AssignStmt{Lhs: []ast.Expr{vIdent, okIdent}, Tok: token.DEFINE, Rhs: []ast.Expr{&ast.IndexExpr{X: mexpr, Index: kIdent}}},
				&ast.IfStmt{Cond: &ast.UnaryExpr{Op: token.NOT, X: okIdent}, Body: &ast.BlockStmt{List: []ast.Stmt{&ast.BranchStmt{Tok: token.CONTINUE}}}},
				&ast.AssignStmt{Lhs: []ast.Expr{ast.NewIdent("_")}, Tok: token.ASSIGN, Rhs: []ast.Expr{vIdent}},
			)
			if !isBlank(n.Key) {
				head = append(head, &ast.AssignStmt{Lhs: []ast.Expr{n.Key}, Tok: n.Tok, Rhs: []ast.Expr{kIdent}})
				if n.Tok == token.DEFINE {
					head = append(head, &ast.AssignStmt{Lhs: []ast.Expr{ast.NewIdent("_")}, Tok: token.ASSIGN, Rhs: []ast.Expr{n.Key}})
				}
			}
			if !isBlank(n.Value) {
				head = append(head, &ast.AssignStmt{Lhs: []ast.Expr{n.Value}, Tok: n.Tok, Rhs: []ast.Expr{vIdent}})
				if n.Tok == token.DEFINE {
					head = append(head, &ast.AssignStmt{Lhs: []ast.Expr{ast.NewIdent("_")}, Tok: token.ASSIGN, Rhs: []ast.Expr{n.Value}})
				}
			}
			body := &ast.BlockStmt{List: append(head, n.Body.List...)}
			loop := &ast.RangeStmt{
				Key: ast.NewIdent("_"), Value: kIdent, Tok: token.DEFINE,
				X:    &ast.CallExpr{Fun: sel("verifshim", "Keys"), Args: []ast.Expr{mexpr, &ast.BasicLit{Kind: token.STRING, Value: fmt.Sprintf("%q", site)}}},
				Body: body,
			}
			rep.MapRangeSites = append(rep.MapRangeSites, site)
			changed = true
			if pre != nil {
				c.Replace(&ast.BlockStmt{List: []ast.Stmt{pre, loop}})
			} else {
				c.Replace(loop)
			}
			return true
		}
		return true
	}, nil)
	return changed
}

func pos(fset *token.FileSet, p token.Pos) string {
	ps := fset.Position(p)
	return fmt.Sprintf("%s:%d", strings.TrimPrefix(ps.Filename, "/repo/"), ps.Line)
}
