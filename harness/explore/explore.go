// Package explore is Engine A: an explicit-state, breadth-first explorer whose
// transition relation is the real implementation (package chain). States are
// deduplicated on a hash of every raw KV pair; successors are produced by
// replaying the recorded action path on a cache branch of the seed and
// delivering one more event. Monitors check every transition, invariants
// every distinct state.
package explore

import (
	"encoding/hex"
	"encoding/json"
	"fmt"
	"runtime"
	"sort"
	"sync"
	"sync/atomic"
	"time"

	sdk "github.com/cosmos/cosmos-sdk/types"

	"verif/harness/chain"
)

// ActionKind enumerates what an event can be.
type ActionKind int

const (
	ActMsg ActionKind = iota
	ActNextBlock
	ActBankSend
)

// Action is a fully instantiated event. Actions are immutable once created.
type Action struct {
	Kind  ActionKind
	Label string
	Msg   sdk.Msg
	Dt    time.Duration
	From  sdk.AccAddress
	To    sdk.AccAddress
	Coins sdk.Coins
}

// Event is an element of a scenario alphabet. Make instantiates it against
// the pre-state (it may look up ids there); nil means "not applicable here".
type Event struct {
	Name string
	Make func(pre *chain.Snapshot) *Action
}

// Fixed wraps a constant action as an event.
func Fixed(a *Action) Event {
	return Event{Name: a.Label, Make: func(*chain.Snapshot) *Action { return a }}
}

// Step is what a monitor sees of one transition.
type Step struct {
	Chain   *chain.Chain
	PreCtx  sdk.Context
	PostCtx sdk.Context
	Pre     *chain.Snapshot
	Post    *chain.Snapshot // == Pre when the event failed
	Act     *Action
	Res     *chain.Result
	Signers []string // bech32; for ActBankSend the sender; empty for NextBlock
	Depth   int
}

// Violation of a property. Kind is a stable discriminator computed from the
// failing data (not from the path), used to match known findings.
type Violation struct {
	Kind   string
	Detail string
}

// Ghost is history state kept by a monitor; it is part of the state key.
type Ghost interface {
	Clone() Ghost
	Digest() []byte
}

// Monitor checks a property.
type Monitor interface {
	Name() string
	NewGhost(c *chain.Chain, ctx sdk.Context, seed *chain.Snapshot) Ghost
	// OnStep is called for every transition with a private clone of the
	// parent's ghost, which it may update.
	OnStep(g Ghost, st *Step) []Violation
	// OnState is called once per distinct state.
	OnState(g Ghost, c *chain.Chain, ctx sdk.Context, s *chain.Snapshot) []Violation
	// Counters reports vacuity counters (merged by summation).
	Counters() map[string]int64
}

// Seed builds an initial state on a fresh chain.
type Seed struct {
	Name  string
	Opts  chain.Options
	Build func(c *chain.Chain) sdk.Context
}

// Scenario = seeds x alphabet x depth x monitors.
type Scenario struct {
	Name     string
	Seeds    []Seed
	Events   []Event
	Depth    int
	Monitors func() []Monitor // fresh monitor set per worker (counters are per worker)
	// ExpectFail lists event names / msg types that may legitimately never succeed.
	ExpectFail map[string]bool
	MinStates  int
}

// Found is a violation with the path that produced it.
type Found struct {
	Violation
	Scenario string
	Seed     string
	Path     []*Action
	Monitor  string
}

// Stats per (scenario, seed).
type Stats struct {
	Scenario       string              `json:"scenario"`
	Seed           string              `json:"seed"`
	Alphabet       int                 `json:"alphabet"`
	DepthTarget    int                 `json:"depth_target"`
	DepthCompleted int                 `json:"depth_completed"`
	States         int64               `json:"states"`
	Transitions    int64               `json:"transitions"`
	Succeeded      int64               `json:"succeeded"`
	Failed         int64               `json:"failed"`
	Panics         int64               `json:"panics"`
	Revalidated    int64               `json:"paths_revalidated_on_fresh_instance"`
	Divergences    []string            `json:"replay_divergences,omitempty"`
	PerEvent       map[string][2]int64 `json:"per_event_ok_fail"`
	PerType        map[string][2]int64 `json:"per_msg_type_ok_fail"`
	Counters       map[string]int64    `json:"monitor_counters"`
	Vacuity        []string            `json:"vacuity_warnings,omitempty"`
	Exhaustive     bool                `json:"exhaustive"`
	LayerSizes     []int               `json:"layer_sizes"`
	WallS          float64             `json:"wall_s"`
	PanicSamples   []string            `json:"panic_samples,omitempty"`
	SeedError      string              `json:"seed_error,omitempty"`
	Samples        []json.RawMessage   `json:"-"`
}

type node struct {
	path   []*Action
	ghosts []Ghost
}

type visited struct {
	shards [256]struct {
		sync.Mutex
		m map[[32]byte]struct{}
	}
}

func newVisited() *visited {
	v := &visited{}
	for i := range v.shards {
		v.shards[i].m = map[[32]byte]struct{}{}
	}
	return v
}

func (v *visited) add(k [32]byte) bool {
	s := &v.shards[k[0]]
	s.Lock()
	defer s.Unlock()
	if _, ok := s.m[k]; ok {
		return false
	}
	s.m[k] = struct{}{}
	return true
}

// Config of a run.
type Config struct {
	Workers  int
	Deadline time.Time // zero => none
	// RevalidateEvery: one in N new states has its path re-executed on a
	// fresh chain instance (0 => 199).
	RevalidateEvery int
	MaxViolations   int
}

type worker struct {
	c    *chain.Chain
	seed sdk.Context
	mons []Monitor
}

// Apply executes an action on a cache branch of ctx.
func Apply(c *chain.Chain, ctx sdk.Context, a *Action) (sdk.Context, func(), chain.Result, []string) {
	switch a.Kind {
	case ActMsg:
		post, w, res := c.Deliver(ctx, a.Msg)
		var signers []string
		func() {
			defer func() { _ = recover() }()
			m := a.Msg
			if res.Msg != nil {
				m = res.Msg
			}
			for _, s := range m.GetSigners() {
				signers = append(signers, s.String())
			}
		}()
		return post, w, res, signers
	case ActNextBlock:
		post, w, res := c.BeginBlock(ctx, a.Dt)
		return post, w, res, nil
	case ActBankSend:
		branch, w := ctx.CacheContext()
		branch = branch.WithEventManager(sdk.NewEventManager())
		res := chain.Result{Stage: "bank"}
		func() {
			defer func() {
				if r := recover(); r != nil {
					res.Panic, res.Err = true, fmt.Sprintf("panic: %v", r)
				}
			}()
			// what bank MsgSend does: blocked-address check, then SendCoins
			if c.BK.BlockedAddr(a.To) {
				res.Err = "blocked address"
				return
			}
			if err := c.BK.SendCoins(branch, a.From, a.To, a.Coins); err != nil {
				res.Err = err.Error()
				return
			}
			res.OK = true
		}()
		if !res.OK {
			return ctx, func() {}, res, []string{a.From.String()}
		}
		return branch, w, res, []string{a.From.String()}
	}
	panic("bad action kind")
}

// Replay executes a path on a cache branch of seed, writing each successful
// step, and returns the resulting context.
func Replay(c *chain.Chain, seed sdk.Context, path []*Action) sdk.Context {
	ctx, _ := seed.CacheContext()
	for _, a := range path {
		post, w, _, _ := Apply(c, ctx, a)
		w()
		if a.Kind == ActNextBlock {
			// header lives in the context, not in the store
			ctx = ctx.WithBlockHeader(post.BlockHeader())
		}
	}
	return ctx
}

func msgTypeName(a *Action) string {
	switch a.Kind {
	case ActMsg:
		return sdk.MsgTypeURL(a.Msg)
	case ActNextBlock:
		return "NextBlock"
	default:
		return "BankSend"
	}
}

func ghostDigest(gs []Ghost) []byte {
	var out []byte
	for _, g := range gs {
		if g != nil {
			d := g.Digest()
			out = append(out, byte(len(d)>>8), byte(len(d)))
			out = append(out, d...)
		}
	}
	return out
}

// Run explores one scenario from one seed.
func Run(sc *Scenario, seed Seed, cfg Config) (*Stats, []Found) {
	start := time.Now()
	if cfg.Workers <= 0 {
		cfg.Workers = runtime.NumCPU()
	}
	if cfg.RevalidateEvery <= 0 {
		cfg.RevalidateEvery = 199
	}
	if cfg.MaxViolations <= 0 {
		cfg.MaxViolations = 50
	}
	st := &Stats{Scenario: sc.Name, Seed: seed.Name, Alphabet: len(sc.Events), DepthTarget: sc.Depth,
		PerEvent: map[string][2]int64{}, PerType: map[string][2]int64{}, Counters: map[string]int64{}}

	ws := make([]*worker, cfg.Workers)
	var wg sync.WaitGroup
	var seedErr atomic.Value
	for i := range ws {
		wg.Add(1)
		go func(i int) {
			defer wg.Done()
			defer func() {
				if r := recover(); r != nil {
					seedErr.Store(fmt.Sprint(r))
				}
			}()
			c := chain.New(seed.Opts)
			ws[i] = &worker{c: c, seed: seed.Build(c), mons: sc.Monitors()}
		}(i)
	}
	wg.Wait()
	if e := seedErr.Load(); e != nil {
		// The seed state could not be built on this tree (a seed message that
		// used to succeed now fails). Nothing was explored from this seed: no
		// verdict, reported as such.
		st.SeedError = e.(string)
		st.Vacuity = append(st.Vacuity, "seed could not be built: "+st.SeedError)
		st.WallS = time.Since(start).Seconds()
		return st, nil
	}
	k0 := ws[0].c.StateKey(ws[0].seed, nil)
	for _, w := range ws[1:] {
		if w.c.StateKey(w.seed, nil) != k0 {
			st.Divergences = append(st.Divergences, "seed state differs between two fresh instances")
		}
	}

	vis := newVisited()
	var mu sync.Mutex // guards st maps, found, next
	var found []Found
	foundKinds := map[string]bool{}
	report := func(sc *Scenario, mon string, v Violation, path []*Action) {
		mu.Lock()
		defer mu.Unlock()
		if foundKinds[v.Kind] || len(found) >= cfg.MaxViolations {
			return
		}
		foundKinds[v.Kind] = true
		found = append(found, Found{Violation: v, Scenario: sc.Name, Seed: seed.Name, Path: append([]*Action{}, path...), Monitor: mon})
	}

	// layer 0
	w0 := ws[0]
	seedSnap := w0.c.Snap(w0.seed)
	g0 := make([]Ghost, len(w0.mons))
	for i, m := range w0.mons {
		g0[i] = m.NewGhost(w0.c, w0.seed, seedSnap)
	}
	vis.add(seedSnap.Key(ghostDigest(g0)))
	st.States = 1
	for i, m := range w0.mons {
		for _, v := range m.OnState(g0[i], w0.c, w0.seed, seedSnap) {
			report(sc, m.Name(), v, nil)
		}
	}
	frontier := []node{{ghosts: g0}}
	st.LayerSizes = append(st.LayerSizes, 1)
	var newStates, transitions, okN, failN, panicN, reval int64
	deadlineHit := false

	for depth := 1; depth <= sc.Depth && len(frontier) > 0; depth++ {
		var next []node
		layerStart := atomic.LoadInt64(&newStates)
		// work items: (node, chunk of the alphabet). With a small frontier the
		// alphabet of each node is split so that all workers have work.
		chunk := len(sc.Events)
		if len(frontier) < 4*len(ws) {
			per := (4*len(ws) + len(frontier) - 1) / len(frontier)
			chunk = (len(sc.Events) + per - 1) / per
			if chunk < 1 {
				chunk = 1
			}
		}
		type item struct{ n, lo, hi int }
		var items []item
		for ni := range frontier {
			for lo := 0; lo < len(sc.Events); lo += chunk {
				hi := lo + chunk
				if hi > len(sc.Events) {
					hi = len(sc.Events)
				}
				items = append(items, item{ni, lo, hi})
			}
		}
		var idx int64 = -1
		var stop int32
		for wi := range ws {
			wg.Add(1)
			go func(w *worker) {
				defer wg.Done()
				perEvent := map[string][2]int64{}
				perType := map[string][2]int64{}
				var localNext []node
				var panicSamples []string
				for {
					i := atomic.AddInt64(&idx, 1)
					if int(i) >= len(items) || atomic.LoadInt32(&stop) != 0 {
						break
					}
					if !cfg.Deadline.IsZero() && i%16 == 0 && time.Now().After(cfg.Deadline) {
						atomic.StoreInt32(&stop, 1)
						break
					}
					it := items[i]
					n := frontier[it.n]
					ctx := Replay(w.c, w.seed, n.path)
					pre := w.c.Snap(ctx)
					for _, ev := range sc.Events[it.lo:it.hi] {
						act := ev.Make(pre)
						if act == nil {
							continue
						}
						postCtx, _, res, signers := Apply(w.c, ctx, act)
						atomic.AddInt64(&transitions, 1)
						pe, pt := perEvent[ev.Name], perType[msgTypeName(act)]
						if res.OK {
							pe[0]++
							pt[0]++
							atomic.AddInt64(&okN, 1)
						} else {
							pe[1]++
							pt[1]++
							atomic.AddInt64(&failN, 1)
							if res.Panic {
								atomic.AddInt64(&panicN, 1)
								if len(panicSamples) < 3 {
									panicSamples = append(panicSamples, act.Label+": "+res.Err)
								}
							}
						}
						perEvent[ev.Name], perType[msgTypeName(act)] = pe, pt
						post := pre
						changed := res.OK || act.Kind == ActNextBlock
						if changed {
							post = w.c.Snap(postCtx)
						}
						step := &Step{Chain: w.c, PreCtx: ctx, PostCtx: postCtx, Pre: pre, Post: post, Act: act, Res: &res, Signers: signers, Depth: depth}
						gs := make([]Ghost, len(n.ghosts))
						path := append(append(make([]*Action, 0, len(n.path)+1), n.path...), act)
						for mi, m := range w.mons {
							if n.ghosts[mi] != nil {
								gs[mi] = n.ghosts[mi].Clone()
							}
							for _, v := range m.OnStep(gs[mi], step) {
								report(sc, m.Name(), v, path)
							}
						}
						if !changed {
							continue // state and ghost unchanged by construction of a failed tx
						}
						if act.Kind == ActNextBlock && !res.OK {
							// block processing failed: a real chain halts here, nothing is reachable beyond
							// (the failure itself was given to the monitors above)
							continue
						}
						key := post.Key(ghostDigest(gs))
						if !vis.add(key) {
							continue
						}
						ns := atomic.AddInt64(&newStates, 1)
						for mi, m := range w.mons {
							for _, v := range m.OnState(gs[mi], w.c, postCtx, post) {
								report(sc, m.Name(), v, path)
							}
						}
						if ns%int64(cfg.RevalidateEvery) == 0 {
							// ownership-of-nondeterminism self check on a fresh instance
							fc := chain.New(seed.Opts)
							fseed := seed.Build(fc)
							fctx := Replay(fc, fseed, path)
							atomic.AddInt64(&reval, 1)
							div := ""
							if fc.StateKey(fctx, nil) != post.RawHash {
								div = "path diverged on fresh instance: " + PathString(path)
							} else if d := w.c.SelfCheckSnap(postCtx); d != "" {
								div = "snapshot reader self-check: " + d + " after " + PathString(path)
							}
							if div != "" {
								mu.Lock()
								if len(st.Divergences) < 5 {
									st.Divergences = append(st.Divergences, div)
								}
								mu.Unlock()
							}
						}
						if depth < sc.Depth {
							localNext = append(localNext, node{path: path, ghosts: gs})
						}
					}
				}
				mu.Lock()
				for k, v := range perEvent {
					t := st.PerEvent[k]
					t[0] += v[0]
					t[1] += v[1]
					st.PerEvent[k] = t
				}
				for k, v := range perType {
					t := st.PerType[k]
					t[0] += v[0]
					t[1] += v[1]
					st.PerType[k] = t
				}
				next = append(next, localNext...)
				if len(st.PanicSamples) < 5 {
					st.PanicSamples = append(st.PanicSamples, panicSamples...)
				}
				mu.Unlock()
			}(ws[wi])
		}
		wg.Wait()
		if stop != 0 {
			deadlineHit = true
			break
		}
		st.DepthCompleted = depth
		st.LayerSizes = append(st.LayerSizes, int(atomic.LoadInt64(&newStates)-layerStart))
		// deterministic order of the next layer regardless of worker timing
		sort.Slice(next, func(i, j int) bool { return pathLess(next[i].path, next[j].path) })
		frontier = next
	}
	if !deadlineHit && st.DepthCompleted < sc.Depth {
		st.DepthCompleted = sc.Depth // frontier emptied: the whole reachable space is covered
	}
	st.States += newStates
	st.Transitions, st.Succeeded, st.Failed, st.Panics, st.Revalidated = transitions, okN, failN, panicN, reval
	for _, w := range ws {
		for _, m := range w.mons {
			for k, v := range m.Counters() {
				st.Counters[m.Name()+"."+k] += v
			}
		}
	}
	st.Exhaustive = !deadlineHit
	// vacuity
	if sc.MinStates > 0 && st.States < int64(sc.MinStates) && !deadlineHit {
		st.Vacuity = append(st.Vacuity, fmt.Sprintf("only %d states (< %d)", st.States, sc.MinStates))
	}
	sort.Strings(st.Vacuity)
	// a few sample paths for evidence
	for i := 0; i < len(frontier) && i < 2; i++ {
		st.Samples = append(st.Samples, PathJSON(ws[0].c, frontier[len(frontier)*i/2].path))
	}
	st.WallS = time.Since(start).Seconds()
	return st, found
}

func pathLess(a, b []*Action) bool {
	for i := 0; i < len(a) && i < len(b); i++ {
		if a[i].Label != b[i].Label {
			return a[i].Label < b[i].Label
		}
	}
	return len(a) < len(b)
}

// PathString is a short human-readable rendering.
func PathString(p []*Action) string {
	s := ""
	for i, a := range p {
		if i > 0 {
			s += " ; "
		}
		s += a.Label
	}
	return s
}

// ActionJSON is the serialised form of an action in replay files.
type ActionJSON struct {
	Kind  string          `json:"kind"`
	Label string          `json:"label"`
	Msg   json.RawMessage `json:"msg,omitempty"`
	DtNs  int64           `json:"dt_ns,omitempty"`
	From  string          `json:"from,omitempty"`
	To    string          `json:"to,omitempty"`
	Coins string          `json:"coins,omitempty"`
}

// EncodeAction serialises an action.
func EncodeAction(c *chain.Chain, a *Action) ActionJSON {
	switch a.Kind {
	case ActMsg:
		bz, err := c.Cdc.MarshalInterfaceJSON(a.Msg)
		if err != nil {
			bz, _ = json.Marshal(map[string]string{"unencodable": err.Error()})
		}
		return ActionJSON{Kind: "msg", Label: a.Label, Msg: bz}
	case ActNextBlock:
		return ActionJSON{Kind: "next_block", Label: a.Label, DtNs: int64(a.Dt)}
	default:
		return ActionJSON{Kind: "bank_send", Label: a.Label, From: a.From.String(), To: a.To.String(), Coins: a.Coins.String()}
	}
}

// DecodeAction is the inverse of EncodeAction.
func DecodeAction(c *chain.Chain, j ActionJSON) (*Action, error) {
	switch j.Kind {
	case "msg":
		var m sdk.Msg
		if err := c.Cdc.UnmarshalInterfaceJSON(j.Msg, &m); err != nil {
			return nil, err
		}
		return &Action{Kind: ActMsg, Label: j.Label, Msg: m}, nil
	case "next_block":
		return &Action{Kind: ActNextBlock, Label: j.Label, Dt: time.Duration(j.DtNs)}, nil
	case "bank_send":
		coins, err := sdk.ParseCoinsNormalized(j.Coins)
		if err != nil {
			return nil, err
		}
		return &Action{Kind: ActBankSend, Label: j.Label, From: sdk.MustAccAddressFromBech32(j.From), To: sdk.MustAccAddressFromBech32(j.To), Coins: coins}, nil
	}
	return nil, fmt.Errorf("unknown action kind %q", j.Kind)
}

// PathJSON renders a path for evidence samples.
func PathJSON(c *chain.Chain, p []*Action) json.RawMessage {
	out := make([]ActionJSON, len(p))
	for i, a := range p {
		out[i] = EncodeAction(c, a)
	}
	bz, _ := json.Marshal(out)
	return bz
}

// KeyHex is a helper for replay files.
func KeyHex(k [32]byte) string { return hex.EncodeToString(k[:]) }
