// mc is the model checker binary: `mc check -p <id> -tier quick|thorough`,
// `mc replay <file>`, `mc list`.
package main

import (
	"flag"
	"fmt"
	"os"

	"verif/harness/props"
)

func main() {
	if len(os.Args) < 2 {
		fmt.Fprintln(os.Stderr, "usage: mc check -p <id> -tier <quick|thorough> | mc replay <file> | mc list")
		os.Exit(2)
	}
	switch os.Args[1] {
	case "list":
		for _, id := range props.IDs() {
			fmt.Println(id)
		}
	case "check":
		fs := flag.NewFlagSet("check", flag.ExitOnError)
		id := fs.String("p", "", "property id")
		tier := fs.String("tier", "quick", "quick|thorough")
		_ = fs.Parse(os.Args[2:])
		if t := os.Getenv("VERIF_TIER"); t != "" && *tier == "" {
			*tier = t
		}
		c, ok := props.Registry[*id]
		if !ok {
			fmt.Fprintln(os.Stderr, "unknown property", *id)
			os.Exit(2)
		}
		os.Exit(c(*tier))
	case "c10child":
		os.Exit(props.C10Child())
	case "c10shim":
		fs := flag.NewFlagSet("c10shim", flag.ExitOnError)
		tier := fs.String("tier", "quick", "")
		shard := fs.Int("shard", 0, "")
		of := fs.Int("of", 1, "")
		maxdev := fs.Int("maxdev", 1, "")
		_ = fs.Parse(os.Args[2:])
		os.Exit(props.C10Shim(*tier, *shard, *of, *maxdev))
	case "try":
		os.Exit(props.Try(os.Args[2]))
	case "replay":
		os.Exit(props.Replay(os.Args[2:]))
	default:
		fmt.Fprintln(os.Stderr, "unknown command", os.Args[1])
		os.Exit(2)
	}
}
