package main

import (
	"fmt"

	"verif/harness/chain"
	"verif/harness/scen"
)

func main() {
	c := chain.New(chain.Options{})
	ctx := scen.PreparedSeed("prepared").Build(c)
	fmt.Println(string(c.Eco.ExportGenesis(ctx, c.Cdc)))
	bz, _ := c.DataSrv.ExportGenesis(ctx, c.Cdc)
	fmt.Println(string(bz))
}
