//go:build verif

package chain

import (
	storetypes "github.com/cosmos/cosmos-sdk/store/types"

	"github.com/regen-network/regen-ledger/x/data/v3"
	dataserver "github.com/regen-network/regen-ledger/x/data/v3/server"
	"github.com/regen-network/regen-ledger/x/data/v3/server/hasher"
)

func newDataServerWithHasher(key storetypes.StoreKey, ak data.AccountKeeper, bk data.BankKeeper, h hasher.Hasher) DataServer {
	return dataserver.NewServerWithHasher(key, ak, bk, h)
}
