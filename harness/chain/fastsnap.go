package chain

import (
	"bytes"
	"crypto/sha256"
	"encoding/binary"
	"fmt"
	"math/big"
	"reflect"

	sdkmath "cosmossdk.io/math"
	"github.com/cosmos/cosmos-sdk/orm/encoding/ormkv"
	sdk "github.com/cosmos/cosmos-sdk/types"
	authtypes "github.com/cosmos/cosmos-sdk/x/auth/types"
	banktypes "github.com/cosmos/cosmos-sdk/x/bank/types"
	"google.golang.org/protobuf/proto"

	dataapi "github.com/regen-network/regen-ledger/api/v2/regen/data/v1"
	basketapi "github.com/regen-network/regen-ledger/api/v2/regen/ecocredit/basket/v1"
	marketapi "github.com/regen-network/regen-ledger/api/v2/regen/ecocredit/marketplace/v1"
	baseapi "github.com/regen-network/regen-ledger/api/v2/regen/ecocredit/v1"
	"github.com/regen-network/regen-ledger/x/data/v3"
	"github.com/regen-network/regen-ledger/x/ecocredit/v3"
)

// Snap reads the snapshot and the raw state hash in a single pass over the raw
// KV pairs of the consensus stores. ORM rows are decoded from primary-key
// entries with the module DB's own entry decoder; secondary-index and sequence
// entries only feed the hash. The result is cross-checked against SnapSlow
// (ORM List scans + bank keeper iterators) by SelfCheckSnap.
func (c *Chain) Snap(ctx sdk.Context) *Snapshot {
	s := &Snapshot{Time: ctx.BlockTime(), Height: ctx.BlockHeight()}
	s.Allowlist, s.ClassFee, s.ProjectFee = &baseapi.ClassCreatorAllowlist{}, &baseapi.ClassFee{}, &baseapi.ProjectFee{}
	s.BasketFee, s.FeeParams = &basketapi.BasketFee{}, &marketapi.FeeParams{}
	s.Coins = map[string]map[string]*big.Int{}
	s.Supply = map[string]*big.Int{}
	h := sha256.New()
	var lb [8]byte
	put := func(b []byte) {
		binary.BigEndian.PutUint64(lb[:], uint64(len(b)))
		h.Write(lb[:])
		h.Write(b)
	}
	ms := ctx.MultiStore()

	// auth: hash only
	put([]byte(authtypes.StoreKey))
	it := ms.GetKVStore(c.Keys[authtypes.StoreKey]).Iterator(nil, nil)
	for ; it.Valid(); it.Next() {
		put(it.Key())
		put(it.Value())
	}
	it.Close()

	// bank: balances (0x02 | len | addr | denom -> Int) and supply (0x00 | denom -> Int)
	put([]byte(banktypes.StoreKey))
	it = ms.GetKVStore(c.Keys[banktypes.StoreKey]).Iterator(nil, nil)
	for ; it.Valid(); it.Next() {
		k, v := it.Key(), it.Value()
		put(k)
		put(v)
		switch k[0] {
		case banktypes.BalancesPrefix[0]:
			n := int(k[1])
			addr := sdk.AccAddress(k[2 : 2+n]).String()
			denom := string(k[2+n:])
			var amt sdkmath.Int
			must(amt.Unmarshal(v))
			if s.Coins[addr] == nil {
				s.Coins[addr] = map[string]*big.Int{}
			}
			s.Coins[addr][denom] = amt.BigInt()
		case banktypes.SupplyKey[0]:
			var amt sdkmath.Int
			must(amt.Unmarshal(v))
			s.Supply[string(k[1:])] = amt.BigInt()
		}
	}
	it.Close()

	put([]byte(ecocredit.ModuleName))
	it = ms.GetKVStore(c.Keys[ecocredit.ModuleName]).Iterator(nil, nil)
	for ; it.Valid(); it.Next() {
		k, v := it.Key(), it.Value()
		put(k)
		put(v)
		s.addEntry(c, k, v, false)
	}
	it.Close()

	put([]byte(data.ModuleName))
	it = ms.GetKVStore(c.Keys[data.ModuleName]).Iterator(nil, nil)
	for ; it.Valid(); it.Next() {
		k, v := it.Key(), it.Value()
		put(k)
		put(v)
		s.addEntry(c, k, v, true)
	}
	it.Close()

	binary.BigEndian.PutUint64(lb[:], uint64(ctx.BlockTime().UnixNano()))
	h.Write(lb[:])
	binary.BigEndian.PutUint64(lb[:], uint64(ctx.BlockHeight()))
	h.Write(lb[:])
	copy(s.RawHash[:], h.Sum(nil))
	return s
}

// Key combines the raw state hash with the ghost digest.
func (s *Snapshot) Key(extra []byte) [32]byte {
	if len(extra) == 0 {
		return s.RawHash
	}
	return sha256.Sum256(append(append([]byte{}, s.RawHash[:]...), extra...))
}

// ORM key layout (cosmos-sdk/orm): <module prefix><file id><table id> then
// 0x00 for the primary key, an index id for secondary indexes, 0x80.. for the
// auto-increment sequence; singletons have no suffix at all. The module
// schemas of both regen modules use one-byte ids, so table prefixes are 3
// bytes for ecocredit (prefix 07 by storage layout) — this is not assumed
// blindly: SelfCheckSnap compares with ORM List scans.
func (s *Snapshot) addEntry(c *Chain, k, v []byte, isData bool) {
	db := c.EcoDB
	plen := ecoPrefixLen
	if isData {
		db = c.DataDB
		plen = dataPrefixLen
	}
	if len(k) == plen {
		// singleton
		s.addSingleton(k, v)
		return
	}
	if len(k) < plen+1 || k[plen] != 0 {
		return // secondary index or sequence entry
	}
	e, err := db.DecodeEntry(k, v)
	if err != nil {
		panic(fmt.Sprintf("decode %x: %v", k, err))
	}
	pk, ok := e.(*ormkv.PrimaryKeyEntry)
	if !ok {
		panic(fmt.Sprintf("entry %x is %T, expected primary key", k, e))
	}
	switch m := pk.Value.(type) {
	case *baseapi.CreditType:
		s.CreditTypes = append(s.CreditTypes, m)
	case *baseapi.Class:
		s.Classes = append(s.Classes, m)
	case *baseapi.ClassIssuer:
		s.ClassIssuers = append(s.ClassIssuers, m)
	case *baseapi.Project:
		s.Projects = append(s.Projects, m)
	case *baseapi.Batch:
		s.Batches = append(s.Batches, m)
	case *baseapi.ClassSequence:
		s.ClassSeqs = append(s.ClassSeqs, m)
	case *baseapi.ProjectSequence:
		s.ProjectSeqs = append(s.ProjectSeqs, m)
	case *baseapi.BatchSequence:
		s.BatchSeqs = append(s.BatchSeqs, m)
	case *baseapi.BatchBalance:
		s.Balances = append(s.Balances, m)
	case *baseapi.BatchSupply:
		s.Supplies = append(s.Supplies, m)
	case *baseapi.OriginTxIndex:
		s.OriginTxs = append(s.OriginTxs, m)
	case *baseapi.BatchContract:
		s.Contracts = append(s.Contracts, m)
	case *baseapi.AllowedClassCreator:
		s.AllowedCreators = append(s.AllowedCreators, m)
	case *baseapi.AllowedBridgeChain:
		s.BridgeChains = append(s.BridgeChains, m)
	case *baseapi.ProjectEnrollment:
		s.Enrollments = append(s.Enrollments, m)
	case *basketapi.Basket:
		s.Baskets = append(s.Baskets, m)
	case *basketapi.BasketClass:
		s.BasketClasses = append(s.BasketClasses, m)
	case *basketapi.BasketBalance:
		s.BasketBalances = append(s.BasketBalances, m)
	case *marketapi.SellOrder:
		s.SellOrders = append(s.SellOrders, m)
	case *marketapi.AllowedDenom:
		s.AllowedDenoms = append(s.AllowedDenoms, m)
	case *marketapi.Market:
		s.Markets = append(s.Markets, m)
	case *dataapi.DataID:
		s.DataIDs = append(s.DataIDs, m)
	case *dataapi.DataAnchor:
		s.DataAnchors = append(s.DataAnchors, m)
	case *dataapi.DataAttestor:
		s.DataAttestors = append(s.DataAttestors, m)
	case *dataapi.Resolver:
		s.Resolvers = append(s.Resolvers, m)
	case *dataapi.DataResolver:
		s.DataResolvers = append(s.DataResolvers, m)
	default:
		panic(fmt.Sprintf("unhandled table row type %T at %x", pk.Value, k))
	}
}

var (
	ecoPrefixLen, dataPrefixLen int
	singletonByPrefix           = map[string]string{}
)

func (s *Snapshot) addSingleton(k, v []byte) {
	var m proto.Message
	switch singletonByPrefix[string(k)] {
	case "BasketFee":
		m = s.BasketFee
	case "ClassCreatorAllowlist":
		m = s.Allowlist
	case "ClassFee":
		m = s.ClassFee
	case "ProjectFee":
		m = s.ProjectFee
	case "FeeParams":
		m = s.FeeParams
	default:
		panic(fmt.Sprintf("unknown singleton key %x", k))
	}
	must(proto.Unmarshal(v, m))
}

// learnLayout discovers the table prefix length and the singleton prefixes
// from the ORM itself (by writing singletons/rows into a scratch branch and
// looking at the keys), so that nothing about ids is hard-coded.
func (c *Chain) learnLayout() {
	if ecoPrefixLen != 0 {
		return
	}
	ctx, _ := c.BaseContext(T0, 1).CacheContext()
	g := sdk.WrapSDKContext(ctx)
	store := func(name string) map[string]bool {
		out := map[string]bool{}
		it := ctx.MultiStore().GetKVStore(c.Keys[name]).Iterator(nil, nil)
		for ; it.Valid(); it.Next() {
			out[string(it.Key())] = true
		}
		it.Close()
		return out
	}
	diff := func(name string, f func()) []string {
		before := store(name)
		f()
		var out []string
		for k := range store(name) {
			if !before[k] {
				out = append(out, k)
			}
		}
		return out
	}
	one := func(name string, f func()) string {
		d := diff(name, f)
		if len(d) != 1 {
			panic(fmt.Sprintf("layout probe: expected 1 new key, got %d", len(d)))
		}
		return d[0]
	}
	reg := func(n string, f func()) {
		k := one(ecocredit.ModuleName, f)
		// a singleton may already exist in an initialised store; use a fresh value to force a write
		singletonByPrefix[k] = n
		if ecoPrefixLen == 0 {
			ecoPrefixLen = len(k)
		} else if ecoPrefixLen != len(k) {
			panic("singleton prefixes of different length")
		}
	}
	// the scratch branch is over an empty or initialised store; delete first so Save creates a key
	del := func(k string) {}
	_ = del
	clear := func(name string) {
		st := ctx.MultiStore().GetKVStore(c.Keys[name])
		it := st.Iterator(nil, nil)
		var ks [][]byte
		for ; it.Valid(); it.Next() {
			ks = append(ks, append([]byte{}, it.Key()...))
		}
		it.Close()
		for _, k := range ks {
			st.Delete(k)
		}
	}
	clear(ecocredit.ModuleName)
	clear(data.ModuleName)
	reg("BasketFee", func() {
		must(c.BasketStore.BasketFeeTable().Save(g, &basketapi.BasketFee{Fee: nil}))
		// an all-default singleton is stored as an empty value; still a key
	})
	reg("ClassCreatorAllowlist", func() {
		must(c.BaseStore.ClassCreatorAllowlistTable().Save(g, &baseapi.ClassCreatorAllowlist{Enabled: true}))
	})
	reg("ClassFee", func() { must(c.BaseStore.ClassFeeTable().Save(g, &baseapi.ClassFee{})) })
	reg("ProjectFee", func() { must(c.BaseStore.ProjectFeeTable().Save(g, &baseapi.ProjectFee{})) })
	reg("FeeParams", func() {
		must(c.MarketStore.FeeParamsTable().Save(g, &marketapi.FeeParams{BuyerPercentageFee: "0.1"}))
	})
	// data module: a row in a table without secondary index => exactly one key: prefix + 0x00 + pk
	k := one(data.ModuleName, func() {
		must(c.DataStore.DataAnchorTable().Insert(g, &dataapi.DataAnchor{Id: []byte{1}}))
	})
	// key = prefix | 0x00 | 0x01 (bytes pk, last field => raw)
	if !bytes.HasSuffix([]byte(k), []byte{0, 1}) {
		panic(fmt.Sprintf("unexpected data anchor key %x", k))
	}
	dataPrefixLen = len(k) - 2
	// same probe for ecocredit to confirm the 0x00 primary-key marker
	k = one(ecocredit.ModuleName, func() {
		must(c.BaseStore.AllowedBridgeChainTable().Insert(g, &baseapi.AllowedBridgeChain{ChainName: "x"}))
	})
	if len(k) != ecoPrefixLen+2 || k[ecoPrefixLen] != 0 || k[len(k)-1] != 'x' {
		panic(fmt.Sprintf("unexpected bridge chain key %x", k))
	}
}

// SelfCheckSnap compares the fast reader with the slow one on ctx and returns
// a description of the first difference ("" if equal).
func (c *Chain) SelfCheckSnap(ctx sdk.Context) string {
	a, b := c.Snap(ctx), c.SnapSlow(ctx)
	if c.StateKey(ctx, nil) != a.RawHash {
		return "raw hash differs between Snap and StateKey"
	}
	b.RawHash = a.RawHash
	va, vb := reflect.ValueOf(a).Elem(), reflect.ValueOf(b).Elem()
	for i := 0; i < va.NumField(); i++ {
		name := va.Type().Field(i).Name
		fa, fb := va.Field(i).Interface(), vb.Field(i).Interface()
		if !snapFieldEqual(fa, fb) {
			return fmt.Sprintf("snapshot field %s differs: fast=%v slow=%v", name, fa, fb)
		}
	}
	return ""
}

func snapFieldEqual(a, b interface{}) bool {
	switch x := a.(type) {
	case proto.Message:
		return proto.Equal(x, b.(proto.Message))
	case map[string]*big.Int:
		y := b.(map[string]*big.Int)
		if len(x) != len(y) {
			return false
		}
		for k, v := range x {
			if y[k] == nil || y[k].Cmp(v) != 0 {
				return false
			}
		}
		return true
	case map[string]map[string]*big.Int:
		y := b.(map[string]map[string]*big.Int)
		if len(x) != len(y) {
			return false
		}
		for k, v := range x {
			if !snapFieldEqual(v, y[k]) {
				return false
			}
		}
		return true
	}
	va, vb := reflect.ValueOf(a), reflect.ValueOf(b)
	if va.Kind() == reflect.Slice {
		if va.Len() != vb.Len() {
			return false
		}
		for i := 0; i < va.Len(); i++ {
			if !proto.Equal(va.Index(i).Interface().(proto.Message), vb.Index(i).Interface().(proto.Message)) {
				return false
			}
		}
		return true
	}
	return reflect.DeepEqual(a, b)
}
