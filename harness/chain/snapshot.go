package chain

import (
	"crypto/sha256"
	"encoding/binary"
	"math/big"
	"sort"
	"time"

	sdk "github.com/cosmos/cosmos-sdk/types"

	dataapi "github.com/regen-network/regen-ledger/api/v2/regen/data/v1"
	basketapi "github.com/regen-network/regen-ledger/api/v2/regen/ecocredit/basket/v1"
	marketapi "github.com/regen-network/regen-ledger/api/v2/regen/ecocredit/marketplace/v1"
	baseapi "github.com/regen-network/regen-ledger/api/v2/regen/ecocredit/v1"
)

func sortStrings(s []string) { sort.Strings(s) }

// Snapshot is a plain-Go copy of everything monitors may look at. It is read
// through primary-key full scans of the generated ORM tables and through the
// bank keeper's iterators; monitors never touch keepers.
type Snapshot struct {
	Time   time.Time
	Height int64

	CreditTypes     []*baseapi.CreditType
	Classes         []*baseapi.Class
	ClassIssuers    []*baseapi.ClassIssuer
	Projects        []*baseapi.Project
	Batches         []*baseapi.Batch
	ClassSeqs       []*baseapi.ClassSequence
	ProjectSeqs     []*baseapi.ProjectSequence
	BatchSeqs       []*baseapi.BatchSequence
	Balances        []*baseapi.BatchBalance
	Supplies        []*baseapi.BatchSupply
	OriginTxs       []*baseapi.OriginTxIndex
	Contracts       []*baseapi.BatchContract
	Allowlist       *baseapi.ClassCreatorAllowlist
	AllowedCreators []*baseapi.AllowedClassCreator
	ClassFee        *baseapi.ClassFee
	BridgeChains    []*baseapi.AllowedBridgeChain
	Enrollments     []*baseapi.ProjectEnrollment
	ProjectFee      *baseapi.ProjectFee
	Baskets         []*basketapi.Basket
	BasketClasses   []*basketapi.BasketClass
	BasketBalances  []*basketapi.BasketBalance
	BasketFee       *basketapi.BasketFee
	SellOrders      []*marketapi.SellOrder
	AllowedDenoms   []*marketapi.AllowedDenom
	Markets         []*marketapi.Market
	FeeParams       *marketapi.FeeParams
	DataIDs         []*dataapi.DataID
	DataAnchors     []*dataapi.DataAnchor
	DataAttestors   []*dataapi.DataAttestor
	Resolvers       []*dataapi.Resolver
	DataResolvers   []*dataapi.DataResolver

	// RawHash is the hash of all raw KV pairs + time + height (set by Snap).
	RawHash [32]byte

	// Bank: bech32 address -> denom -> amount; denom -> total supply.
	Coins  map[string]map[string]*big.Int
	Supply map[string]*big.Int
}

type iter[T any] interface {
	Next() bool
	Value() (T, error)
	Close()
}

func collect[T any, I iter[T]](it I, err error) []T {
	must(err)
	defer it.Close()
	var out []T
	for it.Next() {
		v, err := it.Value()
		must(err)
		out = append(out, v)
	}
	return out
}

// SnapSlow reads a snapshot from ctx through the generated ORM table clients
// (primary-key List) and the bank keeper's iterators. It is the reference the
// fast single-pass reader is cross-checked against.
func (c *Chain) SnapSlow(sctx sdk.Context) *Snapshot {
	ctx := sdk.WrapSDKContext(sctx.WithGasMeter(sdk.NewInfiniteGasMeter()))
	s := &Snapshot{Time: sctx.BlockTime(), Height: sctx.BlockHeight()}
	b, k, m, d := c.BaseStore, c.BasketStore, c.MarketStore, c.DataStore
	s.CreditTypes = collect[*baseapi.CreditType](b.CreditTypeTable().List(ctx, baseapi.CreditTypePrimaryKey{}))
	s.Classes = collect[*baseapi.Class](b.ClassTable().List(ctx, baseapi.ClassPrimaryKey{}))
	s.ClassIssuers = collect[*baseapi.ClassIssuer](b.ClassIssuerTable().List(ctx, baseapi.ClassIssuerPrimaryKey{}))
	s.Projects = collect[*baseapi.Project](b.ProjectTable().List(ctx, baseapi.ProjectPrimaryKey{}))
	s.Batches = collect[*baseapi.Batch](b.BatchTable().List(ctx, baseapi.BatchPrimaryKey{}))
	s.ClassSeqs = collect[*baseapi.ClassSequence](b.ClassSequenceTable().List(ctx, baseapi.ClassSequencePrimaryKey{}))
	s.ProjectSeqs = collect[*baseapi.ProjectSequence](b.ProjectSequenceTable().List(ctx, baseapi.ProjectSequencePrimaryKey{}))
	s.BatchSeqs = collect[*baseapi.BatchSequence](b.BatchSequenceTable().List(ctx, baseapi.BatchSequencePrimaryKey{}))
	s.Balances = collect[*baseapi.BatchBalance](b.BatchBalanceTable().List(ctx, baseapi.BatchBalancePrimaryKey{}))
	s.Supplies = collect[*baseapi.BatchSupply](b.BatchSupplyTable().List(ctx, baseapi.BatchSupplyPrimaryKey{}))
	s.OriginTxs = collect[*baseapi.OriginTxIndex](b.OriginTxIndexTable().List(ctx, baseapi.OriginTxIndexPrimaryKey{}))
	s.Contracts = collect[*baseapi.BatchContract](b.BatchContractTable().List(ctx, baseapi.BatchContractPrimaryKey{}))
	s.AllowedCreators = collect[*baseapi.AllowedClassCreator](b.AllowedClassCreatorTable().List(ctx, baseapi.AllowedClassCreatorPrimaryKey{}))
	s.BridgeChains = collect[*baseapi.AllowedBridgeChain](b.AllowedBridgeChainTable().List(ctx, baseapi.AllowedBridgeChainPrimaryKey{}))
	s.Enrollments = collect[*baseapi.ProjectEnrollment](b.ProjectEnrollmentTable().List(ctx, baseapi.ProjectEnrollmentPrimaryKey{}))
	var err error
	s.Allowlist, err = b.ClassCreatorAllowlistTable().Get(ctx)
	must(err)
	s.ClassFee, err = b.ClassFeeTable().Get(ctx)
	must(err)
	s.ProjectFee, err = b.ProjectFeeTable().Get(ctx)
	must(err)

	s.Baskets = collect[*basketapi.Basket](k.BasketTable().List(ctx, basketapi.BasketPrimaryKey{}))
	s.BasketClasses = collect[*basketapi.BasketClass](k.BasketClassTable().List(ctx, basketapi.BasketClassPrimaryKey{}))
	s.BasketBalances = collect[*basketapi.BasketBalance](k.BasketBalanceTable().List(ctx, basketapi.BasketBalancePrimaryKey{}))
	s.BasketFee, err = k.BasketFeeTable().Get(ctx)
	must(err)

	s.SellOrders = collect[*marketapi.SellOrder](m.SellOrderTable().List(ctx, marketapi.SellOrderPrimaryKey{}))
	s.AllowedDenoms = collect[*marketapi.AllowedDenom](m.AllowedDenomTable().List(ctx, marketapi.AllowedDenomPrimaryKey{}))
	s.Markets = collect[*marketapi.Market](m.MarketTable().List(ctx, marketapi.MarketPrimaryKey{}))
	s.FeeParams, err = m.FeeParamsTable().Get(ctx)
	must(err)

	s.DataIDs = collect[*dataapi.DataID](d.DataIDTable().List(ctx, dataapi.DataIDPrimaryKey{}))
	s.DataAnchors = collect[*dataapi.DataAnchor](d.DataAnchorTable().List(ctx, dataapi.DataAnchorPrimaryKey{}))
	s.DataAttestors = collect[*dataapi.DataAttestor](d.DataAttestorTable().List(ctx, dataapi.DataAttestorPrimaryKey{}))
	s.Resolvers = collect[*dataapi.Resolver](d.ResolverTable().List(ctx, dataapi.ResolverPrimaryKey{}))
	s.DataResolvers = collect[*dataapi.DataResolver](d.DataResolverTable().List(ctx, dataapi.DataResolverPrimaryKey{}))

	s.Coins = map[string]map[string]*big.Int{}
	s.Supply = map[string]*big.Int{}
	c.BK.IterateAllBalances(sctx, func(a sdk.AccAddress, coin sdk.Coin) bool {
		k := a.String()
		if s.Coins[k] == nil {
			s.Coins[k] = map[string]*big.Int{}
		}
		s.Coins[k][coin.Denom] = coin.Amount.BigInt()
		return false
	})
	c.BK.IterateTotalSupply(sctx, func(coin sdk.Coin) bool {
		s.Supply[coin.Denom] = coin.Amount.BigInt()
		return false
	})
	return s
}

// Coin returns the balance of addr in denom (0 if none).
func (s *Snapshot) Coin(addr, denom string) *big.Int {
	if m := s.Coins[addr]; m != nil {
		if v := m[denom]; v != nil {
			return v
		}
	}
	return new(big.Int)
}

// TotalSupply of a bank denom (0 if none).
func (s *Snapshot) TotalSupply(denom string) *big.Int {
	if v := s.Supply[denom]; v != nil {
		return v
	}
	return new(big.Int)
}

// BatchByKey, BatchByDenom etc. are linear scans: states are tiny.
func (s *Snapshot) BatchByKey(k uint64) *baseapi.Batch {
	for _, b := range s.Batches {
		if b.Key == k {
			return b
		}
	}
	return nil
}

func (s *Snapshot) BatchByDenom(d string) *baseapi.Batch {
	for _, b := range s.Batches {
		if b.Denom == d {
			return b
		}
	}
	return nil
}

func (s *Snapshot) ClassByKey(k uint64) *baseapi.Class {
	for _, c := range s.Classes {
		if c.Key == k {
			return c
		}
	}
	return nil
}

func (s *Snapshot) ClassByID(id string) *baseapi.Class {
	for _, c := range s.Classes {
		if c.Id == id {
			return c
		}
	}
	return nil
}

func (s *Snapshot) ProjectByKey(k uint64) *baseapi.Project {
	for _, p := range s.Projects {
		if p.Key == k {
			return p
		}
	}
	return nil
}

func (s *Snapshot) ProjectByID(id string) *baseapi.Project {
	for _, p := range s.Projects {
		if p.Id == id {
			return p
		}
	}
	return nil
}

func (s *Snapshot) SupplyOf(batchKey uint64) *baseapi.BatchSupply {
	for _, p := range s.Supplies {
		if p.BatchKey == batchKey {
			return p
		}
	}
	return nil
}

func (s *Snapshot) Balance(addr []byte, batchKey uint64) *baseapi.BatchBalance {
	for _, p := range s.Balances {
		if p.BatchKey == batchKey && string(p.Address) == string(addr) {
			return p
		}
	}
	return nil
}

func (s *Snapshot) BasketByDenom(d string) *basketapi.Basket {
	for _, p := range s.Baskets {
		if p.BasketDenom == d {
			return p
		}
	}
	return nil
}

func (s *Snapshot) BasketByID(id uint64) *basketapi.Basket {
	for _, p := range s.Baskets {
		if p.Id == id {
			return p
		}
	}
	return nil
}

func (s *Snapshot) Order(id uint64) *marketapi.SellOrder {
	for _, p := range s.SellOrders {
		if p.Id == id {
			return p
		}
	}
	return nil
}

func (s *Snapshot) Market(id uint64) *marketapi.Market {
	for _, p := range s.Markets {
		if p.Id == id {
			return p
		}
	}
	return nil
}

func (s *Snapshot) CreditType(abbrev string) *baseapi.CreditType {
	for _, p := range s.CreditTypes {
		if p.Abbreviation == abbrev {
			return p
		}
	}
	return nil
}

// StateKey hashes every raw KV pair of the consensus stores plus block time
// and height. No abstraction: two states are merged only if every byte a
// handler can read is equal.
func (c *Chain) StateKey(ctx sdk.Context, extra []byte) [32]byte {
	h := sha256.New()
	var lb [8]byte
	put := func(b []byte) {
		binary.BigEndian.PutUint64(lb[:], uint64(len(b)))
		h.Write(lb[:])
		h.Write(b)
	}
	ms := ctx.MultiStore()
	for _, n := range StoreNames {
		put([]byte(n))
		it := ms.GetKVStore(c.Keys[n]).Iterator(nil, nil)
		for ; it.Valid(); it.Next() {
			put(it.Key())
			put(it.Value())
		}
		it.Close()
	}
	binary.BigEndian.PutUint64(lb[:], uint64(ctx.BlockTime().UnixNano()))
	h.Write(lb[:])
	binary.BigEndian.PutUint64(lb[:], uint64(ctx.BlockHeight()))
	h.Write(lb[:])
	var out [32]byte
	copy(out[:], h.Sum(nil))
	if len(extra) > 0 {
		return sha256.Sum256(append(append([]byte{}, out[:]...), extra...))
	}
	return out
}
