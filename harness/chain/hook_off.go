//go:build !verif

package chain

import (
	storetypes "github.com/cosmos/cosmos-sdk/store/types"

	"github.com/regen-network/regen-ledger/x/data/v3"
	"github.com/regen-network/regen-ledger/x/data/v3/server/hasher"
)

func newDataServerWithHasher(storetypes.StoreKey, data.AccountKeeper, data.BankKeeper, hasher.Hasher) DataServer {
	panic("hasher injection needs the verif build tag")
}
