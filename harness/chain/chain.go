// Package chain wires the real regen-ledger modules (ecocredit base/basket/
// marketplace, data) together with the real SDK auth and bank keepers over an
// IAVL multistore, mirroring app/app.go (which cannot be compiled in this
// sandbox). Every transition explored by the model checker is an execution of
// this composition: there is no abstract model.
package chain

import (
	"encoding/json"
	"fmt"
	vestingtypes "github.com/cosmos/cosmos-sdk/x/auth/vesting/types"
	"sync"
	"time"

	dbm "github.com/cometbft/cometbft-db"
	abci "github.com/cometbft/cometbft/abci/types"
	"github.com/cometbft/cometbft/libs/log"
	tmproto "github.com/cometbft/cometbft/proto/tendermint/types"

	"github.com/cosmos/cosmos-sdk/baseapp"
	"github.com/cosmos/cosmos-sdk/client"
	"github.com/cosmos/cosmos-sdk/codec"
	codectypes "github.com/cosmos/cosmos-sdk/codec/types"
	"github.com/cosmos/cosmos-sdk/orm/model/ormdb"
	"github.com/cosmos/cosmos-sdk/std"
	storetypes "github.com/cosmos/cosmos-sdk/store/types"
	sdk "github.com/cosmos/cosmos-sdk/types"
	"github.com/cosmos/cosmos-sdk/types/module"
	authkeeper "github.com/cosmos/cosmos-sdk/x/auth/keeper"
	authtx "github.com/cosmos/cosmos-sdk/x/auth/tx"
	authtypes "github.com/cosmos/cosmos-sdk/x/auth/types"
	bankkeeper "github.com/cosmos/cosmos-sdk/x/bank/keeper"
	banktypes "github.com/cosmos/cosmos-sdk/x/bank/types"
	govtypes "github.com/cosmos/cosmos-sdk/x/gov/types"
	minttypes "github.com/cosmos/cosmos-sdk/x/mint/types"
	paramstypes "github.com/cosmos/cosmos-sdk/x/params/types"

	dataapi "github.com/regen-network/regen-ledger/api/v2/regen/data/v1"
	basketapi "github.com/regen-network/regen-ledger/api/v2/regen/ecocredit/basket/v1"
	marketapi "github.com/regen-network/regen-ledger/api/v2/regen/ecocredit/marketplace/v1"
	baseapi "github.com/regen-network/regen-ledger/api/v2/regen/ecocredit/v1"
	"github.com/regen-network/regen-ledger/types/v2/ormstore"
	"github.com/regen-network/regen-ledger/x/data/v3"
	datamodule "github.com/regen-network/regen-ledger/x/data/v3/module"
	dataserver "github.com/regen-network/regen-ledger/x/data/v3/server"
	"github.com/regen-network/regen-ledger/x/data/v3/server/hasher"
	"github.com/regen-network/regen-ledger/x/ecocredit/v3"
	"github.com/regen-network/regen-ledger/x/ecocredit/v3/basket"
	"github.com/regen-network/regen-ledger/x/ecocredit/v3/marketplace"
	ecomodule "github.com/regen-network/regen-ledger/x/ecocredit/v3/module"
)

// Bech32 prefix of the regen chain.
const Bech32Prefix = "regen"

var cfgOnce, layoutOnce sync.Once

// InitSDKConfig sets the global bech32 prefix (as cmd/regen does).
func InitSDKConfig() {
	cfgOnce.Do(func() {
		cfg := sdk.GetConfig()
		cfg.SetBech32PrefixForAccount(Bech32Prefix, Bech32Prefix+"pub")
		cfg.SetBech32PrefixForValidator(Bech32Prefix+"valoper", Bech32Prefix+"valoperpub")
		cfg.SetBech32PrefixForConsensusNode(Bech32Prefix+"valcons", Bech32Prefix+"valconspub")
	})
}

// MaccPerms are the module account permissions of app/app.go restricted to the
// module accounts that exist in this composition.
func MaccPerms() map[string][]string {
	return map[string][]string{
		authtypes.FeeCollectorName: nil,
		minttypes.ModuleName:       {authtypes.Minter},
		govtypes.ModuleName:        {authtypes.Burner},
		ecocredit.ModuleName:       {authtypes.Burner},
		basket.BasketSubModuleName: {authtypes.Burner, authtypes.Minter},
		marketplace.FeePoolName:    {authtypes.Burner},
	}
}

// ModuleAccountNames in a fixed order.
var ModuleAccountNames = []string{
	authtypes.FeeCollectorName, minttypes.ModuleName, govtypes.ModuleName,
	ecocredit.ModuleName, basket.BasketSubModuleName, marketplace.FeePoolName,
}

// NamedInvariant is an invariant registered through Module.RegisterInvariants.
type NamedInvariant struct {
	Module, Route string
	Fn            sdk.Invariant
}

type invRegistry struct{ invs []NamedInvariant }

func (r *invRegistry) RegisterRoute(moduleName, route string, invar sdk.Invariant) {
	r.invs = append(r.invs, NamedInvariant{moduleName, route, invar})
}

// Options select variations of the composition.
type Options struct {
	// Hasher, when non-nil, is injected into the data server through the
	// verif-tagged hook (C16). nil => production hasher.NewHasher().
	Hasher hasher.Hasher
	// DB to build over (Engine C restarts reuse it). nil => fresh MemDB.
	DB dbm.DB
	// SkipLoad leaves LoadLatestVersion to the caller.
	ChainID string
}

// Chain is one instance of the composed application.
type Chain struct {
	Opts      Options
	DB        dbm.DB
	App       *baseapp.BaseApp
	Cdc       *codec.ProtoCodec
	IR        codectypes.InterfaceRegistry
	TxCfg     txConfig
	Keys      map[string]*storetypes.KVStoreKey
	TKey      *storetypes.TransientStoreKey
	AK        authkeeper.AccountKeeper
	BK        bankkeeper.BaseKeeper
	Eco       *ecomodule.Module
	DataMod   *datamodule.Module
	DataSrv   DataServer
	MM        *module.Manager
	Authority sdk.AccAddress

	BaseStore   baseapi.StateStore
	BasketStore basketapi.StateStore
	MarketStore marketapi.StateStore
	DataStore   dataapi.StateStore
	EcoDB       ormdb.ModuleDB
	DataDB      ormdb.ModuleDB

	Invariants []NamedInvariant
}

// DataServer is what the harness needs from the data module server.
type DataServer interface {
	data.MsgServer
	data.QueryServer
	InitGenesis(ctx sdk.Context, cdc codec.JSONCodec, data json.RawMessage) ([]abci.ValidatorUpdate, error)
	ExportGenesis(ctx sdk.Context, cdc codec.JSONCodec) (json.RawMessage, error)
}

type txConfig = client.TxConfig

// TxBuilder returns a new transaction builder.
func (c *Chain) TxBuilder() client.TxBuilder { return c.TxCfg.NewTxBuilder() }

// StoreNames are the KV stores that make up consensus state, in hash order.
var StoreNames = []string{authtypes.StoreKey, banktypes.StoreKey, ecocredit.ModuleName, data.ModuleName}

// New builds a chain instance. Stores are loaded (empty for a fresh DB).
func New(opts Options) *Chain {
	InitSDKConfig()
	c := &Chain{Opts: opts}
	if opts.DB == nil {
		opts.DB = dbm.NewMemDB()
	}
	c.DB = opts.DB
	if opts.ChainID == "" {
		opts.ChainID = "verif"
	}

	c.IR = codectypes.NewInterfaceRegistry()
	c.Cdc = codec.NewProtoCodec(c.IR)
	amino := codec.NewLegacyAmino()
	std.RegisterInterfaces(c.IR)
	authtypes.RegisterInterfaces(c.IR)
	banktypes.RegisterInterfaces(c.IR)
	vestingtypes.RegisterInterfaces(c.IR) // vesting account types (accounts with locked coins exist in seeds)
	txc := authtx.NewTxConfig(c.Cdc, authtx.DefaultSignModes)
	c.TxCfg = txc

	c.App = baseapp.NewBaseApp("verif", log.NewNopLogger(), c.DB, txc.TxDecoder(), baseapp.SetChainID(opts.ChainID))
	c.App.SetInterfaceRegistry(c.IR)

	c.Keys = map[string]*storetypes.KVStoreKey{}
	for _, n := range append([]string{paramstypes.StoreKey}, StoreNames...) {
		c.Keys[n] = sdk.NewKVStoreKey(n)
		c.App.MountStore(c.Keys[n], storetypes.StoreTypeIAVL)
	}
	c.TKey = sdk.NewTransientStoreKey(paramstypes.TStoreKey)
	c.App.MountStore(c.TKey, storetypes.StoreTypeTransient)

	c.Authority = authtypes.NewModuleAddress(govtypes.ModuleName)
	c.AK = authkeeper.NewAccountKeeper(c.Cdc, c.Keys[authtypes.StoreKey], authtypes.ProtoBaseAccount,
		MaccPerms(), Bech32Prefix, c.Authority.String())

	blocked := map[string]bool{}
	for _, n := range ModuleAccountNames {
		blocked[authtypes.NewModuleAddress(n).String()] = true
	}
	delete(blocked, c.Authority.String())
	c.BK = bankkeeper.NewBaseKeeper(c.Cdc, c.Keys[banktypes.StoreKey], c.AK, blocked, c.Authority.String())

	sub := paramstypes.NewSubspace(c.Cdc, amino, c.Keys[paramstypes.StoreKey], c.TKey, ecocredit.ModuleName)
	c.Eco = ecomodule.NewModule(c.Keys[ecocredit.ModuleName], c.Authority, c.AK, c.BK, sub, nil)
	c.Eco.RegisterInterfaces(c.IR)
	c.DataMod = datamodule.NewModule(c.Keys[data.ModuleName], c.AK, c.BK)
	c.DataMod.RegisterInterfaces(c.IR)

	cfg := module.NewConfigurator(c.Cdc, c.App.MsgServiceRouter(), c.App.GRPCQueryRouter())
	c.Eco.RegisterServices(cfg)
	// The data module builds its server inside RegisterServices with the
	// production hasher; for C16 the verif hook builds it with an injected one.
	c.DataSrv = newDataServer(c.Keys[data.ModuleName], c.AK, c.BK, opts.Hasher)
	data.RegisterMsgServer(cfg.MsgServer(), c.DataSrv)
	data.RegisterQueryServer(cfg.QueryServer(), c.DataSrv)

	c.MM = module.NewManager(c.Eco, c.DataMod)

	reg := &invRegistry{}
	c.Eco.RegisterInvariants(reg)
	c.DataMod.RegisterInvariants(reg)
	c.Invariants = reg.invs

	var err error
	c.EcoDB, err = ormstore.NewStoreKeyDB(&ecocredit.ModuleSchema, c.Keys[ecocredit.ModuleName], ormdb.ModuleDBOptions{})
	must(err)
	c.BaseStore, err = baseapi.NewStateStore(c.EcoDB)
	must(err)
	c.BasketStore, err = basketapi.NewStateStore(c.EcoDB)
	must(err)
	c.MarketStore, err = marketapi.NewStateStore(c.EcoDB)
	must(err)
	c.DataDB, err = ormstore.NewStoreKeyDB(&data.ModuleSchema, c.Keys[data.ModuleName], ormdb.ModuleDBOptions{})
	must(err)
	c.DataStore, err = dataapi.NewStateStore(c.DataDB)
	must(err)

	// ABCI entry points (used by Engine C; harmless for Engine A, which never
	// goes through InitChain/BeginBlock/DeliverTx).
	c.App.SetInitChainer(func(ctx sdk.Context, req abci.RequestInitChain) abci.ResponseInitChain {
		var g Genesis
		if len(req.AppStateBytes) > 0 {
			must(json.Unmarshal(req.AppStateBytes, &g))
		}
		c.InitGenesis(ctx, g)
		return abci.ResponseInitChain{}
	})
	c.App.SetBeginBlocker(func(ctx sdk.Context, req abci.RequestBeginBlock) abci.ResponseBeginBlock {
		c.Eco.BeginBlock(ctx, req)
		return abci.ResponseBeginBlock{Events: ctx.EventManager().ABCIEvents()}
	})
	// Minimal ante handler: a fresh finite gas meter per transaction (what the
	// SDK's SetUpContextDecorator does); signatures and fees are out of scope.
	c.App.SetAnteHandler(func(ctx sdk.Context, _ sdk.Tx, _ bool) (sdk.Context, error) {
		return ctx.WithGasMeter(storetypes.NewGasMeter(TxGasLimit)), nil
	})

	must(c.App.LoadLatestVersion())
	layoutOnce.Do(c.learnLayout)
	return c
}

func newDataServer(key storetypes.StoreKey, ak data.AccountKeeper, bk data.BankKeeper, h hasher.Hasher) DataServer {
	if h == nil {
		return dataserver.NewServer(key, ak, bk)
	}
	return newDataServerWithHasher(key, ak, bk, h)
}

func must(err error) {
	if err != nil {
		panic(err)
	}
}

// TxGasLimit is the gas limit given to every transaction on the ABCI path.
const TxGasLimit = 10_000_000

// EncodeTx builds an unsigned single-message transaction.
func (c *Chain) EncodeTx(msg sdk.Msg) ([]byte, error) {
	b := c.TxBuilder()
	if err := b.SetMsgs(msg); err != nil {
		return nil, err
	}
	return c.TxCfg.TxEncoder()(b.GetTx())
}

// T0 is the block time of every seed state: 2024-01-01T00:00:00Z.
var T0 = time.Date(2024, 1, 1, 0, 0, 0, 0, time.UTC)

// BaseContext returns a context writing straight to the (uncommitted) working
// set of the commit multistore. Seeds are built on it; exploration only ever
// branches from it with CacheContext.
func (c *Chain) BaseContext(t time.Time, height int64) sdk.Context {
	return c.App.NewUncachedContext(false, tmproto.Header{ChainID: "verif", Height: height, Time: t}).
		WithEventManager(sdk.NewEventManager())
}

// Genesis describes the genesis state given to InitGenesis.
type Genesis struct {
	Ecocredit json.RawMessage // nil => module default
	Data      json.RawMessage // nil => module default
	Balances  map[string]sdk.Coins
}

// InitGenesis runs auth/bank defaults, funds accounts, then the two modules'
// InitGenesis.
func (c *Chain) InitGenesis(ctx sdk.Context, g Genesis) {
	c.AK.SetParams(ctx, authtypes.DefaultParams())
	c.BK.SetParams(ctx, banktypes.DefaultParams())
	for _, n := range ModuleAccountNames {
		c.AK.GetModuleAccount(ctx, n) // creates it, as the first use in the real app does
	}
	eg := g.Ecocredit
	if eg == nil {
		eg = c.Eco.DefaultGenesis(c.Cdc)
	}
	dg := g.Data
	if dg == nil {
		dg = c.DataMod.DefaultGenesis(c.Cdc)
	}
	c.Eco.InitGenesis(ctx, c.Cdc, eg)
	_, err := c.DataSrv.InitGenesis(ctx, c.Cdc, dg)
	must(err)
	for _, a := range sortedKeys(g.Balances) {
		c.Fund(ctx, sdk.MustAccAddressFromBech32(a), g.Balances[a])
	}
}

// Fund mints coins through the mint module account and sends them to addr.
func (c *Chain) Fund(ctx sdk.Context, addr sdk.AccAddress, coins sdk.Coins) {
	if coins.IsZero() {
		return
	}
	must(c.BK.MintCoins(ctx, minttypes.ModuleName, coins))
	// plain SendCoins: genesis-style funding must also reach module accounts
	// (fee pool), which SendCoinsFromModuleToAccount refuses as blocked
	must(c.BK.SendCoins(ctx, authtypes.NewModuleAddress(minttypes.ModuleName), addr, coins))
}

// Result of delivering one event.
type Result struct {
	OK      bool
	Err     string // error text (or panic text) when !OK
	Panic   bool
	Stage   string // "decode", "validate", "handler"
	Resp    codec.ProtoMarshaler
	Events  []abci.Event
	GasUsed uint64
	Msg     sdk.Msg // the message as decoded (a pristine copy of what the handler was given)
}

// RoundTrip encodes and decodes a message through Any, the way a tx decoder
// hands it to baseapp.
func (c *Chain) RoundTrip(msg sdk.Msg) (sdk.Msg, error) {
	any, err := codectypes.NewAnyWithValue(msg)
	if err != nil {
		return nil, err
	}
	bz, err := c.Cdc.Marshal(any)
	if err != nil {
		return nil, err
	}
	var any2 codectypes.Any
	if err := c.Cdc.Unmarshal(bz, &any2); err != nil {
		return nil, err
	}
	var out sdk.Msg
	if err := c.IR.UnpackAny(&any2, &out); err != nil {
		return nil, err
	}
	return out, nil
}

// Deliver executes one message the way baseapp.runTx/runMsgs does for a
// single-message transaction, on a cache branch of ctx. The branch is
// returned; the caller decides whether to Write() it (Engine A successors read
// the branch without writing). On failure the returned context is ctx itself.
func (c *Chain) Deliver(ctx sdk.Context, msg sdk.Msg) (post sdk.Context, write func(), res Result) {
	post = ctx
	write = func() {}
	m2, err := c.RoundTrip(msg)
	if err != nil {
		res = Result{Err: err.Error(), Stage: "decode", Msg: msg}
		return
	}
	// the monitors judge against the REQUEST: a second, pristine decode, because a handler may modify
	// the message object it is given (normalising a field in place, for instance)
	if m3, err := c.RoundTrip(msg); err == nil {
		res.Msg = m3
	} else {
		res.Msg = m2
	}
	// baseapp.runTx calls ValidateBasic under its recover(): a panic is a failed tx
	var verr error
	func() {
		defer func() {
			if r := recover(); r != nil {
				res.Panic = true
				verr = fmt.Errorf("panic: %v", r)
			}
		}()
		verr = m2.ValidateBasic()
	}()
	if verr != nil {
		res.Err, res.Stage = verr.Error(), "validate"
		return
	}
	h := c.App.MsgServiceRouter().Handler(m2)
	if h == nil {
		res.Err, res.Stage = "no handler", "decode"
		return
	}
	branch, w := ctx.CacheContext()
	branch = branch.WithEventManager(sdk.NewEventManager()).WithGasMeter(storetypes.NewInfiniteGasMeter())
	func() {
		defer func() {
			if r := recover(); r != nil {
				res.Panic = true
				res.Err = fmt.Sprintf("panic: %v", r)
				res.Stage = "handler"
			}
		}()
		r, err := h(branch, m2)
		if err != nil {
			res.Err, res.Stage = err.Error(), "handler"
			return
		}
		res.OK = true
		res.Events = r.Events
		if len(r.MsgResponses) == 1 {
			var pm codec.ProtoMarshaler
			if v, ok := r.MsgResponses[0].GetCachedValue().(codec.ProtoMarshaler); ok {
				pm = v
			}
			res.Resp = pm
		}
	}()
	res.GasUsed = branch.GasMeter().GasConsumed()
	if res.OK {
		post, write = branch, w
	}
	return
}

// BeginBlock advances time/height on a cache branch of ctx and runs the module
// manager's BeginBlock under recover. A panic or error is reported in Result.
func (c *Chain) BeginBlock(ctx sdk.Context, dt time.Duration) (post sdk.Context, write func(), res Result) {
	hdr := ctx.BlockHeader()
	hdr.Height++
	hdr.Time = hdr.Time.Add(dt)
	branch, w := ctx.CacheContext()
	branch = branch.WithBlockHeader(hdr).WithEventManager(sdk.NewEventManager()).WithGasMeter(storetypes.NewInfiniteGasMeter())
	func() {
		defer func() {
			if r := recover(); r != nil {
				res.Panic = true
				res.Err = fmt.Sprintf("panic: %v", r)
				res.Stage = "beginblock"
			}
		}()
		c.Eco.BeginBlock(branch, abci.RequestBeginBlock{Header: hdr})
		res.OK = true
		res.Events = branch.EventManager().ABCIEvents()
	}()
	// Time always advances, even if BeginBlock failed (the failure itself is
	// what C12 reports); state writes of a failed BeginBlock are dropped.
	if res.OK {
		return branch, w, res
	}
	b2, w2 := ctx.CacheContext()
	return b2.WithBlockHeader(hdr), w2, res
}

// RunInvariants evaluates every registered invariant route.
func (c *Chain) RunInvariants(ctx sdk.Context) (msgs []string, broken []bool) {
	for _, inv := range c.Invariants {
		var m string
		var b bool
		func() {
			defer func() {
				if r := recover(); r != nil {
					m, b = fmt.Sprintf("%s/%s panicked: %v", inv.Module, inv.Route, r), true
				}
			}()
			m, b = inv.Fn(ctx)
		}()
		msgs = append(msgs, m)
		broken = append(broken, b)
	}
	return
}

func sortedKeys[V any](m map[string]V) []string {
	ks := make([]string, 0, len(m))
	for k := range m {
		ks = append(ks, k)
	}
	sortStrings(ks)
	return ks
}
