// Package ref holds reference models written without any regen-ledger helper:
// exact decimal parsing into big.Rat and small arithmetic utilities.
package ref

import (
	"fmt"
	"math/big"
	"strings"
)

// Dec is an exactly parsed decimal string.
type Dec struct {
	R      *big.Rat
	Places int  // number of digits after the decimal point in plain notation (after applying the exponent, without trimming zeros)
	Neg    bool // literal sign was '-'
}

// Parse parses [+-]?digits?[.digits?]([eE][+-]?digits)? exactly. At least one
// digit must be present in the coefficient.
func Parse(s string) (Dec, error) {
	orig := s
	if s == "" {
		return Dec{}, fmt.Errorf("empty decimal")
	}
	neg := false
	if s[0] == '+' || s[0] == '-' {
		neg = s[0] == '-'
		s = s[1:]
	}
	exp := 0
	if i := strings.IndexAny(s, "eE"); i >= 0 {
		es := s[i+1:]
		s = s[:i]
		if es == "" {
			return Dec{}, fmt.Errorf("bad exponent in %q", orig)
		}
		eneg := false
		if es[0] == '+' || es[0] == '-' {
			eneg = es[0] == '-'
			es = es[1:]
		}
		if es == "" || len(es) > 6 {
			return Dec{}, fmt.Errorf("bad exponent in %q", orig)
		}
		for _, c := range es {
			if c < '0' || c > '9' {
				return Dec{}, fmt.Errorf("bad exponent in %q", orig)
			}
			exp = exp*10 + int(c-'0')
		}
		if eneg {
			exp = -exp
		}
	}
	intPart, frac := s, ""
	if i := strings.IndexByte(s, '.'); i >= 0 {
		intPart, frac = s[:i], s[i+1:]
	}
	if intPart == "" && frac == "" {
		return Dec{}, fmt.Errorf("no digits in %q", orig)
	}
	for _, c := range intPart + frac {
		if c < '0' || c > '9' {
			return Dec{}, fmt.Errorf("bad digit in %q", orig)
		}
	}
	coef := new(big.Int)
	if _, ok := coef.SetString(intPart+frac+"", 10); !ok {
		if intPart+frac == "" {
			return Dec{}, fmt.Errorf("no digits in %q", orig)
		}
		return Dec{}, fmt.Errorf("bad coefficient in %q", orig)
	}
	scale := exp - len(frac) // value = coef * 10^scale
	r := new(big.Rat).SetInt(coef)
	if scale > 0 {
		r.Mul(r, new(big.Rat).SetInt(Pow10(scale)))
	} else if scale < 0 {
		r.Quo(r, new(big.Rat).SetInt(Pow10(-scale)))
	}
	if neg {
		r.Neg(r)
	}
	places := 0
	if scale < 0 {
		places = -scale
	}
	return Dec{R: r, Places: places, Neg: neg}, nil
}

// MustRat parses or panics (for values the harness wrote itself).
func MustRat(s string) *big.Rat {
	d, err := Parse(s)
	if err != nil {
		panic(err)
	}
	return d.R
}

// Pow10 returns 10^n.
func Pow10(n int) *big.Int {
	return new(big.Int).Exp(big.NewInt(10), big.NewInt(int64(n)), nil)
}

// Zero returns a new zero rational.
func Zero() *big.Rat { return new(big.Rat) }

// Add returns a+b as a new value.
func Add(a, b *big.Rat) *big.Rat { return new(big.Rat).Add(a, b) }

// Sub returns a-b as a new value.
func Sub(a, b *big.Rat) *big.Rat { return new(big.Rat).Sub(a, b) }

// Mul returns a*b as a new value.
func Mul(a, b *big.Rat) *big.Rat { return new(big.Rat).Mul(a, b) }

// FloorInt returns floor(r) for r >= 0 (truncation toward zero in general).
func TruncInt(r *big.Rat) *big.Int {
	q := new(big.Int).Quo(r.Num(), r.Denom()) // Quo truncates toward zero
	return q
}

// RatOfInt converts.
func RatOfInt(i *big.Int) *big.Rat { return new(big.Rat).SetInt(i) }

// MinPlaces is the minimal number of decimal places needed to write r in
// plain notation, or -1 if r is not a finite decimal.
func MinPlaces(r *big.Rat) int {
	d := new(big.Int).Set(r.Denom())
	two, five, zero := big.NewInt(2), big.NewInt(5), big.NewInt(0)
	n2, n5 := 0, 0
	m := new(big.Int)
	for {
		q, rem := new(big.Int).QuoRem(d, two, m)
		if rem.Cmp(zero) != 0 {
			break
		}
		d = q
		n2++
	}
	for {
		q, rem := new(big.Int).QuoRem(d, five, new(big.Int))
		if rem.Cmp(zero) != 0 {
			break
		}
		d = q
		n5++
	}
	if d.Cmp(big.NewInt(1)) != 0 {
		return -1
	}
	if n2 > n5 {
		return n2
	}
	return n5
}

// SigDigits is the number of significant decimal digits of a finite decimal r
// (0 for zero), or -1 if r is not a finite decimal.
func SigDigits(r *big.Rat) int {
	p := MinPlaces(r)
	if p < 0 {
		return -1
	}
	n := new(big.Int).Mul(r.Num(), Pow10(p))
	n.Quo(n, r.Denom())
	n.Abs(n)
	if n.Sign() == 0 {
		return 0
	}
	s := n.String()
	s = strings.TrimRight(s, "0")
	return len(s)
}
