// Package runner turns exploration results into the interface the task
// demands: evidence files, replay files, VIOLATION / KNOWN-FINDING lines and
// exit codes.
package runner

import (
	"bufio"
	"crypto/sha256"
	"encoding/hex"
	"encoding/json"
	"fmt"
	"os"
	"path/filepath"
	"sort"
	"strconv"
	"strings"
	"time"

	"verif/harness/chain"
	"verif/harness/explore"
)

// Root is /verif (overridable for tests).
var Root = func() string {
	if r := os.Getenv("VERIF_ROOT"); r != "" {
		return r
	}
	return "/verif"
}()

// Finding is a violation ready for reporting (engine independent).
type Finding struct {
	Kind   string          `json:"kind"`
	Detail string          `json:"detail"`
	Engine string          `json:"engine"`
	Where  string          `json:"where"` // scenario/seed or enumerator family
	Replay json.RawMessage `json:"replay"`
}

// Outcome of a check.
type Outcome struct {
	ID          string
	Tier        string
	Level       string
	Coverage    map[string]interface{}
	Assumptions []string
	Findings    []Finding
	Start       time.Time
}

// New starts an outcome.
func New(id, tier, level string) *Outcome {
	return &Outcome{ID: id, Tier: tier, Level: level, Coverage: map[string]interface{}{}, Start: time.Now()}
}

// Seed returns VERIF_SEED (0 if unset). It is only recorded, and used to
// rotate work order; nothing is sampled in a deciding step.
func Seed() int {
	n, _ := strconv.Atoi(os.Getenv("VERIF_SEED"))
	return n
}

// Strict reports VERIF_STRICT=1.
func Strict() bool { return os.Getenv("VERIF_STRICT") == "1" }

// Known is an entry of known_findings.txt.
type Known struct {
	Fixed    bool
	Property string
	Kind     string
	Text     string
}

// LoadKnown parses /verif/known_findings.txt.
func LoadKnown() []Known {
	f, err := os.Open(filepath.Join(Root, "known_findings.txt"))
	if err != nil {
		return nil
	}
	defer f.Close()
	var out []Known
	sc := bufio.NewScanner(f)
	for sc.Scan() {
		line := strings.TrimSpace(sc.Text())
		if line == "" || strings.HasPrefix(line, "#") {
			continue
		}
		var k Known
		switch {
		case strings.HasPrefix(line, "known:"):
			line = strings.TrimSpace(strings.TrimPrefix(line, "known:"))
		case strings.HasPrefix(line, "fixed:"):
			k.Fixed = true
			line = strings.TrimSpace(strings.TrimPrefix(line, "fixed:"))
		default:
			continue
		}
		fields := strings.Fields(line)
		rest := []string{}
		for _, f := range fields {
			switch {
			case strings.HasPrefix(f, "property=") && k.Property == "":
				k.Property = strings.TrimPrefix(f, "property=")
			case strings.HasPrefix(f, "kind=") && k.Kind == "":
				k.Kind = strings.TrimPrefix(f, "kind=")
			default:
				rest = append(rest, f)
			}
		}
		k.Text = strings.Join(rest, " ")
		out = append(out, k)
	}
	return out
}

// AddExplore merges Engine A results into the outcome.
func (o *Outcome) AddExplore(c *chain.Chain, stats []*explore.Stats, found []explore.Found) {
	var states, trans, reval int64
	exhaustive := true
	var samples []json.RawMessage
	var vac, div []string
	nontriv := int64(0)
	for _, s := range stats {
		states += s.States
		trans += s.Transitions
		reval += s.Revalidated
		nontriv += s.Succeeded
		if !s.Exhaustive {
			exhaustive = false // a depth or time cap was hit; vacuity warnings are listed separately
		}
		for _, v := range s.Vacuity {
			vac = append(vac, s.Scenario+"/"+s.Seed+": "+v)
		}
		for _, d := range s.Divergences {
			div = append(div, s.Scenario+"/"+s.Seed+": "+d)
		}
		samples = append(samples, s.Samples...)
	}
	if len(samples) == 0 {
		samples = append(samples, json.RawMessage(`"seed state only"`))
	}
	if len(samples) > 6 {
		samples = samples[:6]
	}
	o.Coverage["states"] = states
	o.Coverage["transitions"] = trans
	o.Coverage["traces_validated_against_impl"] = reval
	o.Coverage["traces_validated_note"] = "every transition is an execution of the implementation (no abstract model); this counts paths re-executed from scratch on a fresh application instance and compared by state hash, plus the fast snapshot reader cross-checked against ORM list scans"
	o.Coverage["samples"] = samples
	o.Coverage["exhaustive"] = exhaustive
	o.Coverage["evaluations"] = trans
	o.Coverage["distinct_nontrivial"] = states
	o.Coverage["successful_transitions"] = nontriv
	o.Coverage["rule"] = "breadth-first over all event sequences up to the stated depth per scenario and seed; a state is distinct iff the SHA-256 of all raw KV pairs of the auth, bank, ecocredit and data stores + block time + height + monitor ghost differs; distinct_nontrivial = number of distinct states reached"
	o.Coverage["scenarios"] = stats
	o.Coverage["vacuity_warnings"] = vac
	o.Coverage["replay_divergences"] = div
	for _, f := range found {
		rp := map[string]interface{}{
			"scenario": f.Scenario, "seed": f.Seed, "monitor": f.Monitor,
			"path_text": explore.PathString(f.Path), "path": explore.PathJSON(c, f.Path),
		}
		bz, _ := json.Marshal(rp)
		o.Findings = append(o.Findings, Finding{Kind: f.Kind, Detail: f.Detail, Engine: "A", Where: f.Scenario + "/" + f.Seed, Replay: bz})
	}
}

// Finish writes evidence, prints the verdict lines and returns the exit code.
func (o *Outcome) Finish() int {
	known := LoadKnown()
	seenKnown := map[string]bool{}
	exit := 0
	nviol := 0
	sort.SliceStable(o.Findings, func(i, j int) bool { return o.Findings[i].Kind < o.Findings[j].Kind })
	printed := map[string]bool{}
	var knownHit []string
	for _, f := range o.Findings {
		if printed[f.Kind] {
			continue
		}
		printed[f.Kind] = true
		matched := false
		for _, k := range known {
			if !k.Fixed && k.Property == o.ID && k.Kind == f.Kind {
				matched = true
				if !seenKnown[k.Kind] {
					seenKnown[k.Kind] = true
					fmt.Printf("KNOWN-FINDING: property=%s %s\n", o.ID, k.Text)
					knownHit = append(knownHit, k.Kind)
				}
			}
		}
		if matched {
			continue
		}
		nviol++
		path := o.writeReplay(f)
		fmt.Printf("VIOLATION property=%s replay=%s\n", o.ID, path)
		fmt.Printf("  kind=%s\n  %s\n", f.Kind, f.Detail)
		exit = 1
	}
	var stale []string
	for _, k := range known {
		if !k.Fixed && k.Property == o.ID && !seenKnown[k.Kind] {
			stale = append(stale, k.Kind)
		}
	}
	o.Coverage["known_findings_observed"] = knownHit
	o.Coverage["known_findings_not_observed"] = stale
	if vw, ok := o.Coverage["vacuity_warnings"].([]string); ok && len(vw) > 0 {
		for _, v := range vw {
			fmt.Fprintln(os.Stderr, "vacuity warning:", v)
		}
		if Strict() && exit == 0 {
			exit = 2
		}
	}
	if dv, ok := o.Coverage["replay_divergences"].([]string); ok && len(dv) > 0 {
		for _, v := range dv {
			fmt.Fprintln(os.Stderr, "replay divergence:", v)
		}
		if Strict() && exit == 0 {
			exit = 2
		}
	}
	ev := map[string]interface{}{
		"property_id": o.ID,
		"tier":        o.Tier,
		"seed":        Seed(),
		"level":       o.Level,
		"coverage":    o.Coverage,
		"assumptions": o.Assumptions,
		"wall_s":      time.Since(o.Start).Seconds(),
		"violations":  nviol,
	}
	bz, err := json.MarshalIndent(ev, "", " ")
	if err != nil {
		fmt.Fprintln(os.Stderr, "evidence marshal:", err)
		return 2
	}
	dir := filepath.Join(Root, "evidence")
	_ = os.MkdirAll(dir, 0o755)
	tmp := filepath.Join(dir, fmt.Sprintf(".%s.%d.tmp", o.ID, os.Getpid()))
	if err := os.WriteFile(tmp, bz, 0o644); err != nil {
		fmt.Fprintln(os.Stderr, "evidence write:", err)
		return 2
	}
	if err := os.Rename(tmp, filepath.Join(dir, o.ID+".json")); err != nil {
		fmt.Fprintln(os.Stderr, "evidence rename:", err)
		return 2
	}
	fmt.Printf("%s %s: exit=%d violations=%d known=%d wall=%.1fs evidence=%s\n", o.ID, o.Tier, exit, nviol, len(knownHit), time.Since(o.Start).Seconds(), filepath.Join(dir, o.ID+".json"))
	return exit
}

func (o *Outcome) writeReplay(f Finding) string {
	h := sha256.Sum256([]byte(f.Kind))
	dir := filepath.Join(Root, "replays")
	_ = os.MkdirAll(dir, 0o755)
	p := filepath.Join(dir, fmt.Sprintf("%s-%s.json", o.ID, hex.EncodeToString(h[:6])))
	doc := map[string]interface{}{"property_id": o.ID, "kind": f.Kind, "detail": f.Detail, "engine": f.Engine, "where": f.Where, "replay": f.Replay, "tier": o.Tier}
	bz, _ := json.MarshalIndent(doc, "", " ")
	_ = os.WriteFile(p, bz, 0o644)
	return p
}
