package pure

import (
	"crypto/sha256"
	"math/big"
)

// Input builder only (never used as an oracle): base58check as used by
// Bitcoin addresses, written here from the format definition so that synthetic
// IRIs can be produced without calling the implementation and without adding a
// direct dependency to the harness module.

const c15B58Alphabet = "123456789ABCDEFGHJKLMNPQRSTUVWXYZabcdefghijkmnopqrstuvwxyz"

func c15B58Encode(b []byte) string {
	x := new(big.Int).SetBytes(b)
	radix := big.NewInt(58)
	mod := new(big.Int)
	var out []byte
	for x.Sign() > 0 {
		x.DivMod(x, radix, mod)
		out = append(out, c15B58Alphabet[mod.Int64()])
	}
	for _, c := range b {
		if c != 0 {
			break
		}
		out = append(out, c15B58Alphabet[0])
	}
	for i, j := 0, len(out)-1; i < j; i, j = i+1, j-1 {
		out[i], out[j] = out[j], out[i]
	}
	return string(out)
}

// c15B58Check encodes version || payload || first 4 bytes of sha256(sha256(version || payload)).
func c15B58Check(version byte, payload []byte) string {
	b := make([]byte, 0, len(payload)+5)
	b = append(b, version)
	b = append(b, payload...)
	h := sha256.Sum256(b)
	h2 := sha256.Sum256(h[:])
	b = append(b, h2[:4]...)
	return c15B58Encode(b)
}
