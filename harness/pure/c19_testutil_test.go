package pure

import (
	"math/big"
	"strings"

	rmath "github.com/regen-network/regen-ledger/types/v2/math"
)

type c19DecT = rmath.Dec

func c19MustDec(s string) rmath.Dec {
	d, err := rmath.NewDecFromString(s)
	if err != nil {
		panic(err)
	}
	return d
}

func c19MustRatOf(d rmath.Dec) *big.Rat {
	r, ok := c19RatOf(&d)
	if !ok {
		panic("not finite")
	}
	return r
}

func c19Repeat(s string, n int) string { return strings.Repeat(s, n) }
