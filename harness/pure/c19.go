package pure

import (
	"encoding/json"
	"fmt"
	"math/big"
	"os"
	"runtime"
	"sort"
	"strings"
	"sync"

	rmath "github.com/regen-network/regen-ledger/types/v2/math"

	"verif/harness/ref"
	"verif/harness/runner"
)

// ---------------------------------------------------------------------------
// family D: decimal literals

const (
	c19MustAccept = 1  // canonical spelling of a decimal: must parse to the stated value
	c19Spelling   = 0  // unusual spelling: if accepted the value must be right; rejection is only recorded
	c19MustReject = -1 // not a decimal string
	c19Recorded   = 2  // behaviour recorded only (the empty string)
)

type c19Lit struct {
	S      string
	R      *big.Rat // value the literal denotes (nil for must-reject)
	Fam    string   // sci | plain | spelling | reject | empty
	Mode   int
	Places int // decimal places of the literal as written (after applying the exponent)
}

func c19Coefficients(tier string) []string {
	z := func(n int) string { return strings.Repeat("0", n) }
	cs := []string{"0", "1", "5", "9", "10", "15", "25", "99", "123456789",
		"1" + z(33),             // 10^33 (34 digits)
		strings.Repeat("9", 34), // 10^34-1
		"1" + z(34),             // 10^34 (35 digits)
		"1" + z(33) + "1",       // 10^34+1
		"1234567890123456789012345678901234567891", // 40 digits
		// machine-word boundaries: 2^32-1, 2^32, 2^63-1, 2^63, 2^64-1, 2^64
		"4294967295", "4294967296", "9223372036854775807", "9223372036854775808", "18446744073709551615", "18446744073709551616",
	}
	if tier == "thorough" {
		cs = append(cs, "2", "3", "7", "11", "101", "999999", "1"+z(6),
			"1"+z(16)+"1",                         // 10^17+1
			strings.Repeat("9", 20),               // 10^20-1
			"123456789012345678901234567890123",   // 33 digits
			"1234567890123456789012345678901234",  // 34 digits
			"12345678901234567890123456789012345", // 35 digits
			strings.Repeat("3", 34),
			"6666666666666666666666666666666667",
			"9999999999999999999999999999999995", // 34 digits, rounding edge
		)
	}
	return cs
}

func c19Exponents(tier string) []int {
	es := []int{-30, -7, -6, -1, 0, 1, 6, 34, 40}
	if tier == "thorough" {
		es = append(es, -34, -20, -12, -3, 2, 3, 12, 20, 33)
	}
	sort.Ints(es)
	return es
}

// c19Plain writes sign*coef*10^exp without an exponent.
func c19Plain(neg bool, coef string, exp int) string {
	var s string
	switch {
	case exp >= 0:
		if coef == "0" {
			s = "0"
		} else {
			s = coef + strings.Repeat("0", exp)
		}
	case len(coef) > -exp:
		s = coef[:len(coef)+exp] + "." + coef[len(coef)+exp:]
	default:
		s = "0." + strings.Repeat("0", -exp-len(coef)) + coef
	}
	if neg {
		s = "-" + s
	}
	return s
}

// c19Literals builds family D, simplest (shortest) literal first.
func c19Literals(tier string) []c19Lit {
	var out []c19Lit
	seen := map[string]bool{}
	put := func(l c19Lit) {
		if seen[l.S] {
			return
		}
		seen[l.S] = true
		if l.R != nil {
			// the generator's value and the reference parser must agree: this
			// guards the harness, not the implementation.
			p, err := ref.Parse(l.S)
			if err != nil || p.R.Cmp(l.R) != 0 {
				panic(fmt.Sprintf("c19 harness: literal %q: generator value %s, reference parser %v %v", l.S, l.R, p.R, err))
			}
			l.Places = p.Places
		}
		out = append(out, l)
	}
	for _, coef := range c19Coefficients(tier) {
		ci, _ := new(big.Int).SetString(coef, 10)
		for _, exp := range c19Exponents(tier) {
			for _, neg := range []bool{false, true} {
				r := new(big.Rat).SetInt(ci)
				if exp >= 0 {
					r.Mul(r, new(big.Rat).SetInt(c19Pow10(exp)))
				} else {
					r.Quo(r, new(big.Rat).SetInt(c19Pow10(-exp)))
				}
				sign := ""
				if neg {
					r.Neg(r)
					sign = "-"
				}
				put(c19Lit{S: fmt.Sprintf("%s%se%d", sign, coef, exp), R: r, Fam: "sci", Mode: c19MustAccept})
				put(c19Lit{S: c19Plain(neg, coef, exp), R: r, Fam: "plain", Mode: c19MustAccept})
			}
		}
	}
	rat := func(a, b int64) *big.Rat { return big.NewRat(a, b) }
	for _, sp := range []struct {
		s string
		r *big.Rat
	}{
		{"-0", rat(0, 1)}, {"0e5", rat(0, 1)}, {"-0e-5", rat(0, 1)}, {"0.000", rat(0, 1)}, {".5", rat(1, 2)}, {"5.", rat(5, 1)}, {"+1", rat(1, 1)},
		{"1E+3", rat(1000, 1)}, {"1e-3", rat(1, 1000)}, {"007", rat(7, 1)}, {"1.50", rat(3, 2)}, {"-1.5E1", rat(-15, 1)},
		{"12.5e-1", rat(5, 4)}, {"+.5e1", rat(5, 1)}, {"0.1e1", rat(1, 1)},
	} {
		put(c19Lit{S: sp.s, R: sp.r, Fam: "spelling", Mode: c19Spelling})
	}
	for _, s := range []string{"NaN", "Inf", "-Inf", "1e", "--1", "1.2.3", "abc", "1 ", "nan", "sNaN", "Infinity", "-infinity", "+inf", "NaN123",
		" 1", "1,5", "e5", ".", "-", "+", "1e5.5", "0x10", "1_000", "+-1", "-+1", "1e+", "1ee1", "١"} {
		put(c19Lit{S: s, Fam: "reject", Mode: c19MustReject})
	}
	put(c19Lit{S: "", Fam: "empty", Mode: c19Recorded})
	// every string over a small alphabet up to a length bound: the reference grammar decides which are
	// decimal numerals (and their value); the rest must be rejected. Only judged alone (family "enum" is
	// not part of the pair product).
	maxLen := 5
	if tier == "thorough" {
		maxLen = 6
	}
	sigma := []byte("015.-+e")
	var rec func(cur []byte)
	rec = func(cur []byte) {
		if len(cur) > 0 {
			str := string(cur)
			if p, err := ref.Parse(str); err == nil {
				put(c19Lit{S: str, R: p.R, Fam: "enum", Mode: c19Spelling})
			} else {
				put(c19Lit{S: str, Fam: "enum", Mode: c19MustReject})
			}
		}
		if len(cur) == maxLen {
			return
		}
		for _, ch := range sigma {
			rec(append(cur, ch))
		}
	}
	rec(nil)
	sort.SliceStable(out, func(i, j int) bool {
		if len(out[i].S) != len(out[j].S) {
			return len(out[i].S) < len(out[j].S)
		}
		return out[i].S < out[j].S
	})
	return out
}

// ---------------------------------------------------------------------------
// checks on single literals

type c19LitStats struct {
	Literals, Accepted, Rejected     int
	SpellingsRejected                []string
	EmptyString                      string
	SdkIntTrimSkipped                int
	NumDecimalPlacesDiffersFromWrite int // informational
	ReduceChangedValue               int // informational
	CtorEvaluations                  int
	Evaluations                      int64
}

func c19CheckLiterals(lits []c19Lit, col *c19Collector) c19LitStats {
	var st c19LitStats
	st.Literals = len(lits)
	for idx, l := range lits {
		l := l
		order := fmt.Sprintf("0|%012d", idx)
		report := func(kind, format string, a ...interface{}) {
			col.add(kind, "literals/"+l.Fam, order, func() (string, map[string]interface{}) {
				return fmt.Sprintf("literal %q: ", l.S) + fmt.Sprintf(format, a...), map[string]interface{}{"literal": l.S, "family": l.Fam}
			})
		}
		st.Evaluations++
		var d rmath.Dec
		var err error
		pmsg := c19Catch(func() { d, err = rmath.NewDecFromString(l.S) })
		if pmsg != "" {
			report("C19/NewDecFromString/panic", "panic: %s", pmsg)
			continue
		}
		switch l.Mode {
		case c19MustReject:
			if err == nil {
				report("C19/parse/accepted-non-decimal", "accepted as %s (form %d)", d.String(), c19View(&d).Form)
			} else {
				st.Rejected++
			}
			c19CheckCtors(l, false, col, order, &st)
			continue
		case c19Recorded:
			if err != nil {
				st.EmptyString = "rejected: " + err.Error()
			} else {
				st.EmptyString = "accepted as " + d.String()
			}
			continue
		case c19MustAccept:
			if err != nil {
				report("C19/parse/rejected-decimal-string", "rejected: %v", err)
				c19CheckCtors(l, false, col, order, &st)
				continue
			}
		case c19Spelling:
			if err != nil {
				st.Rejected++
				st.SpellingsRejected = append(st.SpellingsRejected, l.S)
				c19CheckCtors(l, false, col, order, &st)
				continue
			}
		}
		st.Accepted++
		snap := c19TakeSnap(&d)
		mut := func(after string) {
			if diff, _ := snap.check(&d); diff != "" {
				report("C19/"+after+"/operand-mutated", "%s modified its receiver: %s", after, diff)
				d, _ = rmath.NewDecFromString(l.S)
				snap = c19TakeSnap(&d)
			}
		}
		// value
		got, finite := c19RatOf(&d)
		if !finite {
			report("C19/parse/non-finite-accepted", "accepted with non-finite form %d", c19View(&d).Form)
			continue
		}
		if got.Cmp(l.R) != 0 {
			report("C19/parse/wrong-value", "parsed as %s, the literal denotes %s", c19RatText(got), c19RatText(l.R))
		}
		// rendering
		s := d.String()
		mut("String")
		if strings.ContainsAny(s, "eE") {
			report("C19/render-scientific-notation", "renders as %q", s)
		}
		if p, perr := ref.Parse(s); perr != nil {
			report("C19/render-not-a-decimal-string", "renders as %q: %v", s, perr)
		} else if p.R.Cmp(l.R) != 0 {
			report("C19/render-reparse-differs", "renders as %q which is %s, the literal denotes %s", s, c19RatText(p.R), c19RatText(l.R))
		}
		if d2, e2 := rmath.NewDecFromString(s); e2 != nil {
			report("C19/render-rejected-by-parser", "renders as %q which NewDecFromString rejects: %v", s, e2)
		} else if r2, ok := c19RatOf(&d2); !ok || r2.Cmp(l.R) != 0 {
			report("C19/render-reparse-differs", "renders as %q which NewDecFromString reads as %s", s, d2.String())
		} else if d.Cmp(d2) != 0 || !d.Equal(d2) {
			report("C19/Cmp/wrong-order", "Cmp/Equal of the value and its re-parsed rendering %q: %d %v", s, d.Cmp(d2), d.Equal(d2))
		}
		mut("Cmp")
		// sign predicates (negative zero is zero)
		if d.IsZero() != (l.R.Sign() == 0) {
			report("C19/sign/IsZero-wrong", "IsZero=%v for value %s", d.IsZero(), c19RatText(l.R))
		}
		if d.IsNegative() != (l.R.Sign() < 0) {
			report("C19/sign/IsNegative-wrong", "IsNegative=%v for value %s", d.IsNegative(), c19RatText(l.R))
		}
		if d.IsPositive() != (l.R.Sign() > 0) {
			report("C19/sign/IsPositive-wrong", "IsPositive=%v for value %s", d.IsPositive(), c19RatText(l.R))
		}
		if !d.IsFinite() {
			report("C19/parse/non-finite-accepted", "IsFinite=false")
		}
		mut("IsZero/IsNegative/IsPositive")
		// informational only: the statement does not mention NumDecimalPlaces
		if int(d.NumDecimalPlaces()) != l.Places {
			st.NumDecimalPlacesDiffersFromWrite++
		}
		mut("NumDecimalPlaces")
		// BigInt: exact integer iff integral
		var bi *big.Int
		var berr error
		if pm := c19Catch(func() { bi, berr = d.BigInt() }); pm != "" {
			report("C19/BigInt/panic", "panic: %s", pm)
		} else if l.R.IsInt() {
			if berr != nil {
				report("C19/BigInt/error-for-integer", "integral value %s: %v", c19RatText(l.R), berr)
			} else if bi.Cmp(l.R.Num()) != 0 {
				report("C19/BigInt/wrong-integer", "got %s for %s", bi, c19RatText(l.R))
			}
		} else if berr == nil {
			report("C19/BigInt/non-integral-without-error", "got %s for the non-integral value %s", bi, c19RatText(l.R))
		}
		c19ScribbleInt(bi)
		mut("BigInt")
		// SdkIntTrim: truncation toward zero
		if c19FitsSdkInt(l.R) {
			st.Evaluations++
			var ti *big.Int
			if pm := c19Catch(func() { si := d.SdkIntTrim(); ti = new(big.Int).Set(si.BigIntMut()); c19ScribbleInt(si.BigIntMut()) }); pm != "" {
				report("C19/SdkIntTrim/panic", "panic for |value| < 2^255: %s", pm)
			} else if want := c19Trunc(l.R); ti.Cmp(want) != 0 {
				report("C19/SdkIntTrim/not-truncation-toward-zero", "got %s, truncation toward zero of %s is %s", ti, c19RatText(l.R), want)
			}
		} else {
			st.SdkIntTrimSkipped++
		}
		mut("SdkIntTrim")
		// Reduce: informational value check, but it must not touch its receiver
		if pm := c19Catch(func() {
			red, _ := d.Reduce()
			if rr, ok := c19RatOf(&red); !ok || rr.Cmp(l.R) != 0 {
				st.ReduceChangedValue++
			}
		}); pm != "" {
			report("C19/Reduce/panic", "panic: %s", pm)
		}
		mut("Reduce")
		_, _ = d.Int64()
		mut("Int64")
		st.Evaluations += 12
		c19CheckCtors(l, true, col, order, &st)
	}
	return st
}

// c19CheckCtors checks the sign- and scale-restricted constructors for
// consistency with the literal's exact value. For the Fixed variants only
// acceptance is judged by value (an accepted value must be representable with
// at most maxNum places); a rejection is only flagged if the literal as
// written parses, has the right sign and has at most maxNum places.
func c19CheckCtors(l c19Lit, parses bool, col *c19Collector, order string, st *c19LitStats) {
	report := func(kind, format string, a ...interface{}) {
		col.add(kind, "literals/"+l.Fam, order, func() (string, map[string]interface{}) {
			return fmt.Sprintf("literal %q: ", l.S) + fmt.Sprintf(format, a...), map[string]interface{}{"literal": l.S, "family": l.Fam}
		})
	}
	type ctor struct {
		name   string
		fixed  bool
		max    uint32
		signOK func(*big.Rat) bool
		call   func() (rmath.Dec, error)
	}
	nonNeg := func(r *big.Rat) bool { return r.Sign() >= 0 }
	pos := func(r *big.Rat) bool { return r.Sign() > 0 }
	cs := []ctor{
		{"NewNonNegativeDecFromString", false, 0, nonNeg, func() (rmath.Dec, error) { return rmath.NewNonNegativeDecFromString(l.S) }},
		{"NewPositiveDecFromString", false, 0, pos, func() (rmath.Dec, error) { return rmath.NewPositiveDecFromString(l.S) }},
	}
	for _, mx := range []uint32{0, 6, 30} {
		mx := mx
		cs = append(cs,
			ctor{"NewNonNegativeFixedDecFromString", true, mx, nonNeg, func() (rmath.Dec, error) { return rmath.NewNonNegativeFixedDecFromString(l.S, mx) }},
			ctor{"NewPositiveFixedDecFromString", true, mx, pos, func() (rmath.Dec, error) { return rmath.NewPositiveFixedDecFromString(l.S, mx) }})
	}
	for _, c := range cs {
		st.CtorEvaluations++
		st.Evaluations++
		var d rmath.Dec
		var err error
		if pm := c19Catch(func() { d, err = c.call() }); pm != "" {
			report("C19/"+c.name+"/panic", "panic: %s", pm)
			continue
		}
		if err == nil {
			if !parses || l.R == nil {
				report("C19/"+c.name+"/accepted-what-NewDecFromString-rejects", "accepted as %s", d.String())
				continue
			}
			got, ok := c19RatOf(&d)
			if !ok || got.Cmp(l.R) != 0 {
				report("C19/"+c.name+"/wrong-value", "accepted as %s, the literal denotes %s", d.String(), c19RatText(l.R))
			}
			if !c.signOK(l.R) {
				report("C19/"+c.name+"/accepted-wrong-sign", "accepted the value %s", c19RatText(l.R))
			}
			if c.fixed && ref.MinPlaces(l.R) > int(c.max) {
				report("C19/"+c.name+"/accepted-too-many-places", "accepted %s with maxNum=%d", c19RatText(l.R), c.max)
			}
			continue
		}
		if parses && l.R != nil && c.signOK(l.R) && (!c.fixed || l.Places <= int(c.max)) {
			report("C19/"+c.name+"/rejected-valid", "rejected (maxNum=%d, literal has %d places, value %s): %v", c.max, l.Places, c19RatText(l.R), err)
		}
	}
}

func c19Catch(f func()) (msg string) {
	defer func() {
		if p := recover(); p != nil {
			msg = fmt.Sprint(p)
			if msg == "" {
				msg = "panic"
			}
		}
	}()
	f()
	return ""
}

// ---------------------------------------------------------------------------
// all ordered pairs x all operations

type c19OpStat struct {
	OK, Error, Panic int64
}

type c19PairStats struct {
	evals         int64
	nontrivial    int64
	ops           [c19NumOps]c19OpStat
	shared        int64 // results whose coefficient shares memory with an operand (informational)
	spareWrites   int64 // writes into spare capacity of an operand's array (informational, not observable)
	divZeroErrors int64
	samples       []map[string]interface{}
}

// c19Worker owns a private parse of every literal, so that a mutation caused
// by the implementation can never leak between goroutines.
type c19Worker struct {
	lits  []c19Lit // accepted, value-bearing literals only
	decs  []rmath.Dec
	snaps []c19Snap
	rats  []*big.Rat
	col   *c19Collector
	st    c19PairStats
}

func newC19Worker(lits []c19Lit) *c19Worker {
	w := &c19Worker{col: newC19Collector()}
	for _, l := range lits {
		d, err := rmath.NewDecFromString(l.S)
		if err != nil {
			continue
		}
		w.lits = append(w.lits, l)
		w.decs = append(w.decs, d)
		w.rats = append(w.rats, new(big.Rat).Set(l.R))
	}
	w.snaps = make([]c19Snap, len(w.decs))
	for i := range w.decs {
		w.snaps[i] = c19TakeSnap(&w.decs[i])
	}
	return w
}

func (w *c19Worker) reparse(i int) {
	w.decs[i], _ = rmath.NewDecFromString(w.lits[i].S)
	w.snaps[i] = c19TakeSnap(&w.decs[i])
}

var c19SamplePairs = map[[2]string][]int{
	{"1", "9"}:                {c19OpQuo, c19OpQuoExact},
	{"15e-1", "25e-7"}:        {c19OpMulExact, c19OpAdd},
	{"-123456789e-6", "99e1"}: {c19OpQuo, c19OpSafeSubBalance},
	{"10000000000000000000000000000000001e-30", "9999999999999999999999999999999999e6"}: {c19OpMul, c19OpMulExact, c19OpSub},
	{"-5e-1", "5e-1"}: {c19OpAdd},
	{"5e40", "1234567890123456789012345678901234567891e-30"}: {c19OpAdd, c19OpQuo},
}

func (w *c19Worker) pair(i, j int) {
	n := len(w.decs)
	ex := c19Exacts(w.rats[i], w.rats[j])
	sampleOps := c19SamplePairs[[2]string{w.lits[i].S, w.lits[j].S}]
	pairKey := int64(i+j)*int64(n) + int64(i)
	for op := 0; op < c19NumOps; op++ {
		r := c19Apply(op, w.decs[i], w.decs[j])
		w.st.evals++
		order := fmt.Sprintf("1|%012d|%02d", pairKey, op)
		report := func(kind, detail string) {
			xs, ys := w.lits[i].S, w.lits[j].S
			col := w.col
			opn := c19OpNames[op]
			col.add(kind, "pairs", order, func() (string, map[string]interface{}) {
				return fmt.Sprintf("%s(x=%s, y=%s): %s", opn, xs, ys, detail), map[string]interface{}{"op": opn, "x": xs, "y": ys}
			})
		}
		switch {
		case r.panicked:
			w.st.ops[op].Panic++
		case r.err != nil:
			w.st.ops[op].Error++
			if (op == c19OpQuo || op == c19OpQuoExact || op == c19OpQuoInteger || op == c19OpRem) && ex.y.Sign() == 0 {
				w.st.divZeroErrors++
			}
		default:
			w.st.ops[op].OK++
		}
		vs, resR, nontrivial := c19Judge(op, ex, &r)
		if nontrivial {
			w.st.nontrivial++
		}
		for _, v := range vs {
			kind := "C19/" + c19OpNames[op] + "/" + v.class
			if strings.HasPrefix(v.class, "render-") {
				kind = "C19/" + v.class
			}
			report(kind, v.detail)
		}
		sample := false
		for _, so := range sampleOps {
			sample = sample || so == op
		}
		if sample {
			s := map[string]interface{}{"op": c19OpNames[op], "x": w.lits[i].S, "y": w.lits[j].S, "exact": c19RatText(ex.exactFor(op))}
			if r.err != nil {
				s["error"] = r.err.Error()
			} else {
				s["result"] = r.dec.String()
			}
			w.st.samples = append(w.st.samples, s)
		}
		// operand immutability, directly after the operation
		w.checkOperands(i, j, op, "operand-mutated", report)
		if r.hasDec && !r.panicked && c19View(&r.dec).Form == 0 {
			if w.snaps[i].overlaps(&r.dec) || w.snaps[j].overlaps(&r.dec) {
				w.st.shared++
			}
			// ... and after mutation-prone use of the result
			rs := c19TakeSnap(&r.dec)
			if resR == nil {
				resR, _ = c19RatOf(&r.dec)
			}
			for _, v := range c19FollowUps(r.dec, resR) {
				if r.err == nil {
					report(v.class, "on the result: "+v.detail)
				}
			}
			if diff, _ := rs.check(&r.dec); diff != "" {
				report("C19/followup/receiver-mutated", fmt.Sprintf("using the result %s as an operand of Add/Mul/Reduce/BigInt/SdkIntTrim/String modified it: %s", rs.str, diff))
			}
			w.checkOperands(i, j, op, "operand-mutated-through-result", report)
		}
	}
}

func (w *c19Worker) checkOperands(i, j, op int, class string, report func(kind, detail string)) {
	for k, idx := range [2]int{i, j} {
		if k == 1 && j == i {
			break
		}
		diff, spare := w.snaps[idx].check(&w.decs[idx])
		if spare {
			w.st.spareWrites++
			if diff == "" {
				w.snaps[idx] = c19TakeSnap(&w.decs[idx])
			}
		}
		if diff != "" {
			report("C19/"+c19OpNames[op]+"/"+class, fmt.Sprintf("operand %q was modified: %s", w.lits[idx].S, diff))
			w.reparse(idx)
		}
	}
}

// ---------------------------------------------------------------------------
// entry point

// C19 checks "credit amount arithmetic is exact, canonical and side-effect
// free" by bounded-exhaustive enumeration against a big-rational reference.
func C19(tier string) int {
	if tier != "thorough" {
		tier = "quick"
	}
	o := runner.New("C19", tier, "exploration")
	if !C19Into(tier, o, true) {
		return 2
	}
	return o.Finish()
}

// C19Into runs the enumerator and adds its assumptions, findings and coverage to o (coverage at the top
// level if top, else under coverage.arithmetic). It returns false if the harness cannot inspect math.Dec.
func C19Into(tier string, o *runner.Outcome, top bool) bool {
	if tier != "thorough" {
		tier = "quick"
	}
	if c19LayoutErr != nil {
		fmt.Fprintln(os.Stderr, "C19: cannot inspect math.Dec internals:", c19LayoutErr)
		return false
	}
	cov := map[string]interface{}{}
	defer func() {
		if top {
			for k, v := range cov {
				o.Coverage[k] = v
			}
		} else {
			o.Coverage["arithmetic"] = cov
		}
	}()
	o.Assumptions = append(o.Assumptions, []string{
		"every string over the alphabet {0,1,5,.,-,+,e} up to length 5 (thorough: 6) is given to the parser and the restricted constructors: the reference grammar ([sign] digits [. digits] | [sign] . digits, optional exponent) decides whether it is a decimal numeral and its value; an accepted string must be one, with exactly that value", "bounded: decimals are the literals of family D (signs x listed coefficients of 1..40 digits x listed exponents in -34..+40, in scientific and plain notation, plus unusual spellings and non-decimal strings); all ordered pairs of accepted literals are evaluated; nothing is sampled",
		"the reference is math/big (big.Rat/big.Int) and verif/harness/ref.Parse; no function of types/math is used to compute an expected value",
		"an error return is accepted for every operation (the statement allows 'exact result or an error'); error counts per operation are reported so that vacuous passes are visible",
		"Mul/Quo accuracy demanded: |result-exact| < 1 unit of the 34th significant digit of the exact value (twice the half-unit of correct rounding)",
		"SdkIntTrim is only evaluated for |value| < 2^255 (documented to panic beyond the SDK Int range); larger values are counted as skipped; BigInt (exact integer iff integral) and SdkIntTrim (truncation toward zero) are judged on every literal and on every finite result of every operation",
		"QuoInteger, Rem, NumDecimalPlaces, Reduce and the empty string are not constrained by the statement: behaviour is recorded, only operand immutability and panics are judged",
		"operand immutability is judged on the internal representation (form, sign, exponent, every word of the coefficient array up to its capacity, identity of the array) and on String(), after each operation and again after Add/Mul/Reduce/BigInt/SdkIntTrim/String were applied to the returned result and returned integers were overwritten in place",
		"math.Dec internals are read through a layout mirror of apd.Decimal verified by reflection at start-up",
		"history independence: a probe set (14 binary operations x all ordered pairs of 25 probe literals) is evaluated at process start and must be bit-identical after each of the earlier-operation kinds (every constructor, unary operation, conversion and binary operation applied to all probe literals) and after the whole enumeration; this decides operation sequences of length two at the level of operation kinds, not longer ones",
	}...)
	lits := c19Literals(tier)
	col := newC19Collector()

	// 0. history independence: baseline of the probe set before anything else, then every
	// (earlier operation kind, probe) sequence
	probe, hs := c19HistoryStart(col)

	// 1. single literals
	ls := c19CheckLiterals(lits, col)

	// 2. ordered pairs
	var valued []c19Lit
	for _, l := range lits {
		if l.R != nil && l.Mode != c19Recorded && l.Fam != "enum" {
			valued = append(valued, l)
		}
	}
	nw := runtime.GOMAXPROCS(0)
	if nw > 32 {
		nw = 32
	}
	workers := make([]*c19Worker, nw)
	var wg sync.WaitGroup
	for wi := 0; wi < nw; wi++ {
		wi := wi
		wg.Add(1)
		go func() {
			defer wg.Done()
			w := newC19Worker(valued)
			workers[wi] = w
			n := len(w.decs)
			for i := wi; i < n; i += nw {
				for j := 0; j < n; j++ {
					w.pair(i, j)
				}
			}
		}()
	}
	wg.Wait()
	var ps c19PairStats
	for _, w := range workers {
		col.merge(w.col)
		ps.evals += w.st.evals
		ps.nontrivial += w.st.nontrivial
		ps.shared += w.st.shared
		ps.spareWrites += w.st.spareWrites
		ps.divZeroErrors += w.st.divZeroErrors
		for k := range ps.ops {
			ps.ops[k].OK += w.st.ops[k].OK
			ps.ops[k].Error += w.st.ops[k].Error
			ps.ops[k].Panic += w.st.ops[k].Panic
		}
		ps.samples = append(ps.samples, w.st.samples...)
	}
	sort.SliceStable(ps.samples, func(a, b int) bool {
		ka := fmt.Sprint(ps.samples[a]["x"], "|", ps.samples[a]["y"], "|", ps.samples[a]["op"])
		kb := fmt.Sprint(ps.samples[b]["x"], "|", ps.samples[b]["y"], "|", ps.samples[b]["op"])
		return ka < kb
	})
	nPair := len(workers[0].decs)

	// 3. aliasing exploration
	depth := 2
	if tier == "thorough" {
		depth = 3
	}
	as := c19AliasExplore(depth, col)
	probe.compare("the whole pair enumeration and aliasing exploration", col, hs)

	// evidence
	perOp := map[string]c19OpStat{}
	for k := 0; k < c19NumOps; k++ {
		perOp[c19OpNames[k]] = ps.ops[k]
	}
	samples := []interface{}{}
	for _, s := range ps.samples {
		if len(samples) < 12 {
			samples = append(samples, s)
		}
	}
	cov["evaluations"] = ls.Evaluations + ps.evals + as.Steps + hs.Comparisons
	cov["distinct_nontrivial"] = ps.nontrivial
	cov["rule"] = "family D = sign x coefficient x exponent literals in scientific and plain notation (deduplicated by spelling) plus unusual spellings; every literal is checked alone (parse value, rendering, sign predicates, BigInt, SdkIntTrim, restricted constructors); every ORDERED pair of accepted literals is evaluated under each of the 14 binary operations; an evaluation is distinct by (operation, spelling of x, spelling of y) and non-trivial iff it returned a nil error and the exact result the statement defines for it (sum, difference, product, quotient) is non-zero (QuoInteger, Rem, Cmp, Equal never count); the aliasing exploration adds every operation sequence up to the stated depth over a growing pool of values"
	cov["samples"] = samples
	cov["exhaustive"] = true
	cov["literals"] = ls
	cov["pair_literals"] = nPair
	cov["ordered_pairs"] = int64(nPair) * int64(nPair)
	cov["pair_evaluations"] = ps.evals
	cov["per_operation"] = perOp
	cov["division_by_zero_refused"] = ps.divZeroErrors
	cov["results_sharing_memory_with_operand"] = ps.shared
	cov["writes_into_spare_capacity_of_operand"] = ps.spareWrites
	cov["alias_exploration"] = as
	cov["history_independence"] = hs
	cov["violation_counts_by_kind"] = col.counts
	cov["workers"] = nw

	kinds := make([]string, 0, len(col.best))
	for k := range col.best {
		kinds = append(kinds, k)
	}
	sort.Strings(kinds)
	for _, k := range kinds {
		f := col.best[k]
		f.replay["kind"] = k
		f.replay["occurrences"] = col.counts[k]
		bz, _ := json.Marshal(f.replay)
		o.Findings = append(o.Findings, runner.Finding{Kind: k, Detail: fmt.Sprintf("%s (%d occurrences of this kind)", f.detail, col.counts[k]), Engine: "B", Where: f.where, Replay: bz})
	}
	return true
}
