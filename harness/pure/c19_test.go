package pure

import (
	"os"
	"testing"

	"verif/harness/runner"
)

func c19TestRoot(t *testing.T) {
	if os.Getenv("VERIF_ROOT") == "" {
		runner.Root = t.TempDir()
	}
}

// TestC19Quick runs the quick tier; evidence goes to a temp dir unless
// VERIF_ROOT is set. The exit code is logged, not asserted: findings on the
// unchanged tree are reported through the runner.
func TestC19Quick(t *testing.T) {
	c19TestRoot(t)
	code := C19("quick")
	bz, _ := os.ReadFile(runner.Root + "/evidence/C19.json")
	t.Logf("exit=%d\n%s", code, bz)
}

func TestC19Thorough(t *testing.T) {
	if os.Getenv("VERIF_THOROUGH") == "" {
		t.Skip("set VERIF_THOROUGH=1")
	}
	c19TestRoot(t)
	code := C19("thorough")
	bz, _ := os.ReadFile(runner.Root + "/evidence/C19.json")
	t.Logf("exit=%d\n%s", code, bz)
}

// TestC19OracleSelfCheck feeds deliberately wrong outcomes to the judge and
// corrupts a value in place, to show that the oracle and the immutability
// detector are not vacuous.
func TestC19OracleSelfCheck(t *testing.T) {
	if c19LayoutErr != nil {
		t.Fatal(c19LayoutErr)
	}
	mk := func(s string) (d c19DecT) { return c19MustDec(s) }
	x, y := mk("1.5"), mk("25e-7")
	ex := c19Exacts(c19MustRatOf(x), c19MustRatOf(y))
	classes := func(op int, r c19Res) map[string]bool {
		vs, _, _ := c19Judge(op, ex, &r)
		m := map[string]bool{}
		for _, v := range vs {
			m[v.class] = true
		}
		return m
	}
	// a correct sum passes, a difference passed off as the sum does not
	if c := classes(c19OpAdd, c19Apply(c19OpAdd, x, y)); len(c) != 0 {
		t.Fatalf("correct Add flagged: %v", c)
	}
	if c := classes(c19OpAdd, c19Apply(c19OpSub, x, y)); !c["not-exact"] {
		t.Fatalf("wrong Add not flagged: %v", c)
	}
	// a negative value with a nil error is flagged for balance subtraction
	neg := c19Apply(c19OpSub, y, x)
	ex2 := c19Exacts(c19MustRatOf(y), c19MustRatOf(x))
	vs, _, _ := c19Judge(c19OpSafeSubBalance, ex2, &neg)
	found := false
	for _, v := range vs {
		found = found || v.class == "negative-without-error"
	}
	if !found {
		t.Fatalf("negative balance not flagged: %v", vs)
	}
	// 33 correct digits of 1/3 are not enough, 34 are
	third := c19Exacts(c19MustRatOf(mk("1")), c19MustRatOf(mk("3")))
	r33 := c19Res{hasDec: true, dec: mk("0." + c19Repeat("3", 33))}
	r34 := c19Res{hasDec: true, dec: mk("0." + c19Repeat("3", 34))}
	if v, _, _ := c19Judge(c19OpQuo, third, &r33); len(v) == 0 {
		t.Fatal("33-digit quotient accepted")
	}
	if v, _, _ := c19Judge(c19OpQuo, third, &r34); len(v) != 0 {
		t.Fatalf("34-digit quotient flagged: %v", v)
	}
	// division by zero with nil error
	zero := c19Exacts(c19MustRatOf(mk("1")), c19MustRatOf(mk("0")))
	if v, _, _ := c19Judge(c19OpQuo, zero, &r34); len(v) == 0 {
		t.Fatal("division by zero with nil error accepted")
	}
	// in-place corruption of a coefficient word is detected
	d := mk("9999999999999999999999999999.999999")
	alias := d // struct copy shares the array
	s := c19TakeSnap(&d)
	c19View(&alias).Coeff.Bits()[0] ^= 1
	if diff, _ := s.check(&d); diff == "" {
		t.Fatal("in-place corruption through a struct copy not detected")
	}
	if !s.overlaps(&alias) {
		t.Fatal("shared array not detected")
	}
}
