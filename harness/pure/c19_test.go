package pure

import (
	"os"
	"testing"

	"verif/harness/runner"
)

func c19TestRoot(t *testing.T) {
	if os.Getenv("VERIF_ROOT") == "" {
		runner.Root = t.TempDir()
	}
}

// TestC19Quick runs the quick tier; evidence goes to a temp dir unless
// VERIF_ROOT is set. The exit code is logged, not asserted: findings on the
// unchanged tree are reported through the runner.
func TestC19Quick(t *testing.T) {
	c19TestRoot(t)
	code := C19("quick")
	bz, _ := os.ReadFile(runner.Root + "/evidence/C19.json")
	t.Logf("exit=%d\n%s", code, bz)
}

func TestC19Thorough(t *testing.T) {
	if os.Getenv("VERIF_THOROUGH") == "" {
		t.Skip("set VERIF_THOROUGH=1")
	}
	c19TestRoot(t)
	code := C19("thorough")
	bz, _ := os.ReadFile(runner.Root + "/evidence/C19.json")
	t.Logf("exit=%d\n%s", code, bz)
}
