// Engine B part of property C14 (identifier FORMATS): bounded-exhaustive
// enumeration of formatted ids and of arbitrary strings against hand-written
// recognisers of the documented grammars.
//
// Documented grammars used by the recognisers (x/ecocredit/base/utils.go doc
// comments, proto/regen/ecocredit/v1/state.proto, basket/v1/{state,tx}.proto):
//
//	credit type abbreviation  1-3 uppercase letters
//	class id                  <abbrev><class-seq>            seq zero padded to >= 2 digits ("C01")
//	project id                <class-id>-<project-seq>       seq zero padded to >= 3 digits ("C01-001")
//	batch denom               <project-id>-<YYYYMMDD>-<YYYYMMDD>-<batch-seq>   seq >= 3 digits
//	basket name               3-8 alphanumeric characters, the first alphabetic
//	basket denom              eco.<prefix><abbrev>.<name>    prefix in {"",d,c,m,u,n,p,f,a,z,y}
//
// Nothing in this file uses the implementation's regular expressions.
package pure

import (
	"encoding/json"
	"fmt"
	"runtime"
	"sort"
	"strconv"
	"strings"
	"sync"
	"time"

	"github.com/regen-network/regen-ledger/x/ecocredit/v3/base"
	"github.com/regen-network/regen-ledger/x/ecocredit/v3/basket"

	"verif/harness/runner"
)

// ---------------------------------------------------------------------------
// hand-written recognisers
// ---------------------------------------------------------------------------

func c14Upper(b byte) bool { return b >= 'A' && b <= 'Z' }
func c14Lower(b byte) bool { return b >= 'a' && b <= 'z' }
func c14Digit(b byte) bool { return b >= '0' && b <= '9' }
func c14Alpha(b byte) bool { return c14Upper(b) || c14Lower(b) }

func c14Digits(s string, min int) bool {
	if len(s) < min {
		return false
	}
	for i := 0; i < len(s); i++ {
		if !c14Digit(s[i]) {
			return false
		}
	}
	return true
}

func c14ExactDigits(s string, n int) bool { return len(s) == n && c14Digits(s, n) }

// c14RecAbbrev: 1-3 uppercase letters.
func c14RecAbbrev(s string) bool {
	if len(s) < 1 || len(s) > 3 {
		return false
	}
	for i := 0; i < len(s); i++ {
		if !c14Upper(s[i]) {
			return false
		}
	}
	return true
}

// c14RecClassID recognises <abbrev><seq>=2+ digits and returns the abbreviation.
func c14RecClassID(s string) (abbrev string, ok bool) {
	i := 0
	for i < len(s) && c14Upper(s[i]) {
		i++
	}
	if !c14RecAbbrev(s[:i]) || !c14Digits(s[i:], 2) {
		return "", false
	}
	return s[:i], true
}

// c14Fields splits on '-' (every dash separates).
func c14Fields(s string) []string {
	var out []string
	start := 0
	for i := 0; i < len(s); i++ {
		if s[i] == '-' {
			out = append(out, s[start:i])
			start = i + 1
		}
	}
	return append(out, s[start:])
}

// c14RecProjectID recognises <class-id>-<seq>=3+ digits.
func c14RecProjectID(s string) (abbrev, classID string, ok bool) {
	f := c14Fields(s)
	if len(f) != 2 {
		return "", "", false
	}
	a, ok := c14RecClassID(f[0])
	if !ok || !c14Digits(f[1], 3) {
		return "", "", false
	}
	return a, f[0], true
}

// c14RecBatchDenom recognises <project-id>-<8 digits>-<8 digits>-<seq>=3+ digits.
func c14RecBatchDenom(s string) (abbrev, classID, projectID, start, end string, ok bool) {
	f := c14Fields(s)
	if len(f) != 5 {
		return
	}
	a, cok := c14RecClassID(f[0])
	if !cok || !c14Digits(f[1], 3) || !c14ExactDigits(f[2], 8) || !c14ExactDigits(f[3], 8) || !c14Digits(f[4], 3) {
		return
	}
	return a, f[0], f[0] + "-" + f[1], f[2], f[3], true
}

func c14Leap(y int) bool { return y%4 == 0 && (y%100 != 0 || y%400 == 0) }

func c14DaysIn(y, m int) int {
	switch m {
	case 2:
		if c14Leap(y) {
			return 29
		}
		return 28
	case 4, 6, 9, 11:
		return 30
	}
	return 31
}

// c14CalendarDate tells whether 8 digits are a civil date 0001-01-01..9999-12-31.
func c14CalendarDate(d string) bool {
	if !c14ExactDigits(d, 8) {
		return false
	}
	n := func(s string) int {
		v := 0
		for i := 0; i < len(s); i++ {
			v = v*10 + int(s[i]-'0')
		}
		return v
	}
	y, m, dd := n(d[:4]), n(d[4:6]), n(d[6:])
	return y >= 1 && m >= 1 && m <= 12 && dd >= 1 && dd <= c14DaysIn(y, m)
}

// c14RecBasketName: 3-8 alphanumeric, first alphabetic.
func c14RecBasketName(s string) bool {
	if len(s) < 3 || len(s) > 8 || !c14Alpha(s[0]) {
		return false
	}
	for i := 1; i < len(s); i++ {
		if !c14Alpha(s[i]) && !c14Digit(s[i]) {
			return false
		}
	}
	return true
}

const c14SIPrefixes = "dcmunpfazy"

// c14RecBasketDenom recognises eco.<prefix><abbrev>.<name> (strict, as
// documented). looseDotted reports the wider set "eco.<1-4 letters>.<name>"
// that the code comment in basket/utils.go describes.
func c14RecBasketDenom(s string) (strict, looseDotted bool) {
	if !strings.HasPrefix(s, "eco.") {
		return false, false
	}
	rest := s[4:]
	dot := strings.IndexByte(rest, '.')
	if dot < 0 {
		return false, false
	}
	mid, name := rest[:dot], rest[dot+1:]
	if !c14RecBasketName(name) {
		return false, false
	}
	if len(mid) >= 1 && len(mid) <= 4 {
		looseDotted = true
		for i := 0; i < len(mid); i++ {
			if !c14Alpha(mid[i]) {
				looseDotted = false
			}
		}
	}
	if c14RecAbbrev(mid) {
		return true, looseDotted
	}
	if len(mid) >= 2 && strings.IndexByte(c14SIPrefixes, mid[0]) >= 0 && c14RecAbbrev(mid[1:]) {
		return true, looseDotted
	}
	return false, looseDotted
}

// c14Pad is decimal with zero padding to at least w digits.
func c14Pad(n uint64, w int) string {
	s := strconv.FormatUint(n, 10)
	for len(s) < w {
		s = "0" + s
	}
	return s
}

func c14YMD(y, m, d int) string {
	return c14Pad(uint64(y), 4) + c14Pad(uint64(m), 2) + c14Pad(uint64(d), 2)
}

func c14Hash(s string) uint64 { // FNV-1a 64
	h := uint64(14695981039346656037)
	for i := 0; i < len(s); i++ {
		h ^= uint64(s[i])
		h *= 1099511628211
	}
	return h
}

// ---------------------------------------------------------------------------
// accumulator
// ---------------------------------------------------------------------------

const (
	c14FamFormatted = iota
	c14FamDates
	c14FamBasketFormatted
	c14FamShort
	c14FamEdit1
	c14FamPieces
	c14FamBasketShort
	c14FamBasketPieces
	c14FamEdit2
	c14NumFam
)

var c14FamNames = [c14NumFam]string{"formatted-ids", "formatted-all-dates", "formatted-basket-denoms", "all-short-strings", "single-edit-neighbours",
	"grammar-piece-products", "basket-short-strings", "basket-piece-products", "double-edit-neighbours"}

// C14BasketSeparatorAsFinding decides how the one discrepancy that exists on
// the unchanged tree is reported: basket.ValidateBasketDenom accepts any
// character in place of the two dots of eco.<prefix><abbrev>.<name> (the dots
// of its regular expression are unescaped), contradicting both the proto
// comment and the code comment ("separated by a '.'"). true: a finding of kind
// C14/validator-accepts-string-outside-grammar/basket-denom; false: only an
// entry under coverage.formats.observations (basket denoms are not named in the
// first sentence of the property statement, only its "all strings fed to the
// format validators" quantifier and its anchors cover them).
var C14BasketSeparatorAsFinding = false

type c14Cand struct {
	fam    int
	s      string
	detail string
	replay map[string]interface{}
}

func (c c14Cand) less(o c14Cand) bool {
	if c.fam != o.fam {
		return c.fam < o.fam
	}
	if len(c.s) != len(o.s) {
		return len(c.s) < len(o.s)
	}
	return c.s < o.s
}

type c14Obs struct {
	n  int64
	ex string
}

func (o *c14Obs) add(s string) {
	o.n++
	if o.ex == "" || len(s) < len(o.ex) || (len(s) == len(o.ex) && s < o.ex) {
		o.ex = s
	}
}

func (o *c14Obs) merge(b c14Obs) {
	o.n += b.n
	if b.ex != "" && (o.ex == "" || len(b.ex) < len(o.ex) || (len(b.ex) == len(o.ex) && b.ex < o.ex)) {
		o.ex = b.ex
	}
}

type c14Acc struct {
	evals    int64
	famEvals [c14NumFam]int64
	hashes   []uint64 // accepted by the class/project/batch validator and cross-checked with the parsers
	accepts  [6]int64 // acceptances per validator (not distinct)
	cands    map[string]c14Cand

	nonCalendar, nonCanonical, basketLooseMiddle, basketSeparator, beyondUint64 c14Obs
}

func newC14Acc() *c14Acc { return &c14Acc{cands: map[string]c14Cand{}} }

func (a *c14Acc) flag(kind string, fam int, s, detail string, replay map[string]interface{}) {
	c := c14Cand{fam: fam, s: s, detail: detail, replay: replay}
	if old, ok := a.cands[kind]; !ok || c.less(old) {
		a.cands[kind] = c
	}
}

func (a *c14Acc) merge(b *c14Acc) {
	a.evals += b.evals
	for i := range a.famEvals {
		a.famEvals[i] += b.famEvals[i]
	}
	for i := range a.accepts {
		a.accepts[i] += b.accepts[i]
	}
	a.hashes = append(a.hashes, b.hashes...)
	for k, c := range b.cands {
		if old, ok := a.cands[k]; !ok || c.less(old) {
			a.cands[k] = c
		}
	}
	a.nonCalendar.merge(b.nonCalendar)
	a.nonCanonical.merge(b.nonCanonical)
	a.basketLooseMiddle.merge(b.basketLooseMiddle)
	a.basketSeparator.merge(b.basketSeparator)
	a.beyondUint64.merge(b.beyondUint64)
}

const (
	c14VAbbrev = iota
	c14VClass
	c14VProject
	c14VBatch
	c14VBasketName
	c14VBasketDenom
)

var c14ValidatorNames = [6]string{"credit-type-abbreviation", "class-id", "project-id", "batch-denom", "basket-name", "basket-denom"}

type c14Verdict struct {
	accept [6]bool // implementation
	rec    [6]bool // recogniser
}

func c14Canonical(digits string, w int) bool {
	// the formatters never emit more padding than needed
	return len(digits) == w || digits[0] != '0'
}

func c14FitsUint64(digits string) bool {
	d := strings.TrimLeft(digits, "0")
	if len(d) != 20 {
		return len(d) < 20
	}
	return d <= "18446744073709551615"
}

// check feeds one string to all six validators, compares every verdict with
// the recogniser and, on accepted ids, the parsers with the recogniser's
// decomposition.
func (a *c14Acc) check(fam int, s string) c14Verdict {
	a.evals++
	a.famEvals[fam]++
	var v c14Verdict
	rp := func(extra map[string]interface{}) map[string]interface{} {
		m := map[string]interface{}{"family": c14FamNames[fam], "input": s, "input_quoted": strconv.Quote(s)}
		for k, x := range extra {
			m[k] = x
		}
		return m
	}
	verdict := func(i int, accept, rec bool) {
		v.accept[i], v.rec[i] = accept, rec
		if accept {
			a.accepts[i]++
		}
		if accept && !rec {
			a.flag("C14/validator-accepts-string-outside-grammar/"+c14ValidatorNames[i], fam, s,
				fmt.Sprintf("the %s validator accepts %q which is outside the documented format", c14ValidatorNames[i], s), rp(map[string]interface{}{"validator": c14ValidatorNames[i]}))
		}
		if !accept && rec {
			a.flag("C14/validator-rejects-string-inside-grammar/"+c14ValidatorNames[i], fam, s,
				fmt.Sprintf("the %s validator rejects %q which conforms to the documented format", c14ValidatorNames[i], s), rp(map[string]interface{}{"validator": c14ValidatorNames[i]}))
		}
	}
	parser := func(name, got, want string) bool {
		if got != want {
			a.flag("C14/parser-misparses-validator-accepted-id/"+name, fam, s,
				fmt.Sprintf("%s(%q) = %q, but the embedded id is %q", name, s, got, want), rp(map[string]interface{}{"parser": name, "got": got, "want": want}))
			return false
		}
		return true
	}
	recovered := func(name, id string, err error) bool {
		if err != nil {
			a.flag("C14/recovered-id-rejected-by-its-validator/"+name, fam, s,
				fmt.Sprintf("%s(%q) = %q is rejected by the validator of its own kind: %v", name, s, id, err), rp(map[string]interface{}{"parser": name, "got": id}))
			return false
		}
		return true
	}

	verdict(c14VAbbrev, base.ValidateCreditTypeAbbreviation(s) == nil, c14RecAbbrev(s))

	// class id
	abbr, rc := c14RecClassID(s)
	verdict(c14VClass, base.ValidateClassID(s) == nil, rc)
	if v.accept[c14VClass] && rc {
		got := base.GetCreditTypeAbbrevFromClassID(s)
		ok := parser("GetCreditTypeAbbrevFromClassID", got, abbr)
		ok = recovered("GetCreditTypeAbbrevFromClassID", got, base.ValidateCreditTypeAbbreviation(got)) && ok
		if ok {
			a.hashes = append(a.hashes, c14Hash(s))
		}
		seq := s[len(abbr):]
		if !c14Canonical(seq, 2) {
			a.nonCanonical.add(s)
		}
		if !c14FitsUint64(seq) {
			a.beyondUint64.add(s)
		}
	}

	// project id
	pabbr, pclass, rp2 := c14RecProjectID(s)
	verdict(c14VProject, base.ValidateProjectID(s) == nil, rp2)
	if v.accept[c14VProject] && rp2 {
		cid := base.GetClassIDFromProjectID(s)
		ok := parser("GetClassIDFromProjectID", cid, pclass)
		ok = recovered("GetClassIDFromProjectID", cid, base.ValidateClassID(cid)) && ok
		ok = parser("GetCreditTypeAbbrevFromClassID(GetClassIDFromProjectID)", base.GetCreditTypeAbbrevFromClassID(cid), pabbr) && ok
		if ok {
			a.hashes = append(a.hashes, c14Hash(s))
		}
		f := c14Fields(s)
		if !c14Canonical(f[0][len(pabbr):], 2) || !c14Canonical(f[1], 3) {
			a.nonCanonical.add(s)
		}
		if !c14FitsUint64(f[1]) {
			a.beyondUint64.add(s)
		}
	}

	// batch denom
	babbr, bclass, bproj, bstart, bend, rb := c14RecBatchDenom(s)
	verdict(c14VBatch, base.ValidateBatchDenom(s) == nil, rb)
	if v.accept[c14VBatch] && rb {
		cid := base.GetClassIDFromBatchDenom(s)
		pid := base.GetProjectIDFromBatchDenom(s)
		ok := parser("GetClassIDFromBatchDenom", cid, bclass)
		ok = parser("GetProjectIDFromBatchDenom", pid, bproj) && ok
		ok = recovered("GetClassIDFromBatchDenom", cid, base.ValidateClassID(cid)) && ok
		ok = recovered("GetProjectIDFromBatchDenom", pid, base.ValidateProjectID(pid)) && ok
		ok = parser("GetClassIDFromProjectID(GetProjectIDFromBatchDenom)", base.GetClassIDFromProjectID(pid), bclass) && ok
		ok = parser("GetCreditTypeAbbrevFromClassID(GetClassIDFromBatchDenom)", base.GetCreditTypeAbbrevFromClassID(cid), babbr) && ok
		if ok {
			a.hashes = append(a.hashes, c14Hash(s))
		}
		if !c14CalendarDate(bstart) || !c14CalendarDate(bend) {
			a.nonCalendar.add(s)
		}
		f := c14Fields(s)
		if !c14Canonical(f[0][len(babbr):], 2) || !c14Canonical(f[1], 3) || !c14Canonical(f[4], 3) {
			a.nonCanonical.add(s)
		}
		if !c14FitsUint64(f[4]) {
			a.beyondUint64.add(s)
		}
	}

	// basket name and denom (no parsers exist for these)
	verdict(c14VBasketName, basket.ValidateBasketName(s) == nil, c14RecBasketName(s))
	strict, loose := c14RecBasketDenom(s)
	acc := basket.ValidateBasketDenom(s) == nil
	switch {
	case acc && !strict && loose:
		// dotted, name fine, middle part is 1-4 letters but not <prefix><ABBREV>:
		// the code comment announces this looseness, recorded as an observation.
		a.basketLooseMiddle.add(s)
		v.accept[c14VBasketDenom] = true
		a.accepts[c14VBasketDenom]++
	case acc && !strict:
		// accepted although the three parts are not separated by literal dots
		v.accept[c14VBasketDenom] = true
		a.accepts[c14VBasketDenom]++
		a.basketSeparator.add(s)
		if C14BasketSeparatorAsFinding {
			a.flag("C14/validator-accepts-string-outside-grammar/"+c14ValidatorNames[c14VBasketDenom], fam, s,
				fmt.Sprintf("ValidateBasketDenom accepts %q although its parts are not separated by '.' as the documented format eco.<prefix><credit_type_abbrev>.<name> requires (any character is accepted in place of either dot)", s),
				rp(map[string]interface{}{"validator": c14ValidatorNames[c14VBasketDenom], "call": "basket.ValidateBasketDenom(input) returns nil"}))
		}
	default:
		verdict(c14VBasketDenom, acc, strict)
	}
	return v
}

// c14Par runs fn over [0,n) in contiguous chunks on all cores and merges the
// chunk accumulators in chunk order (deterministic).
func c14Par(total *c14Acc, n int, fn func(a *c14Acc, lo, hi int)) {
	if n <= 0 {
		return
	}
	workers := runtime.NumCPU()
	chunks := workers * 8
	if chunks > n {
		chunks = n
	}
	accs := make([]*c14Acc, chunks)
	next := make(chan int, chunks)
	for i := 0; i < chunks; i++ {
		next <- i
	}
	close(next)
	var wg sync.WaitGroup
	for w := 0; w < workers; w++ {
		wg.Add(1)
		go func() {
			defer wg.Done()
			for c := range next {
				a := newC14Acc()
				lo, hi := int(int64(n)*int64(c)/int64(chunks)), int(int64(n)*int64(c+1)/int64(chunks))
				fn(a, lo, hi)
				accs[c] = a
			}
		}()
	}
	wg.Wait()
	for _, a := range accs {
		total.merge(a)
	}
}

// ---------------------------------------------------------------------------
// family (a): formatted ids
// ---------------------------------------------------------------------------

func c14Seqs(tier string) []uint64 {
	var s []uint64
	top := uint64(120)
	if tier == "thorough" {
		top = 1100
	}
	for i := uint64(1); i <= top; i++ {
		s = append(s, i)
	}
	if tier != "thorough" {
		s = append(s, 999, 1000, 1001, 1100)
	}
	// far beyond the zero-padded width
	return append(s, 9999, 10000, 99999, 1<<32, 1<<63, ^uint64(0))
}

var c14Abbrevs = []string{"C", "BIO", "KSH", "A", "ZZ"}

type c14Date struct{ y, m, d int }

var c14DatesList = []c14Date{{1, 1, 1}, {1969, 12, 31}, {1970, 1, 1}, {2020, 2, 29}, {9999, 12, 31}}

type c14Collide struct {
	kind  string
	seen  map[string]int32 // output -> index of the (distinct) input that produced it
	count int
}

func (c *c14Collide) add(a *c14Acc, out string, idx int, desc func(int) string) {
	c.count++
	if prev, dup := c.seen[out]; dup {
		a.flag("C14/formatted-ids-collide/"+c.kind, c14FamFormatted, out,
			fmt.Sprintf("distinct inputs %s and %s are both formatted as %q", desc(int(prev)), desc(idx), out),
			map[string]interface{}{"family": c14FamNames[c14FamFormatted], "output": out, "input_1": desc(int(prev)), "input_2": desc(idx)})
		return
	}
	c.seen[out] = int32(idx)
}

func (a *c14Acc) formatted(fam int, kind string, vi int, out, want, in string) bool {
	ok := true
	if out != want {
		ok = false
		a.flag("C14/formatted-id-differs-from-documented-format/"+kind, fam, out,
			fmt.Sprintf("%s is formatted as %q, the documented format gives %q", in, out, want),
			map[string]interface{}{"family": c14FamNames[fam], "input": in, "output": out, "documented": want})
	}
	v := a.check(fam, out)
	if !v.accept[vi] {
		ok = false
		a.flag("C14/formatted-id-rejected-by-validator/"+kind, fam, out,
			fmt.Sprintf("%s is formatted as %q, which the chain's own %s validator rejects", in, out, c14ValidatorNames[vi]),
			map[string]interface{}{"family": c14FamNames[fam], "input": in, "output": out})
	}
	return ok
}

func (a *c14Acc) recover(fam int, name, id, got, want string) {
	if got != want {
		a.flag("C14/parser-misparses-validator-accepted-id/"+name, fam, id,
			fmt.Sprintf("%s(%q) = %q, but the id was formatted from %q", name, id, got, want),
			map[string]interface{}{"family": c14FamNames[fam], "input": id, "parser": name, "got": got, "want": want})
	}
}

type c14Batch struct {
	project    string
	start, end c14Date
	seq        uint64
}

func c14Time(d c14Date, endOfDay bool) time.Time {
	if endOfDay {
		return time.Date(d.y, time.Month(d.m), d.d, 23, 59, 59, 999999999, time.UTC)
	}
	return time.Date(d.y, time.Month(d.m), d.d, 0, 0, 0, 0, time.UTC)
}

func c14FormattedIDs(total *c14Acc, tier string) (bases []string, counts map[string]interface{}) {
	seqs := c14Seqs(tier)
	classSet := &c14Collide{kind: "class-id", seen: map[string]int32{}}
	projSet := &c14Collide{kind: "project-id", seen: map[string]int32{}}
	batchSet := &c14Collide{kind: "batch-denom", seen: map[string]int32{}}

	// class ids: listed abbreviations x all sequence numbers
	type classIn struct {
		abbr string
		seq  uint64
	}
	var classes []classIn
	for _, ab := range c14Abbrevs {
		for _, q := range seqs {
			classes = append(classes, classIn{ab, q})
		}
	}
	// every abbreviation of 1-3 letters x a few sequence numbers
	letters := "ABCDEFGHIJKLMNOPQRSTUVWXYZ"
	var all []string
	for i := 0; i < 26; i++ {
		all = append(all, letters[i:i+1])
		for j := 0; j < 26; j++ {
			all = append(all, letters[i:i+1]+letters[j:j+1])
			for k := 0; k < 26; k++ {
				all = append(all, letters[i:i+1]+letters[j:j+1]+letters[k:k+1])
			}
		}
	}
	for _, ab := range all {
		for _, q := range []uint64{1, 10, 100} {
			if (ab == "C" || ab == "BIO" || ab == "KSH" || ab == "A" || ab == "ZZ") && q <= 100 {
				continue // already listed above
			}
			classes = append(classes, classIn{ab, q})
		}
	}
	classOut := make([]string, len(classes))
	c14Par(total, len(classes), func(a *c14Acc, lo, hi int) {
		for i := lo; i < hi; i++ {
			in := classes[i]
			out := base.FormatClassID(in.abbr, in.seq)
			classOut[i] = out
			desc := fmt.Sprintf("class(abbrev=%s, seq=%d)", in.abbr, in.seq)
			a.formatted(c14FamFormatted, "class-id", c14VClass, out, in.abbr+c14Pad(in.seq, 2), desc)
			a.recover(c14FamFormatted, "GetCreditTypeAbbrevFromClassID", out, base.GetCreditTypeAbbrevFromClassID(out), in.abbr)
		}
	})
	for i := range classes {
		classSet.add(total, classOut[i], i, func(j int) string { return fmt.Sprintf("class(abbrev=%s, seq=%d)", classes[j].abbr, classes[j].seq) })
	}

	// project ids: 4 classes per listed abbreviation x all sequence numbers
	type projIn struct {
		abbr, class string
		seq         uint64
	}
	var projs []projIn
	for _, ab := range c14Abbrevs {
		for _, cq := range []uint64{1, 99, 100, 1100} {
			cl := ab + c14Pad(cq, 2)
			for _, q := range seqs {
				projs = append(projs, projIn{ab, cl, q})
			}
		}
	}
	projOut := make([]string, len(projs))
	c14Par(total, len(projs), func(a *c14Acc, lo, hi int) {
		for i := lo; i < hi; i++ {
			in := projs[i]
			out := base.FormatProjectID(in.class, in.seq)
			projOut[i] = out
			desc := fmt.Sprintf("project(class=%s, seq=%d)", in.class, in.seq)
			a.formatted(c14FamFormatted, "project-id", c14VProject, out, in.class+"-"+c14Pad(in.seq, 3), desc)
			a.recover(c14FamFormatted, "GetClassIDFromProjectID", out, base.GetClassIDFromProjectID(out), in.class)
			a.recover(c14FamFormatted, "GetCreditTypeAbbrevFromClassID(GetClassIDFromProjectID)", out, base.GetCreditTypeAbbrevFromClassID(base.GetClassIDFromProjectID(out)), in.abbr)
		}
	})
	for i := range projs {
		projSet.add(total, projOut[i], i, func(j int) string { return fmt.Sprintf("project(class=%s, seq=%d)", projs[j].class, projs[j].seq) })
	}

	// batch denoms: 24 projects x all ordered date pairs x all sequence numbers
	var projects []string
	projAbbr := map[string]string{}
	projClass := map[string]string{}
	for _, ab := range []string{"C", "BIO", "ZZ"} {
		for _, cq := range []uint64{1, 100} {
			for _, pq := range []uint64{1, 999, 1000, 1100} {
				p := ab + c14Pad(cq, 2) + "-" + c14Pad(pq, 3)
				projects = append(projects, p)
				projAbbr[p], projClass[p] = ab, ab+c14Pad(cq, 2)
			}
		}
	}
	var batches []c14Batch
	for _, p := range projects {
		for _, s := range c14DatesList {
			for _, e := range c14DatesList {
				for _, q := range seqs {
					batches = append(batches, c14Batch{p, s, e, q})
				}
			}
		}
	}
	batchOut := make([]string, len(batches))
	c14Par(total, len(batches), func(a *c14Acc, lo, hi int) {
		for i := lo; i < hi; i++ {
			in := batches[i]
			st, en := c14Time(in.start, false), c14Time(in.end, i%2 == 1)
			out, err := base.FormatBatchDenom(in.project, in.seq, &st, &en)
			batchOut[i] = out
			desc := fmt.Sprintf("batch(project=%s, start=%s, end=%s, seq=%d)", in.project, c14YMD(in.start.y, in.start.m, in.start.d), c14YMD(in.end.y, in.end.m, in.end.d), in.seq)
			if err != nil {
				a.flag("C14/formatted-id-rejected-by-validator/batch-denom", c14FamFormatted, desc, "FormatBatchDenom fails for "+desc+": "+err.Error(), map[string]interface{}{"input": desc})
				continue
			}
			want := in.project + "-" + c14YMD(in.start.y, in.start.m, in.start.d) + "-" + c14YMD(in.end.y, in.end.m, in.end.d) + "-" + c14Pad(in.seq, 3)
			a.formatted(c14FamFormatted, "batch-denom", c14VBatch, out, want, desc)
			a.recover(c14FamFormatted, "GetProjectIDFromBatchDenom", out, base.GetProjectIDFromBatchDenom(out), in.project)
			a.recover(c14FamFormatted, "GetClassIDFromBatchDenom", out, base.GetClassIDFromBatchDenom(out), projClass[in.project])
			a.recover(c14FamFormatted, "GetCreditTypeAbbrevFromClassID(GetClassIDFromBatchDenom)", out, base.GetCreditTypeAbbrevFromClassID(base.GetClassIDFromBatchDenom(out)), projAbbr[in.project])
		}
	})
	for i := range batches {
		batchSet.add(total, batchOut[i], i, func(j int) string {
			in := batches[j]
			return fmt.Sprintf("batch(project=%s, start=%s, end=%s, seq=%d)", in.project, c14YMD(in.start.y, in.start.m, in.start.d), c14YMD(in.end.y, in.end.m, in.end.d), in.seq)
		})
	}

	// ~50 formatted ids whose edit neighbourhoods are explored
	for _, x := range []classIn{{"C", 1}, {"C", 99}, {"C", 100}, {"BIO", 2}, {"KSH", 1100}, {"A", 1}, {"ZZ", 10}} {
		bases = append(bases, base.FormatClassID(x.abbr, x.seq))
	}
	for _, x := range []projIn{{"", "C01", 1}, {"", "C01", 1000}, {"", "BIO02", 3}, {"", "KSH1100", 1100}, {"", "A01", 999}, {"", "ZZ10", 10}, {"", "C100", 100}} {
		bases = append(bases, base.FormatProjectID(x.class, x.seq))
	}
	pairs := [][2]c14Date{{{2019, 1, 1}, {2020, 1, 1}}, {{1, 1, 1}, {9999, 12, 31}}, {{1969, 12, 31}, {2020, 2, 29}}}
	for _, p := range []string{"C01-001", "BIO02-003", "KSH1100-1100", "A01-1000"} {
		for _, dp := range pairs {
			for _, q := range []uint64{1, 1000} {
				st, en := c14Time(dp[0], false), c14Time(dp[1], false)
				out, _ := base.FormatBatchDenom(p, q, &st, &en)
				bases = append(bases, out)
			}
		}
	}
	bases = append(bases, "C", "BIO", "ZZ", "NCT", "rNCT", "a1234567")
	for _, x := range []struct {
		name, ab string
		exp      uint32
	}{{"NCT", "C", 6}, {"NCT", "C", 0}, {"rNCT", "BIO", 3}, {"a1234567", "KSH", 24}, {"abc", "A", 0}, {"Ab1", "ZZ", 1}} {
		d, _, _ := basket.FormatBasketDenom(x.name, x.ab, x.exp)
		bases = append(bases, d)
	}

	counts = map[string]interface{}{
		"class_ids_formatted": classSet.count, "class_ids_distinct": len(classSet.seen),
		"project_ids_formatted": projSet.count, "project_ids_distinct": len(projSet.seen),
		"batch_denoms_formatted": batchSet.count, "batch_denoms_distinct": len(batchSet.seen),
		"abbreviations": len(all), "sequence_numbers": len(seqs),
	}
	return bases, counts
}

// c14AllDates formats a batch denom for every civil day of the enumerated
// years (thorough: every day 0001-01-01..9999-12-31).
func c14AllDates(total *c14Acc, tier string) int64 {
	var years []int
	if tier == "thorough" {
		for y := 1; y <= 9999; y++ {
			years = append(years, y)
		}
	} else {
		for _, y := range []int{1, 4, 100, 400, 999, 1000, 1582, 1600, 1700, 9996, 9999} {
			years = append(years, y)
		}
		for y := 1890; y <= 2110; y++ {
			years = append(years, y)
		}
	}
	var days int64
	for _, y := range years {
		days += 365
		if c14Leap(y) {
			days++
		}
	}
	c14Par(total, len(years), func(a *c14Acc, lo, hi int) {
		for i := lo; i < hi; i++ {
			y := years[i]
			for m := 1; m <= 12; m++ {
				for d := 1; d <= c14DaysIn(y, m); d++ {
					st := time.Date(y, time.Month(m), d, 0, 0, 0, 0, time.UTC)
					en := time.Date(y, time.Month(m), d, 23, 59, 59, 999999999, time.UTC)
					out, err := base.FormatBatchDenom("C01-001", 1, &st, &en)
					ymd := c14YMD(y, m, d)
					if err != nil {
						a.flag("C14/formatted-id-rejected-by-validator/batch-denom", c14FamDates, ymd, "FormatBatchDenom fails for the date "+ymd+": "+err.Error(), map[string]interface{}{"date": ymd})
						continue
					}
					a.formatted(c14FamDates, "batch-denom", c14VBatch, out, "C01-001-"+ymd+"-"+ymd+"-001", "batch(project=C01-001, start=end="+ymd+", seq=1)")
					a.recover(c14FamDates, "GetProjectIDFromBatchDenom", out, base.GetProjectIDFromBatchDenom(out), "C01-001")
					a.recover(c14FamDates, "GetClassIDFromBatchDenom", out, base.GetClassIDFromBatchDenom(out), "C01")
				}
			}
		}
	})
	return days
}

var c14Exponents = []struct {
	exp    uint32
	prefix string
}{{0, ""}, {1, "d"}, {2, "c"}, {3, "m"}, {6, "u"}, {9, "n"}, {12, "p"}, {15, "f"}, {18, "a"}, {21, "z"}, {24, "y"}}

func c14BasketFormatted(total *c14Acc) int {
	names := []string{"NCT", "rNCT", "abc", "a1234567", "Zz9", "foo"}
	seen := map[string]string{}
	n := 0
	a := total
	for _, name := range names {
		for _, ab := range c14Abbrevs {
			for _, e := range c14Exponents {
				in := fmt.Sprintf("basket(name=%s, abbrev=%s, exponent=%d)", name, ab, e.exp)
				denom, display, err := basket.FormatBasketDenom(name, ab, e.exp)
				n++
				if err != nil {
					a.flag("C14/basket-denom-exponent-mapping", c14FamBasketFormatted, in, "FormatBasketDenom fails for the documented exponent: "+in+": "+err.Error(), map[string]interface{}{"input": in})
					continue
				}
				a.formatted(c14FamBasketFormatted, "basket-denom", c14VBasketDenom, denom, "eco."+e.prefix+ab+"."+name, in)
				a.formatted(c14FamBasketFormatted, "basket-denom", c14VBasketDenom, display, "eco."+ab+"."+name, in+" display denom")
				if prev, dup := seen[denom]; dup {
					a.flag("C14/formatted-ids-collide/basket-denom", c14FamBasketFormatted, denom, fmt.Sprintf("%s and %s are both formatted as %q", prev, in, denom), map[string]interface{}{"output": denom, "input_1": prev, "input_2": in})
				}
				seen[denom] = in
			}
		}
	}
	// exponents outside the documented table must be refused
	for _, e := range []uint32{4, 5, 7, 8, 10, 23, 25, 1 << 31, ^uint32(0)} {
		n++
		a.evals++
		a.famEvals[c14FamBasketFormatted]++
		if d, _, err := basket.FormatBasketDenom("NCT", "C", e); err == nil {
			in := fmt.Sprintf("basket(name=NCT, abbrev=C, exponent=%d)", e)
			a.flag("C14/basket-denom-exponent-mapping", c14FamBasketFormatted, in, fmt.Sprintf("FormatBasketDenom accepts exponent %d, which has no documented prefix, and returns %q", e, d), map[string]interface{}{"input": in, "output": d})
		}
	}
	return n
}

// ---------------------------------------------------------------------------
// family (b): arbitrary strings
// ---------------------------------------------------------------------------

func c14Pow(b, e int) int {
	r := 1
	for ; e > 0; e-- {
		r *= b
	}
	return r
}

// c14Short enumerates prefix + every string of length <= maxLen over alphabet.
func c14Short(total *c14Acc, fam int, prefix, alphabet string, maxLen int) int64 {
	var n int64
	for l := 0; l <= maxLen; l++ {
		cnt := c14Pow(len(alphabet), l)
		n += int64(cnt)
		ll := l
		c14Par(total, cnt, func(a *c14Acc, lo, hi int) {
			buf := make([]byte, len(prefix)+ll)
			copy(buf, prefix)
			for i := lo; i < hi; i++ {
				x := i
				for p := ll - 1; p >= 0; p-- {
					buf[len(prefix)+p] = alphabet[x%len(alphabet)]
					x /= len(alphabet)
				}
				a.check(fam, string(buf))
			}
		})
	}
	return n
}

// the "characters" used for edits: the 12 of the design plus '.', a newline and
// a non-ASCII decimal digit (U+0663)
// the last three are capital letters outside ASCII (Latin-1, Cyrillic, fullwidth)
var c14EditChars = []string{"A", "B", "Z", "a", "z", "0", "1", "9", "-", "_", " ", "/", ".", "\n", "٣", "É", "С", "Ａ"}

func c14Edits(s string, chars []string) []string {
	out := make([]string, 0, (2*len(s)+1)*len(chars)+len(s))
	for i := 0; i <= len(s); i++ {
		for _, c := range chars { // insert
			out = append(out, s[:i]+c+s[i:])
		}
	}
	for i := 0; i < len(s); i++ {
		out = append(out, s[:i]+s[i+1:]) // delete
		for _, c := range chars {        // replace
			if c != s[i:i+1] {
				out = append(out, s[:i]+c+s[i+1:])
			}
		}
	}
	return out
}

type c14PieceSet [][]string

func (p c14PieceSet) size() int {
	n := 1
	for _, x := range p {
		n *= len(x)
	}
	return n
}

func (p c14PieceSet) at(i int) string {
	var sb strings.Builder
	idx := make([]int, len(p))
	for k := len(p) - 1; k >= 0; k-- { // the first piece varies slowest
		idx[k] = i % len(p[k])
		i /= len(p[k])
	}
	for k := range p {
		sb.WriteString(p[k][idx[k]])
	}
	return sb.String()
}

func c14BatchPieces(tier string) c14PieceSet {
	if tier == "thorough" {
		return c14PieceSet{
			{"C", "AB", "ABC", "ABCD", "", "c", "Ç"},
			{"01", "1", "", "001", "100", "0000000000000000000000001", "0a", "٠١"},
			{"-", "", "--", "_", " -"},
			{"001", "01", "", "1000", "00a"},
			{"-", "", "_"},
			{"20200229", "2020022", "202002290", "99999999", "2020-02-", "20200a29", ""},
			{"-", "", "_"},
			{"00010101", "0001011", "99991331", ""},
			{"-", "", "_"},
			{"001", "01", "", "1000", "18446744073709551616", "001 ", "001\n"},
		}
	}
	return c14PieceSet{
		{"C", "ABC", "ABCD", "", "c"},
		{"01", "1", "", "100", "0a"},
		{"-", "", "_"},
		{"001", "01", "", "1000"},
		{"-", ""},
		{"20200229", "2020022", "202002290", "99999999", ""},
		{"-", ""},
		{"00010101", "0001011", ""},
		{"-", ""},
		{"001", "01", "", "1000", "001\n"},
	}
}

func c14BasketPieces() c14PieceSet {
	return c14PieceSet{
		{"eco", "ec", "Eco", "ecoo", ""},
		{".", "", "-", "X", "..", " ", "/"},
		{"C", "uC", "BIO", "mBIO", "yKSH", "ABCD", "uABCD", "c", "u", "", "C1", "abcd", "kC", "Cu"},
		{".", "", "-", "X", "..", " ", "/"},
		{"NCT", "ab", "a1234567", "a12345678", "1ab", "rNCT", "a-b", "abc ", "abc\n", "a.b", ""},
	}
}

// ---------------------------------------------------------------------------
// entry points
// ---------------------------------------------------------------------------

// C14Formats adds the format part of C14 to an outcome created by the caller:
// coverage under o.Coverage["formats"], findings appended to o.Findings.
func C14Formats(tier string, o *runner.Outcome) {
	if tier != "thorough" {
		tier = "quick"
	}
	begin := time.Now()
	total := newC14Acc()
	famN := map[string]interface{}{}

	// (a) formatted ids
	bases, counts := c14FormattedIDs(total, tier)
	days := c14AllDates(total, tier)
	counts["dates_formatted"] = days
	counts["basket_denoms_formatted"] = c14BasketFormatted(total)

	// (b) arbitrary strings
	shortLen, basketLen := 7, 7
	if tier == "thorough" {
		shortLen, basketLen = 9, 8
	}
	c14Short(total, c14FamShort, "", "AZa09-", shortLen)
	c14Short(total, c14FamBasketShort, "eco", ".Cua0-", basketLen)

	var e1 []string
	for _, b := range bases {
		e1 = append(e1, c14Edits(b, c14EditChars)...)
	}
	// the bare abbreviations too (their validator is the only gate of AddCreditType)
	for _, b := range c14Abbrevs {
		e1 = append(e1, c14Edits(b, c14EditChars)...)
	}
	c14Par(total, len(e1), func(a *c14Acc, lo, hi int) {
		for i := lo; i < hi; i++ {
			a.check(c14FamEdit1, e1[i])
		}
	})

	bp := c14BatchPieces(tier)
	c14Par(total, bp.size(), func(a *c14Acc, lo, hi int) {
		for i := lo; i < hi; i++ {
			a.check(c14FamPieces, bp.at(i))
		}
	})
	kp := c14BasketPieces()
	c14Par(total, kp.size(), func(a *c14Acc, lo, hi int) {
		for i := lo; i < hi; i++ {
			a.check(c14FamBasketPieces, kp.at(i))
		}
	})

	// double edits (thorough): every single edit of every single edit of a
	// dozen ids, over a smaller character set
	if tier == "thorough" {
		chars2 := []string{"A", "a", "0", "9", "-", "_", " ", "."}
		var first []string
		for _, b := range []string{bases[0], bases[3], bases[7], bases[8], bases[14], bases[17], bases[22], bases[35], bases[44], bases[46], bases[48]} {
			first = append(first, c14Edits(b, chars2)...)
		}
		c14Par(total, len(first), func(a *c14Acc, lo, hi int) {
			for i := lo; i < hi; i++ {
				for _, s := range c14Edits(first[i], chars2) {
					a.check(c14FamEdit2, s)
				}
			}
		})
	}

	// distinct accepted + cross-checked strings
	sort.Slice(total.hashes, func(i, j int) bool { return total.hashes[i] < total.hashes[j] })
	var distinct int64
	for i, h := range total.hashes {
		if i == 0 || h != total.hashes[i-1] {
			distinct++
		}
	}
	for i, n := range total.famEvals {
		famN[c14FamNames[i]] = n
	}
	acc := map[string]interface{}{}
	for i, n := range total.accepts {
		acc[c14ValidatorNames[i]] = n
	}

	// findings, one per kind, smallest input first
	var kinds []string
	for k := range total.cands {
		kinds = append(kinds, k)
	}
	sort.Strings(kinds)
	for _, k := range kinds {
		c := total.cands[k]
		bz, _ := json.Marshal(c.replay)
		o.Findings = append(o.Findings, runner.Finding{Kind: k, Detail: c.detail, Engine: "B", Where: "formats/" + c14FamNames[c.fam], Replay: bz})
	}

	sample := func(s string) map[string]interface{} {
		m := map[string]interface{}{"input": s}
		va := map[string]bool{
			"credit-type-abbreviation": base.ValidateCreditTypeAbbreviation(s) == nil, "class-id": base.ValidateClassID(s) == nil,
			"project-id": base.ValidateProjectID(s) == nil, "batch-denom": base.ValidateBatchDenom(s) == nil,
			"basket-name": basket.ValidateBasketName(s) == nil, "basket-denom": basket.ValidateBasketDenom(s) == nil,
		}
		_, rc := c14RecClassID(s)
		_, _, rpj := c14RecProjectID(s)
		_, _, _, _, _, rb := c14RecBatchDenom(s)
		bs, _ := c14RecBasketDenom(s)
		m["validators_accept"] = va
		m["recogniser_accepts"] = map[string]bool{"credit-type-abbreviation": c14RecAbbrev(s), "class-id": rc, "project-id": rpj, "batch-denom": rb, "basket-name": c14RecBasketName(s), "basket-denom": bs}
		if va["batch-denom"] {
			m["parsers"] = map[string]string{"class_id": base.GetClassIDFromBatchDenom(s), "project_id": base.GetProjectIDFromBatchDenom(s), "abbrev": base.GetCreditTypeAbbrevFromClassID(base.GetClassIDFromBatchDenom(s))}
		} else if va["project-id"] {
			m["parsers"] = map[string]string{"class_id": base.GetClassIDFromProjectID(s), "abbrev": base.GetCreditTypeAbbrevFromClassID(base.GetClassIDFromProjectID(s))}
		} else if va["class-id"] {
			m["parsers"] = map[string]string{"abbrev": base.GetCreditTypeAbbrevFromClassID(s)}
		}
		return m
	}
	samples := []interface{}{sample(bases[4]), sample(bases[10]), sample(bases[len(bases)-13]), sample(e1[len(e1)/3]), sample("A00-000"), sample(bp.at(bp.size() / 2)), sample(bases[len(bases)-1])}

	obs := []interface{}{
		"the doc comment of FormatClassID says the class sequence is 'padded to at least three digits' while its example (C01), the implementation (%02d) and the validator (2+ digits) use two; the recogniser follows the example (2+ digits)",
		"the formats put no upper bound on the number of sequence digits and the validators accept more padding than the formatters ever emit (non-canonical ids); both are recorded, not flagged",
	}
	addObs := func(text string, ob c14Obs) {
		if ob.n > 0 {
			obs = append(obs, map[string]interface{}{"observation": text, "occurrences": ob.n, "smallest_example": ob.ex})
		}
	}
	addObs("ValidateBatchDenom accepts 8-digit date fields that are not calendar dates (the documented format only says YYYYMMDD; the parsers are unaffected)", total.nonCalendar)
	addObs("validator-accepted id with more zero padding than the formatter emits (e.g. C001 next to C01)", total.nonCanonical)
	addObs("validator-accepted id whose sequence digits exceed uint64, which no formatter call can produce", total.beyondUint64)
	addObs("ValidateBasketDenom accepts strings whose three parts are not separated by '.' (unescaped dots in the regular expression of basket/utils.go); reported as a finding iff C14BasketSeparatorAsFinding", total.basketSeparator)
	addObs("ValidateBasketDenom accepts a dotted denom whose middle part is 1-4 letters but not <SI prefix><1-3 uppercase letters> (looseness announced by the code comment in basket/utils.go, documented format is eco.<prefix><credit_type_abbrev>.<name>)", total.basketLooseMiddle)

	o.Coverage["formats"] = map[string]interface{}{
		"evaluations":              total.evals,
		"distinct_nontrivial":      distinct,
		"rule":                     "every enumerated string is fed to all six validators (credit type abbreviation, class id, project id, batch denom, basket name, basket denom) and each verdict is compared with a hand-written recogniser of the documented grammar; on every accepted class id / project id / batch denom all Get*From* parsers are compared with the recogniser's decomposition and the recovered ids are re-validated. Families: (a) Format* outputs for 5 abbreviations x the sequence numbers x 5x5 dates (plus all 18278 abbreviations, every civil day of the enumerated years and all documented basket exponents), compared with the documented format built by hand, with collision sets; (b) all strings of length <= L over {A,Z,a,0,9,-}, 'eco'+all strings over {.,C,u,a,0,-}, every single-edit neighbour (15 characters) of ~50 formatted ids, products of valid and invalid grammar pieces, and (thorough) double-edit neighbours. distinct_nontrivial = number of distinct strings (by 64-bit FNV-1a, a collision can only under-count) accepted by the class-id, project-id or batch-denom validator and fully cross-checked with the parsers",
		"samples":                  samples,
		"exhaustive":               true,
		"evaluations_per_family":   famN,
		"formatted":                counts,
		"validator_acceptances":    acc,
		"max_length_short_strings": shortLen,
		"edit_base_ids":            bases,
		"single_edit_neighbours":   len(e1),
		"grammar_piece_products":   bp.size(),
		"basket_piece_products":    kp.size(),
		"observations":             obs,
		"finding_kinds":            kinds,
		"wall_s_formats":           time.Since(begin).Seconds(),
	}
}

// C14FormatsOnly runs the format part on its own (standalone testing).
func C14FormatsOnly(tier string) int {
	if tier != "thorough" {
		tier = "quick"
	}
	o := runner.New("C14", tier, "exploration")
	o.Assumptions = []string{
		"format part of C14 only (Engine B); uniqueness/consecutiveness over histories and reference resolution are checked by Engine A",
		"the oracle is the documented grammar (doc comments of x/ecocredit/base/utils.go and basket/utils.go, proto field comments); where the documentation is silent or self-contradictory the discrepancy is listed under coverage.formats.observations and not flagged",
	}
	C14Formats(tier, o)
	f := o.Coverage["formats"].(map[string]interface{})
	for _, k := range []string{"evaluations", "distinct_nontrivial", "rule", "samples", "exhaustive"} {
		o.Coverage[k] = f[k]
	}
	return o.Finish()
}
