// Package pure holds Engine B: bounded-exhaustive input enumerators for the
// properties that are statements about pure functions (C19 decimal
// arithmetic, C15 IRI <-> content hash conversion). Oracles are written with
// math/big and byte slices only; no helper of the implementation under test is
// used inside an oracle.
package pure

import (
	"fmt"
	"math/big"
	"reflect"
	"unsafe"

	rmath "github.com/regen-network/regen-ledger/types/v2/math"
)

// c19Mirror has the memory layout of apd.Decimal (cockroachdb/apd/v2), the
// only field of math.Dec. It is declared here instead of importing apd so that
// the harness go.mod is not touched; c19LayoutErr verifies the layout by
// reflection before anything relies on it.
type c19Mirror struct {
	Form     int // apd.Form: 0 = Finite, 1 = Infinite, 2 = NaNSignaling, 3 = NaN
	Negative bool
	Exponent int32
	Coeff    big.Int
}

// c19LayoutErr is non-nil if math.Dec no longer looks like struct{dec apd.Decimal}.
var c19LayoutErr = func() error {
	t := reflect.TypeOf(rmath.Dec{})
	if t.Kind() != reflect.Struct || t.NumField() != 1 || t.Field(0).Name != "dec" || t.Field(0).Offset != 0 {
		return fmt.Errorf("math.Dec is not struct{dec apd.Decimal}: %v", t)
	}
	dt := t.Field(0).Type
	mt := reflect.TypeOf(c19Mirror{})
	if dt.Kind() != reflect.Struct || dt.NumField() != mt.NumField() || dt.Size() != mt.Size() {
		return fmt.Errorf("apd.Decimal layout changed: %v", dt)
	}
	for i := 0; i < mt.NumField(); i++ {
		a, b := dt.Field(i), mt.Field(i)
		if a.Name != b.Name || a.Offset != b.Offset || a.Type.Kind() != b.Type.Kind() || a.Type.Size() != b.Type.Size() {
			return fmt.Errorf("apd.Decimal field %d is %s %v, mirror expects %s %v", i, a.Name, a.Type, b.Name, b.Type)
		}
	}
	if dt.Field(3).Type != reflect.TypeOf(big.Int{}) {
		return fmt.Errorf("apd.Decimal.Coeff is %v, not big.Int", dt.Field(3).Type)
	}
	if t.Size() != mt.Size() {
		return fmt.Errorf("math.Dec has size %d, mirror %d", t.Size(), mt.Size())
	}
	return nil
}()

// c19View gives read access to the internals of a Dec.
func c19View(d *rmath.Dec) *c19Mirror { return (*c19Mirror)(unsafe.Pointer(d)) }

// c19Snap is a deep snapshot of a Dec: header fields, every word of the
// coefficient's backing array up to its capacity, the identity of that backing
// array and the rendered string.
type c19Snap struct {
	form  int
	neg   bool
	exp   int32
	cneg  bool       // sign bit of the big.Int itself (apd keeps it false)
	words []big.Word // copy of Bits()[:cap]
	ln    int        // len(Bits())
	ptr   uintptr    // address of the backing array (0 if none)
	str   string
}

func c19TakeSnap(d *rmath.Dec) c19Snap {
	m := c19View(d)
	bits := m.Coeff.Bits()
	full := bits[:cap(bits)]
	s := c19Snap{form: m.Form, neg: m.Negative, exp: m.Exponent, cneg: m.Coeff.Sign() < 0, ln: len(bits), str: d.String()}
	s.words = make([]big.Word, len(full))
	copy(s.words, full)
	if cap(bits) > 0 {
		s.ptr = uintptr(unsafe.Pointer(unsafe.SliceData(full)))
	}
	return s
}

// check compares d with the snapshot. It returns a description of an
// observable difference ("" if none) and whether words beyond len (spare
// capacity, not observable) were overwritten.
func (s *c19Snap) check(d *rmath.Dec) (diff string, spare bool) {
	m := c19View(d)
	if m.Form != s.form || m.Negative != s.neg || m.Exponent != s.exp {
		return fmt.Sprintf("header changed: form %d->%d negative %v->%v exponent %d->%d", s.form, m.Form, s.neg, m.Negative, s.exp, m.Exponent), false
	}
	bits := m.Coeff.Bits()
	if len(bits) != s.ln || cap(bits) != len(s.words) {
		return fmt.Sprintf("coefficient slice header changed: len %d->%d cap %d->%d", s.ln, len(bits), len(s.words), cap(bits)), false
	}
	if (m.Coeff.Sign() < 0) != s.cneg {
		return "coefficient sign bit changed", false
	}
	full := bits[:cap(bits)]
	if cap(bits) > 0 && uintptr(unsafe.Pointer(unsafe.SliceData(full))) != s.ptr {
		return "coefficient backing array replaced", false
	}
	for i, w := range full {
		if w != s.words[i] {
			if i < s.ln {
				return fmt.Sprintf("coefficient word %d changed in place: %#x -> %#x", i, s.words[i], w), false
			}
			spare = true
		}
	}
	if str := d.String(); str != s.str {
		return fmt.Sprintf("String() changed: %q -> %q", s.str, str), spare
	}
	return "", spare
}

// overlaps reports whether d's coefficient shares memory with the snapshot's
// backing array (informational: the Dec API never mutates in place, so a
// shared array is only dangerous if some later operation writes through it,
// which the follow-up operations test).
func (s *c19Snap) overlaps(d *rmath.Dec) bool {
	if s.ptr == 0 {
		return false
	}
	bits := c19View(d).Coeff.Bits()
	if cap(bits) == 0 {
		return false
	}
	p := uintptr(unsafe.Pointer(unsafe.SliceData(bits[:cap(bits)])))
	ws := unsafe.Sizeof(big.Word(0))
	aLo, aHi := s.ptr, s.ptr+uintptr(len(s.words))*ws
	bLo, bHi := p, p+uintptr(cap(bits))*ws
	return aLo < bHi && bLo < aHi
}

// c19RatOf converts the internal representation to an exact rational
// (independent of String()). ok is false for non-finite forms.
func c19RatOf(d *rmath.Dec) (*big.Rat, bool) {
	m := c19View(d)
	if m.Form != 0 {
		return nil, false
	}
	c := new(big.Int).Set(&m.Coeff)
	if m.Negative {
		c.Neg(c)
	}
	r := new(big.Rat)
	switch {
	case m.Exponent == 0:
		r.SetInt(c)
	case m.Exponent > 0:
		r.SetInt(c.Mul(c, c19Pow10(int(m.Exponent))))
	default:
		r.SetFrac(c, c19Pow10(int(-m.Exponent)))
	}
	return r, true
}

// c19ScribbleInt overwrites every word of b's backing array in place (used to
// prove that integers returned by BigInt/SdkIntTrim do not share memory with
// the decimal they came from).
func c19ScribbleInt(b *big.Int) {
	if b == nil {
		return
	}
	bits := b.Bits()
	full := bits[:cap(bits)]
	for i := range full {
		full[i] = ^full[i]
	}
}
