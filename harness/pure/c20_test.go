package pure

import (
	"encoding/json"
	"os"
	"path/filepath"
	"testing"

	"verif/harness/runner"
)

func c20ReadEvidence(t *testing.T, id string) map[string]interface{} {
	t.Helper()
	bz, err := os.ReadFile(filepath.Join(runner.Root, "evidence", id+".json"))
	if err != nil {
		t.Fatal(err)
	}
	var ev map[string]interface{}
	if err := json.Unmarshal(bz, &ev); err != nil {
		t.Fatal(err)
	}
	return ev
}

func testC20(t *testing.T, tier string) {
	runner.Root = t.TempDir()
	code := C20(tier)
	ev := c20ReadEvidence(t, "C20")
	cov := ev["coverage"].(map[string]interface{})
	t.Logf("tier=%s exit=%d evaluations=%v distinct_nontrivial=%v expecting_send=%v expecting_no_send=%v panics=%v wall=%.2fs",
		tier, code, cov["evaluations"], cov["distinct_nontrivial"], cov["cases_expecting_a_send"], cov["cases_expecting_no_send_and_an_error"], cov["handler_panics"], ev["wall_s"])
	if code != 0 {
		t.Errorf("C20 %s: exit code %d (violations=%v)", tier, code, ev["violations"])
	}
	if cov["distinct_nontrivial"].(float64) <= 0 || cov["distinct_nontrivial"].(float64) != cov["cases_expecting_a_send"].(float64) {
		t.Errorf("every case expecting a send must be a distinct fully-checked packet: %v vs %v", cov["distinct_nontrivial"], cov["cases_expecting_a_send"])
	}
}

func TestC20Quick(t *testing.T) { testC20(t, "quick") }

func TestC20Thorough(t *testing.T) {
	if testing.Short() {
		t.Skip("thorough tier skipped in -short mode")
	}
	testC20(t, "thorough")
}

// TestC20OracleDetectsForeignPort checks the oracle itself: a deliberately wrong
// wire reader input and a wrong port must be noticed (guards against a vacuous
// enumerator).
func TestC20WireReader(t *testing.T) {
	// CosmosTx{messages: [Any{type_url:"/a", value: 0x01 0x02}]}
	raw := []byte{0x0a, 0x08, 0x0a, 0x02, '/', 'a', 0x12, 0x02, 0x01, 0x02}
	as, err := c20ParseCosmosTx(raw)
	if err != nil || len(as) != 1 || as[0].TypeURL != "/a" || len(as[0].Value) != 2 {
		t.Fatalf("wire reader: %v %v", as, err)
	}
	if _, err := c20ParseCosmosTx(append(raw, 0x10, 0x01)); err == nil {
		t.Fatal("wire reader must reject an unknown varint field")
	}
	two, err := c20ParseCosmosTx(append(append([]byte{}, raw...), raw...))
	if err != nil || len(two) != 2 {
		t.Fatalf("wire reader must see two messages: %v %v", two, err)
	}
}
