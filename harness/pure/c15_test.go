package pure

import (
	"os"
	"testing"

	data "github.com/regen-network/regen-ledger/x/data/v3"

	"verif/harness/runner"
)

func c15TestRoot(t *testing.T) {
	if os.Getenv("VERIF_ROOT") == "" {
		runner.Root = t.TempDir()
	}
}

// TestC15Quick runs the quick tier; the exit code is logged, not asserted:
// findings on the unchanged tree are reported through the runner.
func TestC15Quick(t *testing.T) {
	c15TestRoot(t)
	code := C15("quick")
	bz, _ := os.ReadFile(runner.Root + "/evidence/C15.json")
	t.Logf("exit=%d\n%s", code, bz)
}

func TestC15Thorough(t *testing.T) {
	if os.Getenv("VERIF_THOROUGH") == "" {
		t.Skip("set VERIF_THOROUGH=1")
	}
	c15TestRoot(t)
	code := C15("thorough")
	bz, _ := os.ReadFile(runner.Root + "/evidence/C15.json")
	t.Logf("exit=%d\n%s", code, bz)
}

// TestC15Builder checks the harness' own base58check input builder against
// the implementation on valid hashes (builder sanity, not an oracle) and
// against the vector in x/data/iri_test.go.
func TestC15Builder(t *testing.T) {
	for n := 20; n <= 64; n++ {
		h := c15Content(3, n)
		raw := data.ContentHash_Raw{Hash: h, DigestAlgorithm: 7, FileExtension: "txt"}
		want, err := raw.ToIRI()
		if err != nil {
			t.Fatal(err)
		}
		got := "regen:" + c15B58Check(0, append([]byte{0, 7}, h...)) + ".txt"
		if got != want {
			t.Fatalf("builder %q, implementation %q", got, want)
		}
		g := data.ContentHash_Graph{Hash: h, DigestAlgorithm: 3, CanonicalizationAlgorithm: 2, MerkleTree: 1}
		want, err = g.ToIRI()
		if err != nil {
			t.Fatal(err)
		}
		got = "regen:" + c15B58Check(0, append([]byte{1, 2, 1, 3}, h...)) + ".rdf"
		if got != want {
			t.Fatalf("builder %q, implementation %q", got, want)
		}
	}
}
