package pure

import (
	"fmt"
	"math/big"
	"runtime"
	"strings"
	"sync"

	rmath "github.com/regen-network/regen-ledger/types/v2/math"

	"verif/harness/ref"
)

// Aliasing exploration: a pool of decimals, every sequence of operations up to
// a depth where each step applies one operation to one or two pool members
// (all choices, with and without an explicit struct copy of the receiver) and
// appends the result to the pool. Every pool member has a ghost big.Rat and a
// deep snapshot; after every step every member must still be what it was.
// This targets the hazard named in dec.go: copying an apd.Decimal shares the
// big.Int array, so any in-place write would corrupt another value.

var c19AliasBase = []string{"1.5", "-0.000001", "9999999999999999999999999999.999999"}

const (
	c19UReduce = iota
	c19USdkIntTrim
	c19UBigInt
	c19UString
	c19UNumDecimalPlaces
	c19NumUnary
)

var c19UnaryNames = [c19NumUnary]string{"Reduce", "SdkIntTrim", "BigInt", "String", "NumDecimalPlaces"}

var c19AliasBinary = []int{c19OpAdd, c19OpSub, c19OpMul, c19OpMulExact, c19OpQuo, c19OpQuoExact, c19OpSafeAddBalance, c19OpSafeSubBalance}

type c19Step struct {
	binary  bool
	op      int
	i, j    int
	viaCopy bool
}

func (s c19Step) String() string {
	cp := ""
	if s.viaCopy {
		cp = "copy:"
	}
	if s.binary {
		return fmt.Sprintf("%s%s(p%d,p%d)", cp, c19OpNames[s.op], s.i, s.j)
	}
	return fmt.Sprintf("%s%s(p%d)", cp, c19UnaryNames[s.op], s.i)
}

func c19Steps(n int) []c19Step {
	var out []c19Step
	for _, cp := range []bool{false, true} {
		for _, op := range c19AliasBinary {
			for i := 0; i < n; i++ {
				for j := 0; j < n; j++ {
					out = append(out, c19Step{binary: true, op: op, i: i, j: j, viaCopy: cp})
				}
			}
		}
		for op := 0; op < c19NumUnary; op++ {
			for i := 0; i < n; i++ {
				out = append(out, c19Step{op: op, i: i, viaCopy: cp})
			}
		}
	}
	return out
}

type c19Member struct {
	d     rmath.Dec
	ghost *big.Rat
	snap  c19Snap
}

// C19AliasStats is reported as evidence.
type C19AliasStats struct {
	Depth          int      `json:"depth"`
	Pool           []string `json:"initial_pool"`
	Steps          int64    `json:"steps_executed"`
	Sequences      int64    `json:"sequences"`
	Appended       int64    `json:"results_added_to_pool"`
	Errors         int64    `json:"steps_returning_error"`
	MaxPool        int      `json:"max_pool_size"`
	MemberChecks   int64    `json:"pool_member_checks"`
	SharedWithPool int64    `json:"results_sharing_memory_with_a_member"`
	SampleSequence string   `json:"sample_sequence"`
}

type c19Alias struct {
	maxDepth int
	pool     []c19Member
	path     []c19Step
	col      *c19Collector
	st       C19AliasStats
	jobIdx   int
}

func (a *c19Alias) reset() {
	a.pool = a.pool[:0]
	for _, s := range c19AliasBase {
		d, err := rmath.NewDecFromString(s)
		if err != nil {
			panic("c19 alias base literal rejected: " + s)
		}
		a.pool = append(a.pool, c19Member{d: d, ghost: ref.MustRat(s)})
	}
	for k := range a.pool {
		a.pool[k].snap = c19TakeSnap(&a.pool[k].d)
	}
}

// rebuild re-executes the current path (minus its last step) on a fresh pool;
// used after a detected corruption so that exploration continues from sound
// values.
func (a *c19Alias) rebuild(upto int) {
	a.reset()
	for _, st := range a.path[:upto] {
		if !st.binary {
			if st.op != c19UReduce {
				continue
			}
			red, _ := a.pool[st.i].d.Reduce()
			a.push(red)
			continue
		}
		r := c19Apply(st.op, a.pool[st.i].d, a.pool[st.j].d)
		if !r.panicked && r.err == nil && c19View(&r.dec).Form == 0 {
			a.push(r.dec)
		}
	}
}

func (a *c19Alias) push(d rmath.Dec) {
	m := c19Member{d: d}
	m.ghost, _ = c19RatOf(&m.d)
	a.pool = append(a.pool, m)
	a.pool[len(a.pool)-1].snap = c19TakeSnap(&a.pool[len(a.pool)-1].d)
	if len(a.pool) > a.st.MaxPool {
		a.st.MaxPool = len(a.pool)
	}
}

func (a *c19Alias) pathText() string {
	parts := make([]string, len(a.path))
	for i, s := range a.path {
		parts[i] = s.String()
	}
	return strings.Join(parts, " ; ")
}

func (a *c19Alias) order() string {
	var sb strings.Builder
	sb.WriteString("2|")
	fmt.Fprintf(&sb, "%02d|%06d", len(a.path), a.jobIdx)
	for _, s := range a.path {
		cp := 0
		if s.viaCopy {
			cp = 1
		}
		b := 0
		if s.binary {
			b = 1
		}
		fmt.Fprintf(&sb, "|%d%d%02d%02d%02d", cp, b, s.op, s.i, s.j)
	}
	return sb.String()
}

func (a *c19Alias) report(kind, detail string) {
	a.col.add(kind, "alias-exploration", a.order(), func() (string, map[string]interface{}) {
		return fmt.Sprintf("pool %v, sequence [%s]: %s", c19AliasBase, a.pathText(), detail),
			map[string]interface{}{"initial_pool": c19AliasBase, "sequence": a.pathText()}
	})
}

// checkPool compares every member with its snapshot and ghost. It returns
// false if a member changed.
func (a *c19Alias) checkPool(kind string) bool {
	ok := true
	for k := range a.pool {
		a.st.MemberChecks++
		m := &a.pool[k]
		diff, _ := m.snap.check(&m.d)
		if diff == "" {
			// the rendered value must still denote the ghost
			if p, err := ref.Parse(m.snap.str); err != nil || p.R.Cmp(m.ghost) != 0 {
				diff = fmt.Sprintf("String() %q no longer denotes the ghost value %s", m.snap.str, c19RatText(m.ghost))
			}
		}
		if diff != "" {
			a.report(kind, fmt.Sprintf("pool member p%d (ghost value %s) was modified: %s", k, c19RatText(m.ghost), diff))
			ok = false
		}
	}
	return ok
}

// doStep executes the last step of a.path. It returns whether a value was
// appended to the pool.
func (a *c19Alias) doStep() bool {
	st := a.path[len(a.path)-1]
	a.st.Steps++
	a.st.Sequences++
	name := c19UnaryNames[0]
	if st.binary {
		name = c19OpNames[st.op]
	} else {
		name = c19UnaryNames[st.op]
	}
	defer func() {
		if len(a.pool) > 0 && a.st.MaxPool < len(a.pool) {
			a.st.MaxPool = len(a.pool)
		}
	}()
	x := a.pool[st.i].d
	if st.viaCopy {
		y := a.pool[st.i].d // explicit struct copy: shares the coefficient array with the member
		x = y
	}
	appended := false
	if st.binary {
		r := c19Apply(st.op, x, a.pool[st.j].d)
		ex := c19Exacts(a.pool[st.i].ghost, a.pool[st.j].ghost)
		vs, resR, _ := c19Judge(st.op, ex, &r)
		for _, v := range vs {
			kind := "C19/" + name + "/" + v.class
			if strings.HasPrefix(v.class, "render-") {
				kind = "C19/" + v.class
			}
			a.report(kind, fmt.Sprintf("%s of ghost values %s and %s: %s", name, c19RatText(ex.x), c19RatText(ex.y), v.detail))
		}
		if r.err != nil {
			a.st.Errors++
		}
		if !a.checkPool("C19/alias/pool-member-changed-by/" + name) {
			a.rebuild(len(a.path) - 1)
			return false
		}
		if !r.panicked && r.err == nil && resR != nil {
			for k := range a.pool {
				if a.pool[k].snap.overlaps(&r.dec) {
					a.st.SharedWithPool++
					break
				}
			}
			a.push(r.dec)
			appended = true
			a.st.Appended++
			for _, v := range c19FollowUps(a.pool[len(a.pool)-1].d, resR) {
				a.report(v.class, fmt.Sprintf("on the result of %s: %s", name, v.detail))
			}
		}
	} else {
		var pm string
		switch st.op {
		case c19UReduce:
			var red rmath.Dec
			pm = c19Catch(func() { red, _ = x.Reduce() })
			if pm == "" {
				if !a.checkPool("C19/alias/pool-member-changed-by/" + name) {
					a.rebuild(len(a.path) - 1)
					return false
				}
				a.push(red)
				appended = true
				a.st.Appended++
				resR, _ := c19RatOf(&red)
				for _, v := range c19FollowUps(a.pool[len(a.pool)-1].d, resR) {
					a.report(v.class, "on the result of Reduce: "+v.detail)
				}
			}
		case c19USdkIntTrim:
			if c19FitsSdkInt(a.pool[st.i].ghost) {
				pm = c19Catch(func() {
					si := x.SdkIntTrim()
					if want := c19Trunc(a.pool[st.i].ghost); si.BigIntMut().Cmp(want) != 0 {
						a.report("C19/SdkIntTrim/not-truncation-toward-zero", fmt.Sprintf("got %s for ghost value %s", si.BigIntMut(), c19RatText(a.pool[st.i].ghost)))
					}
					bi := si.BigIntMut()
					bi.Mul(bi, bi)
					c19ScribbleInt(bi)
				})
			}
		case c19UBigInt:
			pm = c19Catch(func() {
				bi, err := x.BigInt()
				if err == nil {
					bi.Mul(bi, bi)
					c19ScribbleInt(bi)
				}
			})
		case c19UString:
			pm = c19Catch(func() { _ = x.String() })
		case c19UNumDecimalPlaces:
			pm = c19Catch(func() { _ = x.NumDecimalPlaces() })
		}
		if pm != "" {
			a.report("C19/"+name+"/panic", "panic: "+pm)
		}
	}
	if !a.checkPool("C19/alias/pool-member-changed-after-use-of-result-of/" + name) {
		a.rebuild(len(a.path) - 1)
		return false
	}
	return appended
}

func (a *c19Alias) explore() {
	if len(a.path) >= a.maxDepth {
		return
	}
	for _, st := range c19Steps(len(a.pool)) {
		n := len(a.pool)
		a.path = append(a.path, st)
		if a.doStep() {
			if a.st.SampleSequence == "" && len(a.path) == a.maxDepth {
				a.st.SampleSequence = a.pathText() + " => pool " + a.poolText()
			}
			a.explore()
			a.pool = a.pool[:n]
		}
		a.path = a.path[:len(a.path)-1]
	}
}

func (a *c19Alias) poolText() string {
	parts := make([]string, len(a.pool))
	for i := range a.pool {
		parts[i] = a.pool[i].snap.str
	}
	return "[" + strings.Join(parts, ", ") + "]"
}

// c19AliasExplore runs the exploration with the first step as the unit of
// parallel work. Results are merged in job order, so the outcome does not
// depend on scheduling.
func c19AliasExplore(depth int, col *c19Collector) C19AliasStats {
	first := c19Steps(len(c19AliasBase))
	res := make([]*c19Alias, len(first))
	nw := runtime.GOMAXPROCS(0)
	var wg sync.WaitGroup
	jobs := make(chan int, len(first))
	for k := range first {
		jobs <- k
	}
	close(jobs)
	for w := 0; w < nw; w++ {
		wg.Add(1)
		go func() {
			defer wg.Done()
			for k := range jobs {
				a := &c19Alias{maxDepth: depth, col: newC19Collector(), jobIdx: k}
				a.reset()
				a.st.MaxPool = len(a.pool)
				n := len(a.pool)
				a.path = append(a.path, first[k])
				if a.doStep() {
					if a.st.SampleSequence == "" && len(a.path) == a.maxDepth {
						a.st.SampleSequence = a.pathText() + " => pool " + a.poolText()
					}
					a.explore()
					a.pool = a.pool[:n]
				}
				res[k] = a
			}
		}()
	}
	wg.Wait()
	total := C19AliasStats{Depth: depth, Pool: c19AliasBase}
	for _, a := range res {
		col.merge(a.col)
		total.Steps += a.st.Steps
		total.Sequences += a.st.Sequences
		total.Appended += a.st.Appended
		total.Errors += a.st.Errors
		total.MemberChecks += a.st.MemberChecks
		total.SharedWithPool += a.st.SharedWithPool
		if a.st.MaxPool > total.MaxPool {
			total.MaxPool = a.st.MaxPool
		}
		if total.SampleSequence == "" {
			total.SampleSequence = a.st.SampleSequence
		}
	}
	return total
}
