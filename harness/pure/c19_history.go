package pure

import (
	"fmt"
	"math/big"

	rmath "github.com/regen-network/regen-ledger/types/v2/math"
)

// History independence. The statement describes every operation as a function
// of its operands ("exact", "correct to 34 significant digits", "side-effect
// free"). An operation that changes package-level state (a shared arithmetic
// context, a cache) makes LATER results depend on EARLIER calls although every
// single result may still lie inside the stated tolerance — and two nodes with
// different histories then disagree. This phase is an exhaustive search over
// operation sequences of length two at the level of operation KINDS:
//
//	probe set P  = every binary operation x every ordered pair of a fixed probe
//	               literal list (values that need rounding in every direction)
//	baseline     = P evaluated before anything else in this process
//	for every operation kind k (constructors, unary operations, conversions,
//	binary operations) applied to every probe literal / pair:
//	               P evaluated again must be bit-identical to the baseline
//
// and once more after the pair enumeration and the aliasing exploration.
// On a pure implementation the comparison can never fail.

// c19ProbeLits are spellings whose products and quotients need rounding with
// discarded parts below, at and above half a unit, of both signs.
var c19ProbeLits = []string{
	"1", "2", "3", "6", "7", "9", "-3", "-7", "0", "-0", "0.5", "1.5", "2.5", "-2.5",
	"0.3333333333333333333333333333333333", "0.6666666666666666666666666666666667",
	"1234567890123456789012345678901234", "9999999999999999999999999999999999", "1000000000000000000000000000000001",
	"1e-6", "15e-1", "5e33", "1234567890123456789012345678901234567891e-30", "-123456789e-6", "1e40",
}

type c19Probe struct {
	decs []rmath.Dec
	base []string
}

func c19ResText(r c19Res) string {
	switch {
	case r.panicked:
		return "panic:" + r.panicMsg
	case !r.hasDec:
		return fmt.Sprintf("cmp=%d eq=%v", r.cmp, r.eq)
	case r.err != nil:
		return "error:" + r.err.Error()
	}
	m := c19View(&r.dec)
	return fmt.Sprintf("%s|form=%d neg=%v exp=%d", r.dec.String(), m.Form, m.Negative, m.Exponent)
}

func (p *c19Probe) eval() []string {
	out := make([]string, 0, c19NumOps*len(p.decs)*len(p.decs))
	for op := 0; op < c19NumOps; op++ {
		for i := range p.decs {
			for j := range p.decs {
				out = append(out, c19ResText(c19Apply(op, p.decs[i], p.decs[j])))
			}
		}
	}
	return out
}

func (p *c19Probe) describe(k int) (op int, x, y string) {
	n := len(p.decs)
	return k / (n * n), c19ProbeLits[(k/n)%n], c19ProbeLits[k%n]
}

// C19HistoryStats goes into the evidence.
type C19HistoryStats struct {
	ProbeEvaluations   int   `json:"probe_evaluations_per_pass"`
	EarlierKinds       int   `json:"earlier_operation_kinds"`
	Passes             int64 `json:"passes"`
	Comparisons        int64 `json:"comparisons"`
	ProbesNeedRounding int   `json:"probes_whose_result_was_rounded"`
}

func newC19Probe() *c19Probe {
	p := &c19Probe{}
	for _, s := range c19ProbeLits {
		d, err := rmath.NewDecFromString(s)
		if err != nil {
			panic("c19 probe literal rejected: " + s)
		}
		p.decs = append(p.decs, d)
	}
	p.base = p.eval()
	return p
}

// compare re-evaluates the probe set and reports the first difference per probed operation.
func (p *c19Probe) compare(after string, col *c19Collector, st *C19HistoryStats) {
	got := p.eval()
	st.Passes++
	st.Comparisons += int64(len(got))
	for k := range got {
		if got[k] == p.base[k] {
			continue
		}
		op, x, y := p.describe(k)
		kind := "C19/" + c19OpNames[op] + "/result-depends-on-earlier-calls"
		col.add(kind, "history", fmt.Sprintf("%06d", k), func() (string, map[string]interface{}) {
			return fmt.Sprintf("%s(%s, %s) returned %q at process start and %q after %s", c19OpNames[op], x, y, p.base[k], got[k], after),
				map[string]interface{}{"op": c19OpNames[op], "x": x, "y": y, "first": p.base[k], "later": got[k], "after": after}
		})
	}
}

// c19EarlierKinds are the operation kinds that are run between two evaluations of the probe set.
func c19EarlierKinds(p *c19Probe) []struct {
	name string
	run  func()
} {
	type kind = struct {
		name string
		run  func()
	}
	each := func(f func(d rmath.Dec)) func() {
		return func() {
			for _, d := range p.decs {
				func() {
					defer func() { _ = recover() }()
					f(d)
				}()
			}
		}
	}
	str := func(f func(s string)) func() {
		return func() {
			for _, s := range c19ProbeLits {
				func() {
					defer func() { _ = recover() }()
					f(s)
				}()
			}
		}
	}
	ks := []kind{
		{"NewDecFromString", str(func(s string) { _, _ = rmath.NewDecFromString(s) })},
		{"NewNonNegativeDecFromString", str(func(s string) { _, _ = rmath.NewNonNegativeDecFromString(s) })},
		{"NewNonNegativeFixedDecFromString", str(func(s string) { _, _ = rmath.NewNonNegativeFixedDecFromString(s, 6) })},
		{"NewPositiveDecFromString", str(func(s string) { _, _ = rmath.NewPositiveDecFromString(s) })},
		{"NewPositiveFixedDecFromString", str(func(s string) { _, _ = rmath.NewPositiveFixedDecFromString(s, 6) })},
		{"NewDecFromInt64", func() { _ = rmath.NewDecFromInt64(-7); _ = rmath.NewDecFromInt64(1 << 62) }},
		{"NewDecFinite", func() { _ = rmath.NewDecFinite(15, -1); _ = rmath.NewDecFinite(-3, 40) }},
		{"String", each(func(d rmath.Dec) { _ = d.String() })},
		{"Int64", each(func(d rmath.Dec) { _, _ = d.Int64() })},
		{"BigInt", each(func(d rmath.Dec) {
			if b, err := d.BigInt(); err == nil && b != nil {
				_ = new(big.Int).Set(b)
			}
		})},
		{"SdkIntTrim", each(func(d rmath.Dec) { _ = d.SdkIntTrim() })},
		{"IsZero/IsNegative/IsPositive/IsFinite", each(func(d rmath.Dec) { _, _, _, _ = d.IsZero(), d.IsNegative(), d.IsPositive(), d.IsFinite() })},
		{"NumDecimalPlaces", each(func(d rmath.Dec) { _ = d.NumDecimalPlaces() })},
		{"Reduce", each(func(d rmath.Dec) { _, _ = d.Reduce() })},
	}
	for op := 0; op < c19NumOps; op++ {
		op := op
		ks = append(ks, kind{c19OpNames[op], func() {
			for i := range p.decs {
				for j := range p.decs {
					_ = c19Apply(op, p.decs[i], p.decs[j])
				}
			}
		}})
	}
	return ks
}

// c19HistoryStart takes the baseline and runs the length-two sequences; the caller invokes
// compare again after the other phases.
// c19Baseline, if set, is the probe whose baseline was taken by C19Prepare before anything else ran in
// this process (the Engine A part of the check runs real handlers, which call into types/math).
var c19Baseline *c19Probe

// C19Prepare takes the history-independence baseline. Call it first in the process.
func C19Prepare() {
	if c19Baseline == nil {
		c19Baseline = newC19Probe()
	}
}

func c19HistoryStart(col *c19Collector) (*c19Probe, *C19HistoryStats) {
	p := c19Baseline
	if p == nil {
		p = newC19Probe()
	}
	st := &C19HistoryStats{ProbeEvaluations: len(p.base)}
	// how many probes exercise rounding at all (vacuity): Mul/Quo succeed where the exact versions refuse
	n := len(p.decs)
	for i := range p.decs {
		for j := range p.decs {
			if p.base[c19OpMul*n*n+i*n+j][:min(6, len(p.base[c19OpMul*n*n+i*n+j]))] != "error:" && len(p.base[c19OpMulExact*n*n+i*n+j]) >= 6 && p.base[c19OpMulExact*n*n+i*n+j][:6] == "error:" {
				st.ProbesNeedRounding++
			}
			if p.base[c19OpQuo*n*n+i*n+j][:min(6, len(p.base[c19OpQuo*n*n+i*n+j]))] != "error:" && len(p.base[c19OpQuoExact*n*n+i*n+j]) >= 6 && p.base[c19OpQuoExact*n*n+i*n+j][:6] == "error:" {
				st.ProbesNeedRounding++
			}
		}
	}
	if c19Baseline != nil {
		// whatever ran between C19Prepare and now (the exploration of the real handlers) is the first "earlier" history
		p.compare("the exploration of the marketplace handlers (Engine A part)", col, st)
	}
	ks := c19EarlierKinds(p)
	st.EarlierKinds = len(ks)
	for _, k := range ks {
		k.run()
		p.compare("a call of "+k.name, col, st)
	}
	return p, st
}
