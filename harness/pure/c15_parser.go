package pure

import (
	"fmt"
	"sync"
)

// Oracle 3 (parser side): for every input string s, if ParseIRI(s) succeeds
// and the parsed content hash passes Validate(), then ToIRI(parsed) == s.

// C15ParserStats is reported as evidence.
type C15ParserStats struct {
	BaseIRIs               int           `json:"base_iris"`
	Inputs                 int64         `json:"inputs_evaluated"`
	InputsDistinct         int64         `json:"inputs_distinct"`
	EditInputs             int64         `json:"single_character_edits"`
	SyntheticInputs        int64         `json:"synthetic_base58check_inputs"`
	OddInputs              int64         `json:"hand_written_inputs"`
	AcceptedDistinct       int64         `json:"accepted_distinct"`
	AcceptedValid          int64         `json:"accepted_and_valid"`
	AcceptedInvalid        int64         `json:"accepted_but_rejected_by_Validate"`
	ReencodedIdentical     int64         `json:"reencoded_identical"`
	SyntheticAccepted      int64         `json:"synthetic_accepted"`
	EditAccepted           int64         `json:"edits_accepted"`
	Panics                 int64         `json:"panics"`
	EditAlphabet           []string      `json:"edit_alphabet"`
	AcceptedInvalidSamples []string      `json:"accepted_but_invalid_samples"`
	PanicSamples           []string      `json:"panic_samples"`
	Samples                []interface{} `json:"-"`
}

type c15Input struct {
	s   string
	fam string // edit | synthetic | odd
}

var c15EditAlphabet = []string{"1", "2", "z", "A", "Z", ".", ":", "0", "l", "r", "x", "é", "世", "\xff"}

func c15BaseIRIs(t *c15Tables) []string {
	var out []string
	for _, n := range []int{20, 32, 64} {
		h := t.hash(c15Content(3, n))
		for _, d := range []uint32{1, 2, 255} {
			for _, e := range []string{"txt", "json", "a1", "zzzzzz"} {
				ch := t.build(c15Item{Digest: d, HashID: h, ExtID: t.ext(e)})
				if iri, err := ch.ToIRI(); err == nil {
					out = append(out, iri)
				}
			}
		}
		for _, c := range []uint32{1, 255} {
			for _, m := range []uint32{0, 1} {
				for _, d := range []uint32{1, 255} {
					ch := t.build(c15Item{Graph: true, Digest: d, C14n: c, Merkle: m, HashID: h})
					if iri, err := ch.ToIRI(); err == nil {
						out = append(out, iri)
					}
				}
			}
		}
	}
	return out
}

func c15ParserInputs(t *c15Tables) (inputs []c15Input, base []string) {
	base = c15BaseIRIs(t)
	inputs = c15OddInputs(base[0])
	for _, iri := range base {
		inputs = append(inputs, c15Input{iri, "edit"}) // the unedited IRI itself
		for pos := 0; pos <= len(iri); pos++ {
			for _, a := range c15EditAlphabet {
				inputs = append(inputs, c15Input{iri[:pos] + a + iri[pos:], "edit"}) // insertion
				if pos < len(iri) {
					inputs = append(inputs, c15Input{iri[:pos] + a + iri[pos+1:], "edit"}) // replacement
				}
			}
			if pos < len(iri) {
				inputs = append(inputs, c15Input{iri[:pos] + iri[pos+1:], "edit"}) // deletion
			}
		}
	}
	exts := []struct {
		dot bool
		ext string
	}{{false, ""}, {true, ""}, {true, "rdf"}, {true, "txt"}, {true, "a"}, {true, "toolong7"}, {true, "TXT"}, {true, "t.t"}, {true, "rdf."}, {true, "r f"}}
	for _, version := range []byte{0, 1} {
		for n := 0; n <= 70; n++ {
			for _, typ := range []byte{0, 1, 2, 255} {
				if n == 0 && typ != 0 {
					continue
				}
				for pat := 0; pat < 4; pat++ {
					payload := make([]byte, n)
					for i := range payload {
						switch pat {
						case 0:
							payload[i] = 1
						case 1:
							payload[i] = 0xFF
						case 2:
							payload[i] = byte(i)
						default:
							payload[i] = 0
						}
					}
					if n > 0 {
						payload[0] = typ
					}
					b58 := c15B58Check(version, payload)
					for _, e := range exts {
						s := "regen:" + b58
						if e.dot {
							s += "." + e.ext
						}
						inputs = append(inputs, c15Input{s, "synthetic"})
					}
				}
			}
		}
	}
	return inputs, base
}

// c15OddInputs are hand-written strings (simplest first).
func c15OddInputs(v string) (inputs []c15Input) {
	for _, s := range []string{"", "regen:", "regen:.", "regen:.rdf", "regen:1.rdf", "regen:11111.rdf", "regen", "rdf", ".", ":",
		"regen:é.rdf", "regen:世.rdf", "regen:\xff.rdf", "regen:世界.rdf", "regen:1234567890é.rdf", "regen:123456789é.rdf",
		"regen:regen:" + v[6:], " " + v, v + " ", v + "\n", "Regen:" + v[6:], "REGEN:" + v[6:], "regen: " + v[6:], "regen:/" + v[6:],
		"regen://" + v[6:], "cosmos:" + v[6:], v + ".", v + ".txt", "regen:" + v} {
		inputs = append(inputs, c15Input{s, "odd"})
	}
	return inputs
}

type c15ParseEval struct {
	accepted, valid, identical bool
	panicMsg                   string
	fail                       *c15Fail
	parsedText                 string
}

func c15EvalParser(s string) (ev c15ParseEval) {
	parsed, err, pmsg := c15ParseIRI(s)
	if pmsg != "" {
		ev.panicMsg = pmsg
		return ev
	}
	if err != nil || parsed == nil {
		return ev
	}
	ev.accepted = true
	if parsed.Validate() != nil {
		return ev
	}
	ev.valid = true
	back, terr := parsed.ToIRI()
	switch {
	case terr != nil:
		ev.fail = &c15Fail{"C15/parse/accepted-valid-hash-has-no-IRI", fmt.Sprintf("ParseIRI(%q) succeeds and the parsed hash validates, but ToIRI fails: %v", s, terr)}
	case back != s:
		ev.fail = &c15Fail{"C15/parse/accepted-IRI-reencodes-differently", fmt.Sprintf("ParseIRI(%q) succeeds and the parsed hash validates, but it re-encodes to %q", s, back)}
	default:
		ev.identical = true
	}
	return ev
}

func c15ParserSide(t *c15Tables, col *c15Collector, order *int64, nw int) C15ParserStats {
	inputs, base := c15ParserInputs(t)
	st := C15ParserStats{BaseIRIs: len(base), EditAlphabet: []string{}}
	for _, a := range c15EditAlphabet {
		st.EditAlphabet = append(st.EditAlphabet, fmt.Sprintf("%q", a))
	}
	evs := make([]c15ParseEval, len(inputs))
	var wg sync.WaitGroup
	chunk := (len(inputs) + nw - 1) / nw
	for w := 0; w < nw; w++ {
		lo, hi := w*chunk, (w+1)*chunk
		if hi > len(inputs) {
			hi = len(inputs)
		}
		if lo >= hi {
			continue
		}
		wg.Add(1)
		go func(lo, hi int) {
			defer wg.Done()
			for i := lo; i < hi; i++ {
				evs[i] = c15EvalParser(inputs[i].s)
			}
		}(lo, hi)
	}
	wg.Wait()
	seen := map[string]bool{}
	for i, in := range inputs {
		*order++
		st.Inputs++
		switch in.fam {
		case "edit":
			st.EditInputs++
		case "synthetic":
			st.SyntheticInputs++
		default:
			st.OddInputs++
		}
		first := !seen[in.s]
		seen[in.s] = true
		if first {
			st.InputsDistinct++
		}
		ev := evs[i]
		if ev.panicMsg != "" {
			st.Panics++
			if len(st.PanicSamples) < 6 && first {
				st.PanicSamples = append(st.PanicSamples, fmt.Sprintf("%q: %s", in.s, ev.panicMsg))
			}
			// A panic on a malformed IRI is a robustness observation, not a
			// violation of C15: the property speaks about IRIs the chain ACCEPTS
			// (a panicking parse accepts nothing). Counted and sampled only.
			continue
		}
		if !ev.accepted {
			continue
		}
		if first {
			st.AcceptedDistinct++
			if in.fam == "synthetic" {
				st.SyntheticAccepted++
			}
			if in.fam == "edit" {
				st.EditAccepted++
			}
			switch {
			case !ev.valid:
				st.AcceptedInvalid++
				if len(st.AcceptedInvalidSamples) < 6 {
					st.AcceptedInvalidSamples = append(st.AcceptedInvalidSamples, in.s)
				}
			default:
				st.AcceptedValid++
				if ev.identical {
					st.ReencodedIdentical++
					if len(st.Samples) < 3 && in.fam == "synthetic" {
						st.Samples = append(st.Samples, map[string]interface{}{"family": "parser/" + in.fam, "input": in.s, "accepted": true, "reencoded": "identical"})
					}
				}
			}
		}
		if ev.fail != nil {
			in, f := in, ev.fail
			col.add(f.kind, "parser/"+in.fam, *order, 1, func() (string, map[string]interface{}) {
				return f.detail, map[string]interface{}{"iri": in.s}
			})
		}
	}
	return st
}
