// Engine B enumerator for property C20: "intertx forwards exactly the owner's
// message over the owner's own ICA port".
//
// The REAL keeper.SubmitTx is driven with hand-written recording fakes of the
// ICAControllerKeeper and CapabilityKeeper interfaces over the full product
//
//	owner x connection x inner message shape x block time x channel
//	environment x capability environment x SendTx outcome x delivery
//
// and every call is compared with an oracle derived from the property text
// only (port = "icacontroller-"+owner, capability name =
// "capabilities/ports/<port>/channels/<channel>", timeout = block time + 60 s
// in ns). The packet is decoded twice: with icatypes.DeserializeCosmosTx and
// with a hand-written protobuf wire reader.
package pure

import (
	"bytes"
	"crypto/sha256"
	"encoding/hex"
	"encoding/json"
	"fmt"
	"math/big"
	"runtime"
	"sort"
	"strings"
	"sync"
	"time"

	"github.com/cometbft/cometbft/libs/log"
	tmproto "github.com/cometbft/cometbft/proto/tendermint/types"
	"github.com/cosmos/gogoproto/proto"

	sdkmath "cosmossdk.io/math"
	"github.com/cosmos/cosmos-sdk/codec"
	codectypes "github.com/cosmos/cosmos-sdk/codec/types"
	sdk "github.com/cosmos/cosmos-sdk/types"
	"github.com/cosmos/cosmos-sdk/types/bech32"
	"github.com/cosmos/cosmos-sdk/x/authz"
	banktypes "github.com/cosmos/cosmos-sdk/x/bank/types"
	capabilitytypes "github.com/cosmos/cosmos-sdk/x/capability/types"
	distrtypes "github.com/cosmos/cosmos-sdk/x/distribution/types"
	"github.com/cosmos/cosmos-sdk/x/feegrant"
	govv1 "github.com/cosmos/cosmos-sdk/x/gov/types/v1"
	govv1beta1 "github.com/cosmos/cosmos-sdk/x/gov/types/v1beta1"
	stakingtypes "github.com/cosmos/cosmos-sdk/x/staking/types"
	icatypes "github.com/cosmos/ibc-go/v7/modules/apps/27-interchain-accounts/types"
	ibctransfertypes "github.com/cosmos/ibc-go/v7/modules/apps/transfer/types"
	ibcclienttypes "github.com/cosmos/ibc-go/v7/modules/core/02-client/types"

	datatypes "github.com/regen-network/regen-ledger/x/data/v3"
	basetypes "github.com/regen-network/regen-ledger/x/ecocredit/v3/base/types/v1"
	baskettypes "github.com/regen-network/regen-ledger/x/ecocredit/v3/basket/types/v1"
	markettypes "github.com/regen-network/regen-ledger/x/ecocredit/v3/marketplace/types/v1"
	intertxkeeper "github.com/regen-network/regen-ledger/x/intertx/keeper"
	intertxtypes "github.com/regen-network/regen-ledger/x/intertx/types/v1"

	"verif/harness/chain"
	"verif/harness/runner"
)

// ---------------------------------------------------------------------------
// recording fakes
// ---------------------------------------------------------------------------

type c20Lookup struct{ Conn, Port string }

type c20Send struct {
	Cap     *capabilitytypes.Capability
	Conn    string
	Port    string
	Data    icatypes.InterchainAccountPacketData
	Timeout uint64
}

// c20Env is the modelled environment plus the recording of every call. One
// instance per evaluated case (never shared between goroutines).
type c20Env struct {
	active  map[string]string                      // port + "\x00" + connection -> channel id
	caps    map[string]*capabilitytypes.Capability // capability name -> capability
	sendErr error

	activeLookups []c20Lookup
	capLookups    []string
	sends         []c20Send
	otherCalls    []string
}

func c20Key(port, conn string) string { return port + "\x00" + conn }

type c20ICA struct{ e *c20Env }

func (f c20ICA) RegisterInterchainAccount(_ sdk.Context, connectionID, owner, version string) error {
	f.e.otherCalls = append(f.e.otherCalls, "RegisterInterchainAccount("+connectionID+","+owner+","+version+")")
	return nil
}

func (f c20ICA) GetActiveChannelID(_ sdk.Context, connectionID, portID string) (string, bool) {
	f.e.activeLookups = append(f.e.activeLookups, c20Lookup{Conn: connectionID, Port: portID})
	ch, ok := f.e.active[c20Key(portID, connectionID)]
	return ch, ok
}

func (f c20ICA) SendTx(_ sdk.Context, chanCap *capabilitytypes.Capability, connectionID, portID string, icaPacketData icatypes.InterchainAccountPacketData, timeoutTimestamp uint64) (uint64, error) {
	d := icaPacketData
	d.Data = append([]byte(nil), icaPacketData.Data...)
	f.e.sends = append(f.e.sends, c20Send{Cap: chanCap, Conn: connectionID, Port: portID, Data: d, Timeout: timeoutTimestamp})
	if f.e.sendErr != nil {
		return 0, f.e.sendErr
	}
	return uint64(len(f.e.sends)), nil
}

func (f c20ICA) GetInterchainAccountAddress(_ sdk.Context, connectionID string, portID string) (string, bool) {
	f.e.otherCalls = append(f.e.otherCalls, "GetInterchainAccountAddress("+connectionID+","+portID+")")
	return "", false
}

type c20Cap struct{ e *c20Env }

func (f c20Cap) ClaimCapability(_ sdk.Context, _ *capabilitytypes.Capability, name string) error {
	f.e.otherCalls = append(f.e.otherCalls, "ClaimCapability("+name+")")
	return nil
}

func (f c20Cap) GetCapability(_ sdk.Context, name string) (*capabilitytypes.Capability, bool) {
	f.e.capLookups = append(f.e.capLookups, name)
	c, ok := f.e.caps[name]
	return c, ok
}

var (
	_ intertxkeeper.ICAControllerKeeper = c20ICA{}
	_ intertxkeeper.CapabilityKeeper    = c20Cap{}
)

// ---------------------------------------------------------------------------
// input families
// ---------------------------------------------------------------------------

type c20Owner struct {
	Name string
	Addr []byte // the account the owner string denotes
	Str  string // the owner string placed in the message
	// Foreign: a well-formed bech32 string that is NOT an account address of this chain (another prefix).
	// It names no signer, so the stateless validation must refuse it; nothing else is judged for it.
	Foreign bool
}

func c20Owners(tier string) []c20Owner {
	chain.InitSDKConfig()
	prefix := sdk.GetConfig().GetBech32AccountAddrPrefix()
	mk := func(name string, bz []byte) c20Owner {
		s, err := bech32.ConvertAndEncode(prefix, bz)
		if err != nil {
			panic(err)
		}
		return c20Owner{Name: name, Addr: bz, Str: s}
	}
	seq := func(n int, start byte) []byte {
		bz := make([]byte, n)
		for i := range bz {
			bz[i] = start + byte(i)
		}
		return bz
	}
	o := []c20Owner{
		mk("A20", bytes.Repeat([]byte{0x11}, 20)),
		mk("B20", seq(20, 0xA0)),
		mk("C32", seq(32, 0x01)),
		mk("L64", seq(64, 0x40)), // 64 bytes: the port id "icacontroller-"+owner is longer than 128 characters
	}
	// bech32 also admits the all-upper-case spelling: same account (same
	// signer) but a different owner STRING, hence a different port.
	up := o[0]
	up.Name = "A20-uppercase-spelling"
	up.Str = strings.ToUpper(up.Str)
	o = append(o, up)
	if fs, err := bech32.ConvertAndEncode("cosmos", o[0].Addr); err == nil {
		o = append(o, c20Owner{Name: "A20-with-the-prefix-of-another-chain", Addr: o[0].Addr, Str: fs, Foreign: true})
	}
	if tier == "thorough" {
		o = append(o, mk("D32", bytes.Repeat([]byte{0xFE}, 32)))
	}
	return o
}

func c20Connections(tier string) []string {
	if tier == "thorough" {
		return []string{"connection-0", "connection-1", "connection-999", "connection-0 ", " connection-1"}
	}
	// the last one differs from the first only by a trailing blank: another connection id
	return []string{"connection-0", "connection-1", "connection-0 "}
}

type c20Time struct {
	Name string
	T    time.Time
}

func c20Times(tier string) []c20Time {
	ts := []c20Time{
		{"epoch+1s", time.Unix(1, 0).UTC()},
		{"2024-01-01", time.Date(2024, 1, 1, 0, 0, 0, 0, time.UTC)},
		// max int64 ns is 2262-04-11T23:47:16.854775807Z; +1 min still fits
		{"2262-04-11T23:45:00Z", time.Date(2262, 4, 11, 23, 45, 0, 0, time.UTC)},
		{"35235s+30ns", time.Unix(35235, 30).UTC()}, // a sub-second part
	}
	if tier == "thorough" {
		ts = append(ts,
			c20Time{"2031-03-04T05:06:07.999999999Z", time.Date(2031, 3, 4, 5, 6, 7, 999999999, time.UTC)},
			c20Time{"epoch", time.Unix(0, 0).UTC()},
			// block time + 60 s == MaxInt64 ns exactly
			c20Time{"2262-04-11T23:46:16.854775807Z", time.Date(2262, 4, 11, 23, 46, 16, 854775807, time.UTC)},
			c20Time{"2030-06-15T12:00+05:30", time.Date(2030, 6, 15, 12, 0, 0, 0, time.FixedZone("IST", 5*3600+1800))},
			c20Time{"2100-02-28T23:59:30.5Z", time.Date(2100, 2, 28, 23, 59, 30, 500000000, time.UTC)},
		)
	}
	return ts
}

// channel environments
const (
	c20EnvOwn       = iota // only (own port, this connection)
	c20EnvOtherPort        // only other owners' ports, on every connection
	c20EnvOtherConn        // own port, but only on the other connections
	c20EnvNone             // nothing
	c20EnvAll              // everything (own + foreign ports, all connections)
	c20NumEnv
)

var c20EnvNames = []string{"own-port-this-connection", "only-other-owners-ports", "own-port-only-other-connections", "none", "all-ports-all-connections"}

// capability environments
const (
	c20CapAll     = iota // a capability for every (port, channel) pair of the universe
	c20CapNone           // none
	c20CapForeign        // only for other owners' ports
	c20NumCap
)

var c20CapNames = []string{"all-present", "absent", "only-other-owners-capabilities"}

var c20DeliveryNames = []string{"in-memory", "wire-roundtrip"}

// c20Shape builds a fresh inner message (never shared between cases).
type c20Shape struct {
	Name  string
	Build func(owner, other string) sdk.Msg
}

func c20MustAny(m proto.Message) *codectypes.Any {
	a, err := codectypes.NewAnyWithValue(m)
	if err != nil {
		panic(err)
	}
	return a
}

func c20BankSend(from, to string, coins ...sdk.Coin) *banktypes.MsgSend {
	return &banktypes.MsgSend{FromAddress: from, ToAddress: to, Amount: coins}
}

func c20EcoSend(from, to string) *basetypes.MsgSend {
	return &basetypes.MsgSend{Sender: from, Recipient: to, Credits: []*basetypes.MsgSend_SendCredits{
		{BatchDenom: "C01-001-20200101-20210101-001", TradableAmount: "10.5"},
		{BatchDenom: "BIO02-003-20200101-20210101-1001", TradableAmount: "0", RetiredAmount: "0.000001", RetirementJurisdiction: "US-WA 98225", RetirementReason: "offset"},
	}}
}

func c20Shapes(tier string) []c20Shape {
	coin := func(d string, n int64) sdk.Coin { return sdk.Coin{Denom: d, Amount: sdkmath.NewInt(n)} }
	long := strings.Repeat("a", 64*1024)
	longU := strings.Repeat("é世\U0001F30D", 4096)
	t1 := time.Date(2020, 2, 29, 12, 30, 15, 123456789, time.UTC)
	t2 := time.Date(9999, 12, 31, 23, 59, 59, 999999999, time.UTC)
	max256 := new(big.Int).Sub(new(big.Int).Lsh(big.NewInt(1), 256), big.NewInt(1))

	quick := []c20Shape{
		{"bank-send-0-coins", func(o, x string) sdk.Msg { return c20BankSend(o, x) }},
		{"bank-send-1-coin", func(o, x string) sdk.Msg { return c20BankSend(o, x, coin("uregen", 10)) }},
		{"bank-send-2-coins", func(o, x string) sdk.Msg { return c20BankSend(o, x, coin("stake", 5), coin("uregen", 7)) }},
		{"bank-send-empty-strings", func(o, x string) sdk.Msg { return c20BankSend("", "", coin("", 1)) }},
		{"bank-send-very-long-strings", func(o, x string) sdk.Msg { return c20BankSend(long, longU, coin(long[:10000], 1)) }},
		{"ecocredit-send", func(o, x string) sdk.Msg { return c20EcoSend(o, x) }},
		{"authz-exec-wrapping-bank-send", func(o, x string) sdk.Msg {
			return &authz.MsgExec{Grantee: o, Msgs: []*codectypes.Any{c20MustAny(c20BankSend(x, o, coin("uregen", 3)))}}
		}},
		{"gov-v1-submit-proposal-with-2-messages", func(o, x string) sdk.Msg {
			return &govv1.MsgSubmitProposal{
				Messages:       []*codectypes.Any{c20MustAny(c20BankSend(o, x, coin("uregen", 1))), c20MustAny(c20EcoSend(o, x))},
				InitialDeposit: sdk.Coins{coin("uregen", 1000000)},
				Proposer:       o, Metadata: "ipfs://meta", Title: "t", Summary: "s",
			}
		}},
		{"zero-value-bank-send", func(o, x string) sdk.Msg { return &banktypes.MsgSend{} }},
		// registered messages of the newer style, WITHOUT the legacy Route/Type/GetSignBytes methods
		{"bank-update-params-(no-legacy-methods)", func(o, x string) sdk.Msg {
			return &banktypes.MsgUpdateParams{Authority: o, Params: banktypes.Params{DefaultSendEnabled: true}}
		}},
		{"bank-set-send-enabled-(no-legacy-methods)", func(o, x string) sdk.Msg {
			return &banktypes.MsgSetSendEnabled{Authority: o, SendEnabled: []*banktypes.SendEnabled{{Denom: "uregen", Enabled: false}}, UseDefaultFor: []string{"stake"}}
		}},
		{"zero-value-ecocredit-create-batch", func(o, x string) sdk.Msg { return &basetypes.MsgCreateBatch{} }},
		{"bank-send-from-another-owner", func(o, x string) sdk.Msg { return c20BankSend(x, o, coin("uregen", 99)) }},
		{"intertx-submit-tx-of-another-owner-nested", func(o, x string) sdk.Msg {
			return &intertxtypes.MsgSubmitTx{Owner: x, ConnectionId: "connection-1", Msg: c20MustAny(c20BankSend(x, o, coin("uregen", 1)))}
		}},
	}
	if tier != "thorough" {
		return quick
	}
	more := []c20Shape{
		{"bank-multisend", func(o, x string) sdk.Msg {
			return &banktypes.MsgMultiSend{
				Inputs:  []banktypes.Input{{Address: o, Coins: sdk.Coins{coin("uregen", 3)}}},
				Outputs: []banktypes.Output{{Address: x, Coins: sdk.Coins{coin("uregen", 1)}}, {Address: o, Coins: sdk.Coins{coin("uregen", 2)}}},
			}
		}},
		{"bank-send-negative-and-256-bit-amounts", func(o, x string) sdk.Msg {
			return c20BankSend(o, x, coin("neg", -5), sdk.Coin{Denom: "big", Amount: sdkmath.NewIntFromBigInt(max256)}, coin("zero", 0))
		}},
		{"bank-send-unicode-and-nul-strings", func(o, x string) sdk.Msg {
			return c20BankSend("a\x00b", "é世\U0001F30D \t\n", coin("ibc/27394FB092D2ECCD56123C74F36E4C1F926001CEADA9CA97EA622B25F41E5EB2", 1))
		}},
		{"authz-exec-depth-2", func(o, x string) sdk.Msg {
			inner := &authz.MsgExec{Grantee: x, Msgs: []*codectypes.Any{c20MustAny(c20BankSend(o, x, coin("uregen", 3)))}}
			return &authz.MsgExec{Grantee: o, Msgs: []*codectypes.Any{c20MustAny(inner), c20MustAny(c20EcoSend(x, o))}}
		}},
		{"authz-exec-no-messages", func(o, x string) sdk.Msg { return &authz.MsgExec{Grantee: o} }},
		{"authz-grant-generic-with-expiration", func(o, x string) sdk.Msg {
			e := t1
			return &authz.MsgGrant{Granter: o, Grantee: x, Grant: authz.Grant{
				Authorization: c20MustAny(&authz.GenericAuthorization{Msg: "/cosmos.bank.v1beta1.MsgSend"}), Expiration: &e}}
		}},
		{"authz-revoke", func(o, x string) sdk.Msg {
			return &authz.MsgRevoke{Granter: o, Grantee: x, MsgTypeUrl: "/regen.ecocredit.v1.MsgSend"}
		}},
		{"gov-v1-vote", func(o, x string) sdk.Msg {
			return &govv1.MsgVote{ProposalId: ^uint64(0), Voter: o, Option: govv1.OptionNoWithVeto, Metadata: "m"}
		}},
		{"gov-v1-deposit", func(o, x string) sdk.Msg {
			return &govv1.MsgDeposit{ProposalId: 7, Depositor: o, Amount: []sdk.Coin{coin("uregen", 5)}}
		}},
		{"gov-v1beta1-submit-text-proposal", func(o, x string) sdk.Msg {
			return &govv1beta1.MsgSubmitProposal{Content: c20MustAny(&govv1beta1.TextProposal{Title: "T", Description: "D"}),
				InitialDeposit: sdk.Coins{coin("uregen", 1)}, Proposer: o}
		}},
		{"gov-v1-submit-proposal-no-messages", func(o, x string) sdk.Msg {
			return &govv1.MsgSubmitProposal{Proposer: o, Title: "only text", Summary: "s"}
		}},
		{"staking-delegate", func(o, x string) sdk.Msg {
			return &stakingtypes.MsgDelegate{DelegatorAddress: o, ValidatorAddress: "regenvaloper1xyz", Amount: coin("uregen", 100)}
		}},
		{"staking-undelegate", func(o, x string) sdk.Msg {
			return &stakingtypes.MsgUndelegate{DelegatorAddress: o, ValidatorAddress: "regenvaloper1xyz", Amount: coin("uregen", 1)}
		}},
		{"distribution-withdraw-delegator-reward", func(o, x string) sdk.Msg {
			return &distrtypes.MsgWithdrawDelegatorReward{DelegatorAddress: o, ValidatorAddress: "regenvaloper1xyz"}
		}},
		{"distribution-set-withdraw-address-to-another-owner", func(o, x string) sdk.Msg {
			return &distrtypes.MsgSetWithdrawAddress{DelegatorAddress: o, WithdrawAddress: x}
		}},
		// (x/group cannot be linked next to cosmos-sdk/orm: both register the
		// error codespace "orm"; a fee allowance is the nested-Any stand-in)
		{"feegrant-grant-allowance-nested", func(o, x string) sdk.Msg {
			e := t1
			return &feegrant.MsgGrantAllowance{Granter: o, Grantee: x,
				Allowance: c20MustAny(&feegrant.BasicAllowance{SpendLimit: sdk.Coins{coin("uregen", 8)}, Expiration: &e})}
		}},
		{"ibc-transfer", func(o, x string) sdk.Msg {
			return &ibctransfertypes.MsgTransfer{SourcePort: "transfer", SourceChannel: "channel-0", Token: coin("uregen", 12), Sender: o, Receiver: x,
				TimeoutHeight: ibcclienttypes.Height{RevisionNumber: 1, RevisionHeight: 1000}, TimeoutTimestamp: ^uint64(0), Memo: "{\"forward\":{}}"}
		}},
		{"ecocredit-retire", func(o, x string) sdk.Msg {
			return &basetypes.MsgRetire{Owner: o, Credits: []*basetypes.Credits{{BatchDenom: "C01-001-20200101-20210101-001", Amount: "1.25"}}, Jurisdiction: "FR", Reason: "r"}
		}},
		{"ecocredit-cancel", func(o, x string) sdk.Msg {
			return &basetypes.MsgCancel{Owner: o, Credits: []*basetypes.Credits{{BatchDenom: "C01-001-20200101-20210101-001", Amount: "3"}, {}}, Reason: "transfer to registry"}
		}},
		{"ecocredit-create-class-with-fee", func(o, x string) sdk.Msg {
			f := coin("uregen", 20000000)
			return &basetypes.MsgCreateClass{Admin: o, Issuers: []string{o, x, ""}, Metadata: "regen:13toVgf5UjYBz6J29x28pLQyywKAzQXHgAgNK5ZCVSQdt1Y4Vbm5Vbu.rdf", CreditTypeAbbrev: "C", Fee: &f}
		}},
		{"ecocredit-create-batch-with-dates-and-origin-tx", func(o, x string) sdk.Msg {
			s, e := t1, t2
			return &basetypes.MsgCreateBatch{Issuer: o, ProjectId: "C01-001", Issuance: []*basetypes.BatchIssuance{
				{Recipient: x, TradableAmount: "100", RetiredAmount: "0"},
				{Recipient: o, TradableAmount: "0", RetiredAmount: "5.5", RetirementJurisdiction: "US", RetirementReason: "x"}},
				Metadata: "m", StartDate: &s, EndDate: &e, Open: true,
				OriginTx: &basetypes.OriginTx{Id: "0x7a70692a348e8688f54ab2bdfe87d925d8cc88932520492a11eaa02dc128243e", Source: "polygon", Contract: "0x0E65079a29d7793ab5CA500c2d88e60EE99bA606", Note: "n"}}
		}},
		{"basket-put", func(o, x string) sdk.Msg {
			return &baskettypes.MsgPut{Owner: o, BasketDenom: "eco.uC.NCT", Credits: []*baskettypes.BasketCredit{{BatchDenom: "C01-001-20200101-20210101-001", Amount: "2"}}}
		}},
		{"basket-take", func(o, x string) sdk.Msg {
			return &baskettypes.MsgTake{Owner: o, BasketDenom: "eco.uC.NCT", Amount: "1000000", RetireOnTake: true, RetirementJurisdiction: "US-OR", RetirementReason: "r"}
		}},
		{"marketplace-sell-with-expiration", func(o, x string) sdk.Msg {
			p, e := coin("uregen", 30), t2
			return &markettypes.MsgSell{Seller: o, Orders: []*markettypes.MsgSell_Order{
				{BatchDenom: "C01-001-20200101-20210101-001", Quantity: "10", AskPrice: &p, DisableAutoRetire: true, Expiration: &e}, {}}}
		}},
		{"data-anchor-raw-hash", func(o, x string) sdk.Msg {
			return &datatypes.MsgAnchor{Sender: o, ContentHash: &datatypes.ContentHash{Raw: &datatypes.ContentHash_Raw{
				Hash: bytes.Repeat([]byte{0x00, 0xFF}, 16), DigestAlgorithm: 1, FileExtension: "pdf"}}}
		}},
		{"intertx-register-account", func(o, x string) sdk.Msg {
			return &intertxtypes.MsgRegisterAccount{Owner: x, ConnectionId: "connection-0", Version: "v"}
		}},
		{"intertx-submit-tx-depth-2", func(o, x string) sdk.Msg {
			in := &intertxtypes.MsgSubmitTx{Owner: o, ConnectionId: "connection-0", Msg: c20MustAny(c20BankSend(o, x, coin("uregen", 1)))}
			return &intertxtypes.MsgSubmitTx{Owner: x, ConnectionId: "connection-1", Msg: c20MustAny(in)}
		}},
		{"ecocredit-send-with-empty-sub-messages", func(o, x string) sdk.Msg {
			return &basetypes.MsgSend{Sender: o, Recipient: x, Credits: []*basetypes.MsgSend_SendCredits{{}, {}, {BatchDenom: "x"}}}
		}},
	}
	return append(quick, more...)
}

var (
	c20RegOnce sync.Once
	c20Reg     codectypes.InterfaceRegistry
	c20Cdc     *codec.ProtoCodec
)

func c20Codec() (*codec.ProtoCodec, codectypes.InterfaceRegistry) {
	c20RegOnce.Do(func() {
		ir := codectypes.NewInterfaceRegistry()
		banktypes.RegisterInterfaces(ir)
		authz.RegisterInterfaces(ir)
		govv1.RegisterInterfaces(ir)
		govv1beta1.RegisterInterfaces(ir)
		stakingtypes.RegisterInterfaces(ir)
		distrtypes.RegisterInterfaces(ir)
		feegrant.RegisterInterfaces(ir)
		ibctransfertypes.RegisterInterfaces(ir)
		basetypes.RegisterTypes(ir)
		baskettypes.RegisterTypes(ir)
		markettypes.RegisterTypes(ir)
		datatypes.RegisterTypes(ir)
		intertxtypes.RegisterTypes(ir)
		c20Reg = ir
		c20Cdc = codec.NewProtoCodec(ir)
	})
	return c20Cdc, c20Reg
}

// ---------------------------------------------------------------------------
// hand-written protobuf wire reader for CosmosTx{repeated Any messages = 1}
// and Any{string type_url = 1; bytes value = 2}
// ---------------------------------------------------------------------------

func c20Varint(b []byte) (uint64, int) {
	var v uint64
	for i := 0; i < len(b) && i < 10; i++ {
		v |= uint64(b[i]&0x7f) << (7 * uint(i))
		if b[i] < 0x80 {
			return v, i + 1
		}
	}
	return 0, 0
}

type c20RawAny struct {
	TypeURL string
	Value   []byte
}

// c20LenFields splits a message that must consist of length-delimited fields
// only and returns (field number, payload) in wire order.
func c20LenFields(b []byte) ([]int, [][]byte, error) {
	var nums []int
	var vals [][]byte
	for len(b) > 0 {
		tag, n := c20Varint(b)
		if n == 0 {
			return nil, nil, fmt.Errorf("bad tag varint")
		}
		b = b[n:]
		if tag&7 != 2 {
			return nil, nil, fmt.Errorf("field %d has wire type %d, want 2", tag>>3, tag&7)
		}
		l, n := c20Varint(b)
		if n == 0 || uint64(len(b)-n) < l {
			return nil, nil, fmt.Errorf("bad length of field %d", tag>>3)
		}
		nums = append(nums, int(tag>>3))
		vals = append(vals, b[n:n+int(l)])
		b = b[n+int(l):]
	}
	return nums, vals, nil
}

func c20ParseCosmosTx(data []byte) ([]c20RawAny, error) {
	nums, vals, err := c20LenFields(data)
	if err != nil {
		return nil, fmt.Errorf("CosmosTx: %w", err)
	}
	var out []c20RawAny
	for i, f := range nums {
		if f != 1 {
			return nil, fmt.Errorf("CosmosTx: unexpected field %d", f)
		}
		an, av, err := c20LenFields(vals[i])
		if err != nil {
			return nil, fmt.Errorf("Any: %w", err)
		}
		var a c20RawAny
		for j, g := range an {
			switch g {
			case 1:
				a.TypeURL = string(av[j])
			case 2:
				a.Value = av[j]
			default:
				return nil, fmt.Errorf("Any: unexpected field %d", g)
			}
		}
		out = append(out, a)
	}
	return out, nil
}

// ---------------------------------------------------------------------------
// the enumerator
// ---------------------------------------------------------------------------

type c20Case struct {
	Index    int    `json:"index"`
	Owner    string `json:"owner"`
	OwnerTag string `json:"owner_tag"`
	Conn     string `json:"connection"`
	Shape    string `json:"inner_message_shape"`
	Time     string `json:"block_time"`
	Env      string `json:"channel_environment"`
	Cap      string `json:"capability_environment"`
	SendFail bool   `json:"send_tx_returns_error"`
	Delivery string `json:"delivery"`
}

type c20Result struct {
	findings []c20Found
	sent     [][32]byte // content keys of fully checked sent packets
	sample   map[string]interface{}
	panicked bool
	expSend  bool
	lookups  int
	others   int
	warmRuns int
}

type c20Found struct {
	idx    int
	kind   string
	detail string
	c      c20Case
	extra  map[string]interface{}
}

type c20Dims struct {
	owners []c20Owner
	conns  []string
	shapes []c20Shape
	times  []c20Time
}

func (d *c20Dims) size() int {
	return len(d.owners) * len(d.conns) * len(d.shapes) * len(d.times) * c20NumEnv * c20NumCap * 2 * 2
}

// decode splits a case index; the slowest-varying dimension is the message
// shape and the fastest the environment, so that low indices are the simplest
// cases (first finding per kind = simplest case).
func (d *c20Dims) decode(i int) (si, oi, ci, ti, dl, sf, cp, ev int) {
	ev = i % c20NumEnv
	i /= c20NumEnv
	cp = i % c20NumCap
	i /= c20NumCap
	sf = i % 2
	i /= 2
	dl = i % 2
	i /= 2
	ti = i % len(d.times)
	i /= len(d.times)
	ci = i % len(d.conns)
	i /= len(d.conns)
	oi = i % len(d.owners)
	i /= len(d.owners)
	si = i
	return
}

func c20Port(owner string) string { return "icacontroller-" + owner }

func c20CapName(port, channel string) string {
	return "capabilities/ports/" + port + "/channels/" + channel
}

// c20Channel gives every (port, connection) pair of the universe its own
// channel id so that any mix-up is visible.
func c20Channel(ownerIdx, connIdx int) string {
	return fmt.Sprintf("channel-%d", 10*ownerIdx+connIdx+1)
}

// eval evaluates case idx on a fresh keeper and, additionally, on keepers that
// have already served one earlier successful SubmitTx (by another owner / by
// the same owner) on the same connection: the keeper object is shared between
// the two calls, so state kept in the keeper between calls is exercised.
func (d *c20Dims) eval(idx int) (res c20Result) {
	res = d.evalWarm(idx, 0)
	for warm := 1; warm <= 2; warm++ {
		r := d.evalWarm(idx, warm)
		for _, f := range r.findings {
			f.kind += "/after-an-earlier-call-on-the-same-keeper"
			res.findings = append(res.findings, f)
		}
		res.warmRuns++
		if r.panicked {
			res.panicked = true
		}
	}
	return res
}

func (d *c20Dims) evalWarm(idx, warm int) (res c20Result) {
	si, oi, ci, ti, dl, sf, cp, ev := d.decode(idx)
	owner, conn, shape, bt := d.owners[oi], d.conns[ci], d.shapes[si], d.times[ti]
	other := d.owners[(oi+1)%len(d.owners)]
	cs := c20Case{Index: idx, Owner: owner.Str, OwnerTag: owner.Name, Conn: conn, Shape: shape.Name, Time: bt.Name,
		Env: c20EnvNames[ev], Cap: c20CapNames[cp], SendFail: sf == 1, Delivery: c20DeliveryNames[dl]}
	add := func(kind, detail string, extra map[string]interface{}) {
		res.findings = append(res.findings, c20Found{idx: idx, kind: kind, detail: detail, c: cs, extra: extra})
	}
	cdc, _ := c20Codec()

	// --- environment ---------------------------------------------------
	env := &c20Env{active: map[string]string{}, caps: map[string]*capabilitytypes.Capability{}}
	if sf == 1 {
		env.sendErr = fmt.Errorf("fake SendTx failure")
	}
	ownPort := c20Port(owner.Str)
	for xo := range d.owners {
		for xc := range d.conns {
			port := c20Port(d.owners[xo].Str)
			isOwnPort := port == ownPort
			isConn := xc == ci
			var on bool
			switch ev {
			case c20EnvOwn:
				on = isOwnPort && isConn
			case c20EnvOtherPort:
				on = !isOwnPort
			case c20EnvOtherConn:
				on = isOwnPort && !isConn
			case c20EnvAll:
				on = true
			}
			if on {
				env.active[c20Key(port, d.conns[xc])] = c20Channel(xo, xc)
			}
			var capOn bool
			switch cp {
			case c20CapAll:
				capOn = true
			case c20CapForeign:
				capOn = !isOwnPort
			}
			if capOn {
				env.caps[c20CapName(port, c20Channel(xo, xc))] = &capabilitytypes.Capability{Index: uint64(1000 + 10*xo + xc)}
			}
		}
	}

	// --- the message ---------------------------------------------------
	ref := shape.Build(owner.Str, other.Str)      // reference copy, never handed to the keeper
	supplied := shape.Build(owner.Str, other.Str) // the supplied inner message
	refBz, err := proto.Marshal(ref)
	if err != nil {
		add("C20/harness-error", "cannot marshal reference message: "+err.Error(), nil)
		return
	}
	refURL := "/" + proto.MessageName(ref)
	msg := &intertxtypes.MsgSubmitTx{Owner: owner.Str, ConnectionId: conn, Msg: c20MustAny(supplied)}
	if dl == 1 { // as a transaction decoder would deliver it
		bz, err := cdc.Marshal(msg)
		if err != nil {
			add("C20/harness-error", "cannot marshal MsgSubmitTx: "+err.Error(), nil)
			return
		}
		m2 := &intertxtypes.MsgSubmitTx{}
		if err := cdc.Unmarshal(bz, m2); err != nil {
			add("C20/harness-error", "cannot unmarshal MsgSubmitTx: "+err.Error(), nil)
			return
		}
		msg = m2
	}

	if owner.Foreign {
		if err := msg.ValidateBasic(); err == nil {
			add("C20/owner-that-names-no-signer-accepted-by-stateless-validation", fmt.Sprintf("owner %q is not an account address of this chain (GetSigners() = %v) but ValidateBasic accepts the message", owner.Str, msg.GetSigners()), nil)
		}
		return
	}
	// --- signer ----------------------------------------------------------
	signers := msg.GetSigners()
	if len(signers) != 1 || !bytes.Equal(signers[0], owner.Addr) {
		add("C20/signers-not-exactly-owner", fmt.Sprintf("GetSigners() = %v, want exactly [%x] for owner %s", signers, owner.Addr, owner.Str), nil)
	}

	// --- stateless validation, as baseapp runs it before the handler -------
	// every case of the alphabet has a valid bech32 owner and a set inner message, which is all the
	// message's documented validation demands: a rejection here means the supplied message is not sent
	if err := msg.ValidateBasic(); err != nil {
		add("C20/supplied-message-rejected-by-stateless-validation", fmt.Sprintf("ValidateBasic: %v (owner %s, inner %s, %d value bytes)", err, owner.Str, refURL, len(refBz)), nil)
		return
	}

	// --- call the real handler -------------------------------------------
	ctx := sdk.NewContext(nil, tmproto.Header{Time: bt.T, Height: 1}, false, log.NewNopLogger())
	k := intertxkeeper.NewKeeper(cdc, c20ICA{env}, c20Cap{env})
	if warm != 0 {
		// an earlier call on the same keeper, in an environment where it succeeds
		saveActive, saveCaps, saveErr := env.active, env.caps, env.sendErr
		env.active, env.caps, env.sendErr = map[string]string{}, map[string]*capabilitytypes.Capability{}, nil
		for xo := range d.owners {
			for xc := range d.conns {
				port := c20Port(d.owners[xo].Str)
				env.active[c20Key(port, d.conns[xc])] = c20Channel(xo, xc)
				env.caps[c20CapName(port, c20Channel(xo, xc))] = &capabilitytypes.Capability{Index: uint64(5000 + 10*xo + xc)}
			}
		}
		earlier := other
		if warm == 2 {
			earlier = owner
		}
		wmsg := &intertxtypes.MsgSubmitTx{Owner: earlier.Str, ConnectionId: conn, Msg: c20MustAny(shape.Build(earlier.Str, owner.Str))}
		func() {
			defer func() { _ = recover() }()
			_, _ = k.SubmitTx(sdk.WrapSDKContext(ctx), wmsg)
		}()
		env.active, env.caps, env.sendErr = saveActive, saveCaps, saveErr
		env.activeLookups, env.capLookups, env.sends, env.otherCalls = nil, nil, nil, nil
	}
	var resp *intertxtypes.MsgSubmitTxResponse
	var herr error
	func() {
		defer func() {
			if r := recover(); r != nil {
				res.panicked = true
				herr = fmt.Errorf("panic: %v", r)
			}
		}()
		resp, herr = k.SubmitTx(sdk.WrapSDKContext(ctx), msg)
	}()

	// --- oracle ------------------------------------------------------------
	res.lookups = len(env.activeLookups) + len(env.capLookups)
	res.others = len(env.otherCalls)
	ownChan, ownActive := env.active[c20Key(ownPort, conn)]
	var ownCap *capabilitytypes.Capability
	if ownActive {
		ownCap = env.caps[c20CapName(ownPort, ownChan)]
	}
	expectSend := ownActive && ownCap != nil
	res.expSend = expectSend
	// block time + 60 s in ns, computed without time.Add / UnixNano
	wantTimeout := uint64(bt.T.Unix())*1000000000 + uint64(bt.T.Nanosecond()) + 60*1000000000

	for _, s := range env.sends {
		if s.Port != ownPort {
			add("C20/sendtx-on-foreign-port", fmt.Sprintf("SendTx on port %q but the owner's own port is %q (connection %s)", s.Port, ownPort, s.Conn),
				map[string]interface{}{"send_port": s.Port, "send_connection": s.Conn})
		}
	}
	for _, l := range env.activeLookups {
		if l.Port != ownPort || l.Conn != conn {
			add("C20/active-channel-lookup-not-on-own-port-and-connection", fmt.Sprintf("GetActiveChannelID(%q, %q), want (%q, %q)", l.Conn, l.Port, conn, ownPort), nil)
		}
	}
	for _, n := range env.capLookups {
		if !strings.HasPrefix(n, "capabilities/ports/"+ownPort+"/channels/") {
			add("C20/capability-lookup-not-on-own-port", fmt.Sprintf("GetCapability(%q): not a channel capability of port %q", n, ownPort), nil)
		} else if ownActive && n != c20CapName(ownPort, ownChan) {
			add("C20/capability-lookup-for-wrong-channel", fmt.Sprintf("GetCapability(%q), want %q", n, c20CapName(ownPort, ownChan)), nil)
		}
	}

	if !expectSend {
		if len(env.sends) != 0 {
			add("C20/sendtx-without-active-channel-or-capability", fmt.Sprintf("%d SendTx call(s) although own active channel=%v, capability=%v", len(env.sends), ownActive, ownCap != nil), nil)
		}
		if herr == nil {
			add("C20/success-without-active-channel-or-capability", fmt.Sprintf("handler returned success although own active channel=%v, capability=%v", ownActive, ownCap != nil), nil)
		}
		return
	}

	if len(env.sends) != 1 {
		add("C20/not-exactly-one-sendtx", fmt.Sprintf("%d SendTx calls, want exactly 1 (handler error: %v)", len(env.sends), herr), nil)
		return
	}
	s := env.sends[0]
	ok := s.Port == ownPort
	if s.Conn != conn {
		ok = false
		add("C20/sendtx-on-wrong-connection", fmt.Sprintf("SendTx on connection %q, want %q", s.Conn, conn), nil)
	}
	if s.Cap != ownCap {
		ok = false
		add("C20/sendtx-with-wrong-capability", fmt.Sprintf("SendTx with capability %v, want %v (%s)", s.Cap, ownCap, c20CapName(ownPort, ownChan)), nil)
	}
	if s.Data.Type != icatypes.EXECUTE_TX {
		ok = false
		add("C20/packet-type-not-execute-tx", fmt.Sprintf("packet type %v", s.Data.Type), nil)
	}
	if s.Timeout != wantTimeout {
		ok = false
		add("C20/timeout-not-block-time-plus-one-minute", fmt.Sprintf("timeout %d, want %d (block time %s + 60 s)", s.Timeout, wantTimeout, bt.T.Format(time.RFC3339Nano)), nil)
	}
	// decode 1: the ICA host's own decoder
	msgs, derr := icatypes.DeserializeCosmosTx(cdc, s.Data.Data)
	switch {
	case derr != nil:
		ok = false
		add("C20/packet-does-not-decode", "DeserializeCosmosTx: "+derr.Error(), nil)
	case len(msgs) != 1:
		ok = false
		add("C20/packet-not-single-message", fmt.Sprintf("packet carries %d messages, want 1", len(msgs)), nil)
	default:
		got, merr := proto.Marshal(msgs[0])
		if merr != nil || "/"+proto.MessageName(msgs[0]) != refURL || !bytes.Equal(got, refBz) {
			ok = false
			add("C20/forwarded-message-differs-from-supplied", fmt.Sprintf("decoded %s (%d bytes) differs from supplied %s (%d bytes)", proto.MessageName(msgs[0]), len(got), refURL, len(refBz)),
				map[string]interface{}{"decoded_hex": hex.EncodeToString(got)})
		}
	}
	// decode 2: hand-written wire reader
	raw, perr := c20ParseCosmosTx(s.Data.Data)
	switch {
	case perr != nil:
		ok = false
		add("C20/packet-not-a-cosmos-tx", perr.Error(), nil)
	case len(raw) != 1:
		ok = false
		add("C20/packet-not-single-message", fmt.Sprintf("wire reader finds %d messages, want 1", len(raw)), nil)
	case raw[0].TypeURL != refURL || !bytes.Equal(raw[0].Value, refBz):
		ok = false
		add("C20/packet-bytes-differ-from-supplied-message", fmt.Sprintf("packet Any{%s, %d bytes}, supplied Any{%s, %d bytes}", raw[0].TypeURL, len(raw[0].Value), refURL, len(refBz)), nil)
	}
	// result iff SendTx result
	if env.sendErr == nil && (herr != nil || resp == nil) {
		ok = false
		add("C20/error-although-sendtx-succeeded", fmt.Sprintf("handler error %v, response %v", herr, resp), nil)
	}
	if env.sendErr != nil && herr == nil {
		ok = false
		add("C20/success-although-sendtx-failed", "handler returned success while SendTx returned an error", nil)
	}
	if !ok {
		return
	}
	h := sha256.New()
	fmt.Fprintf(h, "%s\x00%s\x00%d\x00%d\x00%d\x00%d\x00%d\x00", s.Port, s.Conn, s.Timeout, ev, cp, sf, dl)
	h.Write(s.Data.Data)
	var key [32]byte
	copy(key[:], h.Sum(nil))
	res.sent = append(res.sent, key)
	res.sample = map[string]interface{}{
		"case": cs, "sent_port": s.Port, "sent_connection": s.Conn, "own_channel": ownChan, "capability_index": s.Cap.Index,
		"timeout_ns": s.Timeout, "packet_type": s.Data.Type.String(), "packet_any_type_url": raw[0].TypeURL, "packet_any_value_bytes": len(raw[0].Value),
		"handler_error": fmt.Sprint(herr),
	}
	return
}

// C20 runs the check and returns the exit code.
func C20(tier string) int {
	if tier != "thorough" {
		tier = "quick"
	}
	o := runner.New("C20", tier, "model_checking")
	o.Assumptions = []string{
		"the ICA controller keeper and the capability keeper are replaced by recording fakes that implement the interfaces of x/intertx/keeper/expected_keepers.go; what ibc-go does with the packet after SendTx is out of scope",
		"messages reach the handler the way baseapp delivers them: ValidateBasic is run first and must pass for every case of the alphabet (owner is a valid bech32 address, msg is set) and the inner Any is unpacked (both an in-memory message and a marshal/unmarshal round trip through the ProtoCodec are exercised)",
		"'unmodified' is decided on the deterministic gogoproto encoding: type URL and value bytes of the single Any in the packet equal those of an independently built copy of the supplied message (inner messages contain no protobuf map fields)",
		"block times are at or after the Unix epoch and block time + 1 min fits int64 nanoseconds (the largest enumerated time makes the timeout exactly MaxInt64 in the thorough tier)",
		"the port derived from the owner is the string \"icacontroller-\" + owner as documented for icatypes.NewControllerPortID; the capability name is \"capabilities/ports/<port>/channels/<channel>\"",
	}
	d := &c20Dims{owners: c20Owners(tier), conns: c20Connections(tier), shapes: c20Shapes(tier), times: c20Times(tier)}
	n := d.size()
	results := make([]c20Result, n)
	workers := runtime.NumCPU()
	if workers > n {
		workers = n
	}
	var wg sync.WaitGroup
	for w := 0; w < workers; w++ {
		wg.Add(1)
		go func(w int) {
			defer wg.Done()
			for i := w; i < n; i += workers {
				results[i] = d.eval(i)
			}
		}(w)
	}
	wg.Wait()

	distinct := map[[32]byte]struct{}{}
	var sentChecked, expSend, expNoSend, panics, lookups, others int64
	var samples []interface{}
	sampleShapes := map[string]bool{}
	firstByKind := map[string]c20Found{}
	var kinds []string
	for i := range results {
		r := &results[i]
		for _, k := range r.sent {
			distinct[k] = struct{}{}
			sentChecked++
		}
		if r.expSend {
			expSend++
		} else {
			expNoSend++
		}
		if r.panicked {
			panics++
		}
		lookups += int64(r.lookups)
		others += int64(r.others)
		if r.sample != nil && len(samples) < 4 {
			sh := r.sample["case"].(c20Case).Shape
			if !sampleShapes[sh] {
				sampleShapes[sh] = true
				samples = append(samples, r.sample)
			}
		}
		for _, f := range r.findings {
			if _, seen := firstByKind[f.kind]; !seen {
				firstByKind[f.kind] = f
				kinds = append(kinds, f.kind)
			}
		}
	}
	sort.Strings(kinds)
	for _, k := range kinds {
		f := firstByKind[k]
		rp := map[string]interface{}{"case": f.c, "tier": tier, "how": "pure.C20 re-evaluates case.index of the same tier; the case fields describe the input completely"}
		for kk, vv := range f.extra {
			rp[kk] = vv
		}
		bz, _ := json.Marshal(rp)
		o.Findings = append(o.Findings, runner.Finding{Kind: f.kind, Detail: fmt.Sprintf("%s [owner=%s(%s) connection=%s inner=%s block_time=%s channels=%s capabilities=%s send_tx_fails=%v delivery=%s]",
			f.detail, f.c.OwnerTag, f.c.Owner, f.c.Conn, f.c.Shape, f.c.Time, f.c.Env, f.c.Cap, f.c.SendFail, f.c.Delivery), Engine: "B", Where: "submit-tx-product", Replay: bz})
	}

	var shapeNames, ownerNames, timeNames []string
	for _, s := range d.shapes {
		shapeNames = append(shapeNames, s.Name)
	}
	for _, x := range d.owners {
		ownerNames = append(ownerNames, x.Name+"="+x.Str)
	}
	for _, x := range d.times {
		timeNames = append(timeNames, x.Name)
	}
	o.Coverage["evaluations"] = int64(n)
	o.Coverage["distinct_nontrivial"] = int64(len(distinct))
	o.Coverage["rule"] = "full product owner x connection x inner-message shape x block time x delivery{in-memory, wire round trip} x SendTx{ok,error} x capability environment x channel environment, each evaluated by one call of the real keeper.SubmitTx against recording fakes; a case is non-trivial iff a packet was sent and port, connection, capability object, packet type, single-message content (two decoders), timeout and handler result were all checked; two such cases are distinct iff the SHA-256 of (port, connection, timeout, environment ids, SendTx outcome, delivery, packet bytes) differs"
	o.Coverage["samples"] = samples
	o.Coverage["exhaustive"] = true
	o.Coverage["cases_expecting_a_send"] = expSend
	o.Coverage["cases_expecting_no_send_and_an_error"] = expNoSend
	o.Coverage["packets_sent_and_fully_checked"] = sentChecked
	o.Coverage["handler_panics"] = panics
	o.Coverage["lookup_calls_checked"] = lookups
	o.Coverage["calls_to_other_fake_methods"] = others
	o.Coverage["dimensions"] = map[string]interface{}{
		"owners": ownerNames, "connections": d.conns, "inner_message_shapes": shapeNames, "block_times": timeNames,
		"channel_environments": c20EnvNames, "capability_environments": c20CapNames, "send_tx": []string{"ok", "error"}, "delivery": c20DeliveryNames,
	}
	return o.Finish()
}
