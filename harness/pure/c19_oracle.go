package pure

import (
	"fmt"
	"math/big"
	"strings"

	rmath "github.com/regen-network/regen-ledger/types/v2/math"

	"verif/harness/ref"
)

// ---------------------------------------------------------------------------
// small exact helpers (math/big only)

var c19Pow10Table = func() []*big.Int {
	t := make([]*big.Int, 513)
	t[0] = big.NewInt(1)
	ten := big.NewInt(10)
	for i := 1; i < len(t); i++ {
		t[i] = new(big.Int).Mul(t[i-1], ten)
	}
	return t
}()

// c19Pow10 returns 10^n (n >= 0). Table entries are shared and must be
// treated as read-only.
func c19Pow10(n int) *big.Int {
	if n < len(c19Pow10Table) {
		return c19Pow10Table[n]
	}
	return new(big.Int).Exp(big.NewInt(10), big.NewInt(int64(n)), nil)
}

// c19Pow10Rat returns 10^n as a rational for any integer n.
func c19Pow10Rat(n int) *big.Rat {
	if n >= 0 {
		return new(big.Rat).SetInt(c19Pow10(n))
	}
	return new(big.Rat).SetFrac(big.NewInt(1), c19Pow10(-n))
}

// c19FloorLog10 returns e with 10^e <= |r| < 10^(e+1) for r != 0.
func c19FloorLog10(r *big.Rat) int {
	a := new(big.Int).Abs(r.Num())
	b := r.Denom()
	le := func(e int) bool { // 10^e <= a/b
		if e >= 0 {
			return new(big.Int).Mul(c19Pow10(e), b).Cmp(a) <= 0
		}
		return b.Cmp(new(big.Int).Mul(a, c19Pow10(-e))) <= 0
	}
	e := (a.BitLen() - b.BitLen()) * 30103 / 100000
	for !le(e) {
		e--
	}
	for le(e + 1) {
		e++
	}
	return e
}

// c19Within34 is the accuracy demanded of the rounding operations: the result
// differs from the exact value by less than one unit in the 34th significant
// digit of the exact value (generous: a correctly rounded result is within
// half a unit). A zero exact value demands a zero result.
func c19Within34(res, exact *big.Rat) bool {
	if exact.Sign() == 0 {
		return res.Sign() == 0
	}
	e := c19FloorLog10(exact)
	diff := new(big.Rat).Sub(res, exact)
	diff.Abs(diff)
	return diff.Cmp(c19Pow10Rat(e-33)) < 0
}

var c19TwoPow255 = new(big.Int).Lsh(big.NewInt(1), 255)

// c19FitsSdkInt reports |r| < 2^255 (SdkIntTrim is documented to panic beyond
// the SDK Int range of 2^256; values at or above 2^255 are skipped).
func c19FitsSdkInt(r *big.Rat) bool {
	t := new(big.Int).Quo(r.Num(), r.Denom())
	t.Abs(t)
	return t.Cmp(c19TwoPow255) < 0
}

// c19Trunc is truncation toward zero.
func c19Trunc(r *big.Rat) *big.Int { return new(big.Int).Quo(r.Num(), r.Denom()) }

// c19RatText writes a rational for humans: plain decimal if it is a finite
// decimal, otherwise num/den.
func c19RatText(r *big.Rat) string {
	if r == nil {
		return "undefined"
	}
	if p := ref.MinPlaces(r); p >= 0 && p <= 400 {
		return r.FloatString(p)
	}
	return r.Num().String() + "/" + r.Denom().String()
}

// ---------------------------------------------------------------------------
// operations under test

const (
	c19OpAdd = iota
	c19OpSub
	c19OpMathAdd
	c19OpSubNonNegative
	c19OpSafeAddBalance
	c19OpSafeSubBalance
	c19OpMul
	c19OpMulExact
	c19OpQuo
	c19OpQuoExact
	c19OpQuoInteger
	c19OpRem
	c19OpCmp
	c19OpEqual
	c19NumOps
)

var c19OpNames = [c19NumOps]string{"Add", "Sub", "math.Add", "SubNonNegative", "SafeAddBalance", "SafeSubBalance",
	"Mul", "MulExact", "Quo", "QuoExact", "QuoInteger", "Rem", "Cmp", "Equal"}

// c19Res is the outcome of one operation.
type c19Res struct {
	dec      rmath.Dec
	hasDec   bool
	err      error
	cmp      int
	eq       bool
	panicked bool
	panicMsg string
}

// c19Apply runs one binary operation of the implementation; a panic is caught.
func c19Apply(op int, x, y rmath.Dec) (r c19Res) {
	defer func() {
		if p := recover(); p != nil {
			r.panicked = true
			r.panicMsg = fmt.Sprint(p)
		}
	}()
	r.hasDec = true
	switch op {
	case c19OpAdd:
		r.dec, r.err = x.Add(y)
	case c19OpSub:
		r.dec, r.err = x.Sub(y)
	case c19OpMathAdd:
		r.dec, r.err = rmath.Add(x, y)
	case c19OpSubNonNegative:
		r.dec, r.err = rmath.SubNonNegative(x, y)
	case c19OpSafeAddBalance:
		r.dec, r.err = rmath.SafeAddBalance(x, y)
	case c19OpSafeSubBalance:
		r.dec, r.err = rmath.SafeSubBalance(x, y)
	case c19OpMul:
		r.dec, r.err = x.Mul(y)
	case c19OpMulExact:
		r.dec, r.err = x.MulExact(y)
	case c19OpQuo:
		r.dec, r.err = x.Quo(y)
	case c19OpQuoExact:
		r.dec, r.err = x.QuoExact(y)
	case c19OpQuoInteger:
		r.dec, r.err = x.QuoInteger(y)
	case c19OpRem:
		r.dec, r.err = x.Rem(y)
	case c19OpCmp:
		r.hasDec = false
		r.cmp = x.Cmp(y)
	case c19OpEqual:
		r.hasDec = false
		r.eq = x.Equal(y)
	default:
		panic("c19: unknown op")
	}
	return r
}

// c19Exact holds the exact results for a pair (quo is nil when y == 0).
type c19Exact struct {
	x, y                 *big.Rat
	sum, diff, prod, quo *big.Rat
}

func c19Exacts(x, y *big.Rat) *c19Exact {
	e := &c19Exact{x: x, y: y}
	e.sum = new(big.Rat).Add(x, y)
	e.diff = new(big.Rat).Sub(x, y)
	e.prod = new(big.Rat).Mul(x, y)
	if y.Sign() != 0 {
		e.quo = new(big.Rat).Quo(x, y)
	}
	return e
}

// exactFor returns the exact result the property defines for op (nil: none).
func (e *c19Exact) exactFor(op int) *big.Rat {
	switch op {
	case c19OpAdd, c19OpMathAdd, c19OpSafeAddBalance:
		return e.sum
	case c19OpSub, c19OpSubNonNegative, c19OpSafeSubBalance:
		return e.diff
	case c19OpMul, c19OpMulExact:
		return e.prod
	case c19OpQuo, c19OpQuoExact:
		return e.quo
	}
	return nil
}

// c19Violation is one failed clause.
type c19Violation struct {
	class  string // stable class, becomes part of the finding kind
	detail string
}

// c19Judge applies the clauses of the property to the outcome of op. It
// returns the violated clauses, the result's exact value (nil if there is no
// finite decimal result) and whether the evaluation counts as non-trivial
// (nil error and a non-zero exact result defined by the property).
//
// Clauses (only what the statement says):
//   - Add, Sub, math.Add: on nil error the result is exactly x±y.
//   - SubNonNegative, SafeSubBalance: never (negative, nil); on nil error exactly x-y.
//   - SafeAddBalance: on nil error exactly x+y and not negative.
//   - MulExact, QuoExact: on nil error exactly x*y, x/y. An error is always fine.
//   - Mul, Quo: on nil error within one unit of the 34th significant digit.
//   - Quo, QuoExact with y == 0: a nil error is a violation.
//   - QuoInteger, Rem: not defined by the statement; nothing is demanded of the value.
//   - Cmp, Equal: agree with the order of the rationals.
//   - every decimal returned with a nil error is finite, renders in plain
//     notation, and the rendering re-parses (reference parser and
//     NewDecFromString) to the same number.
func c19Judge(op int, ex *c19Exact, r *c19Res) (vs []c19Violation, resR *big.Rat, nontrivial bool) {
	if r.panicked {
		return []c19Violation{{"panic", "panic: " + r.panicMsg}}, nil, false
	}
	add := func(class, format string, a ...interface{}) {
		vs = append(vs, c19Violation{class, fmt.Sprintf(format, a...)})
	}
	switch op {
	case c19OpCmp:
		want := ex.x.Cmp(ex.y)
		got := r.cmp
		if got > 0 {
			got = 1
		} else if got < 0 {
			got = -1
		}
		if got != want {
			add("wrong-order", "Cmp returned %d, the rationals compare %d", r.cmp, want)
		}
		return vs, nil, false
	case c19OpEqual:
		if r.eq != (ex.x.Cmp(ex.y) == 0) {
			add("wrong-answer", "Equal returned %v, the rationals compare %d", r.eq, ex.x.Cmp(ex.y))
		}
		return vs, nil, false
	}
	if r.err != nil {
		return nil, nil, false
	}
	// nil error from here on
	var finite bool
	resR, finite = c19RatOf(&r.dec)
	if !finite {
		add("non-finite-without-error", "nil error but the result has form %d (not a finite number), String()=%q", c19View(&r.dec).Form, r.dec.String())
		return vs, nil, false
	}
	exact := ex.exactFor(op)
	switch op {
	case c19OpQuo, c19OpQuoExact:
		if ex.y.Sign() == 0 {
			add("division-by-zero-without-error", "division by zero returned %s with a nil error", r.dec.String())
		}
	}
	if exact != nil {
		switch op {
		case c19OpMul, c19OpQuo:
			if exact.Sign() == 0 && resR.Sign() != 0 {
				add("nonzero-for-zero", "exact result is 0, got %s", r.dec.String())
			} else if !c19Within34(resR, exact) {
				add("not-within-1ulp-of-34-digits", "got %s, exact %s: differs by one unit or more in the 34th significant digit", r.dec.String(), c19RatText(exact))
			}
		default:
			if resR.Cmp(exact) != 0 {
				add("not-exact", "got %s with a nil error, exact %s", r.dec.String(), c19RatText(exact))
			}
		}
		nontrivial = exact.Sign() != 0
	}
	switch op {
	case c19OpSubNonNegative, c19OpSafeSubBalance, c19OpSafeAddBalance:
		if resR.Sign() < 0 {
			add("negative-without-error", "returned the negative value %s with a nil error", r.dec.String())
		}
	}
	// rendering
	s := r.dec.String()
	if strings.ContainsAny(s, "eE") {
		vs = append(vs, c19Violation{"render-scientific-notation", fmt.Sprintf("result renders as %q", s)})
	}
	if p, err := ref.Parse(s); err != nil {
		vs = append(vs, c19Violation{"render-not-a-decimal-string", fmt.Sprintf("result renders as %q: %v", s, err)})
	} else if p.R.Cmp(resR) != 0 {
		vs = append(vs, c19Violation{"render-reparse-differs", fmt.Sprintf("result with value %s renders as %q which is %s", c19RatText(resR), s, c19RatText(p.R))})
	}
	if d2, err := rmath.NewDecFromString(s); err != nil {
		vs = append(vs, c19Violation{"render-rejected-by-parser", fmt.Sprintf("result renders as %q which NewDecFromString rejects: %v", s, err)})
	} else if r2, ok := c19RatOf(&d2); !ok || r2.Cmp(resR) != 0 {
		vs = append(vs, c19Violation{"render-reparse-differs", fmt.Sprintf("result with value %s renders as %q which NewDecFromString reads as %s", c19RatText(resR), s, d2.String())})
	}
	return vs, resR, nontrivial
}

// c19FollowUps runs operations on a freshly returned result that would write
// through a shared coefficient array if the implementation mutated in place,
// and judges the integer conversions of the result on the way (BigInt: exact
// integer iff integral; SdkIntTrim: truncation toward zero). The class of a
// returned violation is a complete finding kind.
func c19FollowUps(res rmath.Dec, resR *big.Rat) (vs []c19Violation) {
	name := ""
	defer func() {
		if p := recover(); p != nil {
			vs = append(vs, c19Violation{"C19/" + name + "/panic", fmt.Sprintf("%s on the value %s panicked: %v", name, c19RatText(resR), p)})
		}
	}()
	name = "Add"
	_, _ = res.Add(res)
	name = "Mul"
	_, _ = res.Mul(res)
	name = "Reduce"
	red, _ := res.Reduce()
	_ = red
	name = "BigInt"
	bi, err := res.BigInt()
	if resR != nil {
		switch {
		case resR.IsInt() && err != nil:
			vs = append(vs, c19Violation{"C19/BigInt/error-for-integer", fmt.Sprintf("BigInt of the integral value %s (rendered %s): %v", c19RatText(resR), res.String(), err)})
		case resR.IsInt() && bi.Cmp(resR.Num()) != 0:
			vs = append(vs, c19Violation{"C19/BigInt/wrong-integer", fmt.Sprintf("BigInt of %s (rendered %s) returned %s", c19RatText(resR), res.String(), bi)})
		case !resR.IsInt() && err == nil:
			vs = append(vs, c19Violation{"C19/BigInt/non-integral-without-error", fmt.Sprintf("BigInt of the non-integral value %s returned %s", c19RatText(resR), bi)})
		}
	}
	c19ScribbleInt(bi)
	if resR != nil && c19FitsSdkInt(resR) {
		name = "SdkIntTrim"
		si := res.SdkIntTrim()
		if want := c19Trunc(resR); si.BigIntMut().Cmp(want) != 0 {
			vs = append(vs, c19Violation{"C19/SdkIntTrim/not-truncation-toward-zero", fmt.Sprintf("SdkIntTrim of %s (rendered %s) returned %s, truncation toward zero is %s", c19RatText(resR), res.String(), si.BigIntMut(), want)})
		}
		c19ScribbleInt(si.BigIntMut())
	}
	name = "String"
	_ = res.String()
	return vs
}

// ---------------------------------------------------------------------------
// findings, kept one per kind (the simplest input by enumeration order)

type c19Found struct {
	kind, where, order, detail string
	replay                     map[string]interface{}
}

type c19Collector struct {
	best   map[string]*c19Found
	counts map[string]int64
}

func newC19Collector() *c19Collector {
	return &c19Collector{best: map[string]*c19Found{}, counts: map[string]int64{}}
}

// add records a violation; mk is only called if this is the new simplest
// example of its kind.
func (c *c19Collector) add(kind, where, order string, mk func() (string, map[string]interface{})) {
	c.counts[kind]++
	if b, ok := c.best[kind]; ok && b.order <= order {
		return
	}
	detail, replay := mk()
	c.best[kind] = &c19Found{kind: kind, where: where, order: order, detail: detail, replay: replay}
}

func (c *c19Collector) merge(o *c19Collector) {
	for k, n := range o.counts {
		c.counts[k] += n
	}
	for k, f := range o.best {
		if b, ok := c.best[k]; !ok || f.order < b.order {
			c.best[k] = f
		}
	}
}
