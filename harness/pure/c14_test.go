package pure

import (
	"testing"

	"verif/harness/runner"
)

func testC14Formats(t *testing.T, tier string) {
	runner.Root = t.TempDir()
	code := C14FormatsOnly(tier)
	ev := c20ReadEvidence(t, "C14")
	cov := ev["coverage"].(map[string]interface{})
	f := cov["formats"].(map[string]interface{})
	t.Logf("tier=%s exit=%d evaluations=%v distinct_nontrivial=%v wall=%.2fs", tier, code, f["evaluations"], f["distinct_nontrivial"], ev["wall_s"])
	t.Logf("per family: %v", f["evaluations_per_family"])
	t.Logf("formatted: %v", f["formatted"])
	t.Logf("acceptances: %v", f["validator_acceptances"])
	t.Logf("finding kinds: %v", f["finding_kinds"])
	for _, o := range f["observations"].([]interface{}) {
		t.Logf("observation: %v", o)
	}
	if f["evaluations"].(float64) <= 0 || f["distinct_nontrivial"].(float64) <= 0 {
		t.Errorf("vacuous run")
	}
	if cov["evaluations"] != f["evaluations"] || cov["distinct_nontrivial"] != f["distinct_nontrivial"] {
		t.Errorf("top-level coverage keys are not the formats numbers")
	}
	// The only kind known on the unchanged tree: the unescaped dots of the
	// basket denom regular expression (see the final report).
	for _, k := range f["finding_kinds"].([]interface{}) {
		if k != "C14/validator-accepts-string-outside-grammar/basket-denom" {
			t.Errorf("unexpected finding kind %v", k)
		}
	}
}

func TestC14FormatsQuick(t *testing.T) { testC14Formats(t, "quick") }

func TestC14FormatsThorough(t *testing.T) {
	if testing.Short() {
		t.Skip("thorough tier skipped in -short mode")
	}
	testC14Formats(t, "thorough")
}

// TestC14Recognisers pins the hand-written recognisers on documented examples
// and near misses (independent of the implementation).
func TestC14Recognisers(t *testing.T) {
	type tc struct {
		s                            string
		abbr, class, proj, batch, bn bool
		bdStrict, bdLoose            bool
	}
	for _, c := range []tc{
		{s: "C", abbr: true},
		{s: "BIO", abbr: true, bn: true},
		{s: "ABCD", bn: true},
		{s: "C01", class: true, bn: true},
		{s: "C1"},
		{s: "C001", class: true, bn: true},
		{s: "c01", bn: true},
		{s: "ABCD01", bn: true},
		{s: "C01-001", proj: true},
		{s: "C01-01"},
		{s: "C01-001-20190101-20200101-001", batch: true},
		{s: "C01-001-20190101-20200101-01"},
		{s: "C01-001-2019010-20200101-001"},
		{s: "C01-001-20190101-20200101-001-"},
		{s: "C01-001-20190101-20200101-001\n"},
		{s: "eco.uC.NCT", bdStrict: true, bdLoose: true},
		{s: "eco.C.foo", bdStrict: true, bdLoose: true},
		{s: "eco.yKSH.a1234567", bdStrict: true, bdLoose: true},
		{s: "eco.kC.foo", bdLoose: true},
		{s: "eco.abcd.foo", bdLoose: true},
		{s: "eco.uABCD.foo"},
		{s: "ecoXuCXNCT"},
		{s: "eco.uC.1ab"},
	} {
		_, class := c14RecClassID(c.s)
		_, _, proj := c14RecProjectID(c.s)
		_, _, _, _, _, batch := c14RecBatchDenom(c.s)
		st, lo := c14RecBasketDenom(c.s)
		if c14RecAbbrev(c.s) != c.abbr || class != c.class || proj != c.proj || batch != c.batch || c14RecBasketName(c.s) != c.bn || st != c.bdStrict || lo != c.bdLoose {
			t.Errorf("%q: abbr=%v class=%v proj=%v batch=%v basketName=%v basketDenom=%v/%v", c.s, c14RecAbbrev(c.s), class, proj, batch, c14RecBasketName(c.s), st, lo)
		}
	}
	if a, c, p, s, e, ok := c14RecBatchDenom("BIO02-1003-00010101-99991231-1100"); !ok || a != "BIO" || c != "BIO02" || p != "BIO02-1003" || s != "00010101" || e != "99991231" {
		t.Errorf("decomposition: %v %v %v %v %v %v", a, c, p, s, e, ok)
	}
	if !c14CalendarDate("20200229") || c14CalendarDate("20190229") || c14CalendarDate("00000101") || c14CalendarDate("20201301") || !c14CalendarDate("99991231") || c14CalendarDate("19000229") || !c14CalendarDate("20000229") {
		t.Errorf("calendar recogniser")
	}
	if c14Pad(7, 3) != "007" || c14Pad(1000, 3) != "1000" || c14YMD(1, 1, 1) != "00010101" {
		t.Errorf("padding")
	}
}
