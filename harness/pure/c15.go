package pure

import (
	"bytes"
	"crypto/sha256"
	"encoding/hex"
	"encoding/json"
	"fmt"
	"runtime"
	"sort"
	"strings"
	"sync"

	data "github.com/regen-network/regen-ledger/x/data/v3"

	"verif/harness/runner"
)

// ---------------------------------------------------------------------------
// enumerated content hashes

// c15Item is one enumerated content hash. Hash contents and extensions are
// interned so that an item is a small comparable value.
type c15Item struct {
	Graph   bool
	Digest  uint32
	C14n    uint32
	Merkle  uint32
	HashID  uint32
	ExtID   uint32
	Wrapper uint8 // 0: exactly the stated branch is set; 1: both branches set; 2: neither
}

type c15Tables struct {
	hashes  [][]byte
	hashIdx map[string]uint32
	exts    []string
	extIdx  map[string]uint32
}

func newC15Tables() *c15Tables {
	return &c15Tables{hashIdx: map[string]uint32{}, extIdx: map[string]uint32{}}
}

func (t *c15Tables) hash(b []byte) uint32 {
	if id, ok := t.hashIdx[string(b)]; ok {
		return id
	}
	id := uint32(len(t.hashes))
	t.hashes = append(t.hashes, append([]byte(nil), b...))
	t.hashIdx[string(b)] = id
	return id
}

func (t *c15Tables) ext(s string) uint32 {
	if id, ok := t.extIdx[s]; ok {
		return id
	}
	id := uint32(len(t.exts))
	t.exts = append(t.exts, s)
	t.extIdx[s] = id
	return id
}

func (t *c15Tables) build(it c15Item) data.ContentHash {
	h := append([]byte(nil), t.hashes[it.HashID]...)
	raw := &data.ContentHash_Raw{Hash: h, DigestAlgorithm: it.Digest, FileExtension: t.exts[it.ExtID]}
	graph := &data.ContentHash_Graph{Hash: h, DigestAlgorithm: it.Digest, CanonicalizationAlgorithm: it.C14n, MerkleTree: it.Merkle}
	switch it.Wrapper {
	case 1:
		return data.ContentHash{Raw: raw, Graph: graph}
	case 2:
		return data.ContentHash{}
	}
	if it.Graph {
		return data.ContentHash{Graph: graph}
	}
	return data.ContentHash{Raw: raw}
}

func (t *c15Tables) describe(it c15Item) map[string]interface{} {
	h := hex.EncodeToString(t.hashes[it.HashID])
	raw := map[string]interface{}{"hash_hex": h, "hash_len": len(t.hashes[it.HashID]), "digest_algorithm": it.Digest, "file_extension": t.exts[it.ExtID]}
	graph := map[string]interface{}{"hash_hex": h, "hash_len": len(t.hashes[it.HashID]), "digest_algorithm": it.Digest, "canonicalization_algorithm": it.C14n, "merkle_tree": it.Merkle}
	switch {
	case it.Wrapper == 1:
		return map[string]interface{}{"raw": raw, "graph": graph}
	case it.Wrapper == 2:
		return map[string]interface{}{}
	case it.Graph:
		return map[string]interface{}{"graph": graph}
	}
	return map[string]interface{}{"raw": raw}
}

func (t *c15Tables) text(it c15Item) string {
	bz, _ := json.Marshal(t.describe(it))
	return string(bz)
}

func c15Content(pattern, n int) []byte {
	b := make([]byte, n)
	for i := range b {
		switch pattern {
		case 0: // all 0x00
		case 1:
			b[i] = 0xFF
		case 2: // 00 00 01 01 ...
			if i >= 2 {
				b[i] = 1
			}
		default: // ascending
			b[i] = byte(i)
		}
	}
	return b
}

var c15NumericExtras = []uint32{1 << 16, 1 << 24, 1 << 31, 1<<32 - 1}

func c15NumericValues() []uint32 {
	vs := make([]uint32, 0, 65536+len(c15NumericExtras))
	for v := uint32(0); v < 65536; v++ {
		vs = append(vs, v)
	}
	return append(vs, c15NumericExtras...)
}

type c15Family struct {
	Name  string
	Items []c15Item
}

func c15Families(tier string, t *c15Tables) []c15Family {
	asc32 := t.hash(c15Content(3, 32))
	txt := t.ext("txt")
	var fams []c15Family

	// simplest first: one plain raw and one plain graph hash, and the wrapper cases
	fams = append(fams, c15Family{"basic", []c15Item{
		{Digest: 1, HashID: asc32, ExtID: txt},
		{Graph: true, Digest: 1, C14n: 1, Merkle: 0, HashID: asc32, ExtID: txt},
		{Digest: 1, HashID: asc32, ExtID: txt, Wrapper: 1},
		{Digest: 1, HashID: asc32, ExtID: txt, Wrapper: 2},
	}})

	// hash lengths 19..65 x 4 contents x {raw, graph}
	var fl c15Family
	fl.Name = "hash-length"
	for n := 19; n <= 65; n++ {
		for p := 0; p < 4; p++ {
			id := t.hash(c15Content(p, n))
			fl.Items = append(fl.Items, c15Item{Digest: 1, HashID: id, ExtID: txt},
				c15Item{Graph: true, Digest: 1, C14n: 1, HashID: id, ExtID: txt})
		}
	}
	fams = append(fams, fl)

	// raw file extensions
	var fe c15Family
	fe.Name = "raw/file_extension"
	maxLen := 3
	if tier == "thorough" {
		maxLen = 4
	}
	var gen func(prefix string)
	gen = func(prefix string) {
		if len(prefix) > 0 {
			fe.Items = append(fe.Items, c15Item{Digest: 1, HashID: asc32, ExtID: t.ext(prefix)})
		}
		if len(prefix) == maxLen {
			return
		}
		for _, c := range "az09" {
			gen(prefix + string(c))
		}
	}
	gen("")
	for _, e := range []string{"A", ".", "/", "é", "", "abcdefg", "json", "zzzzzz", "rdf", "Ab", "a.b", "a b", "a/b", "tx\n", "ab:", "éé", "a-b", "a_b", "{|}", "`a"} {
		fe.Items = append(fe.Items, c15Item{Digest: 1, HashID: asc32, ExtID: t.ext(e)})
	}
	sort.SliceStable(fe.Items, func(i, j int) bool {
		return len(t.exts[fe.Items[i].ExtID]) < len(t.exts[fe.Items[j].ExtID])
	})
	fams = append(fams, fe)

	vals := c15NumericValues()
	// raw digest_algorithm
	f1 := c15Family{Name: "raw/digest_algorithm"}
	for _, v := range vals {
		f1.Items = append(f1.Items, c15Item{Digest: v, HashID: asc32, ExtID: txt})
	}
	fams = append(fams, f1)
	// graph fields, the others at {1,255} (merkle_tree also at its usual value 0)
	f2 := c15Family{Name: "graph/digest_algorithm"}
	f3 := c15Family{Name: "graph/canonicalization_algorithm"}
	f4 := c15Family{Name: "graph/merkle_tree"}
	for _, a := range []uint32{1, 255} {
		for _, b := range []uint32{0, 1, 255} {
			for _, v := range vals {
				f2.Items = append(f2.Items, c15Item{Graph: true, Digest: v, C14n: a, Merkle: b, HashID: asc32, ExtID: txt})
				f3.Items = append(f3.Items, c15Item{Graph: true, Digest: a, C14n: v, Merkle: b, HashID: asc32, ExtID: txt})
			}
		}
		for _, b := range []uint32{1, 255} {
			for _, v := range vals {
				f4.Items = append(f4.Items, c15Item{Graph: true, Digest: a, C14n: b, Merkle: v, HashID: asc32, ExtID: txt})
			}
		}
	}
	return append(fams, f2, f3, f4)
}

// ---------------------------------------------------------------------------
// oracle 1: round trip of one content hash

type c15Fail struct {
	kind   string
	detail string
}

type c15Eval struct {
	valid bool
	iri   string
	fails []c15Fail
}

func c15KindName(graph bool) string {
	if graph {
		return "graph"
	}
	return "raw"
}

func c15NumDiff(fails []c15Fail, kind, field string, want, got uint32) []c15Fail {
	if want == got {
		return fails
	}
	class := field + "-differs"
	if want > 255 && got == want&0xFF {
		class = field + "-truncated-to-byte"
	}
	return append(fails, c15Fail{"C15/roundtrip/" + kind + "/" + class, fmt.Sprintf("%s %d came back as %d", field, want, got)})
}

// c15ParseIRI calls the implementation's parser and converts a panic into a message.
func c15ParseIRI(s string) (ch *data.ContentHash, err error, panicMsg string) {
	defer func() {
		if p := recover(); p != nil {
			panicMsg = fmt.Sprint(p)
		}
	}()
	ch, err = data.ParseIRI(s)
	return ch, err, ""
}

// c15RoundTrip: if the hash validates then ToIRI succeeds, ParseIRI of the
// result succeeds and returns the identical content hash, field by field.
func c15RoundTrip(t *c15Tables, it c15Item) (ev c15Eval) {
	ch := t.build(it)
	if ch.Validate() != nil {
		return ev
	}
	ev.valid = true
	kind := c15KindName(it.Graph)
	iri, err := ch.ToIRI()
	if err != nil {
		ev.fails = append(ev.fails, c15Fail{"C15/roundtrip/" + kind + "/ToIRI-rejects-valid-hash", "Validate() passes but ToIRI fails: " + err.Error()})
		return ev
	}
	ev.iri = iri
	parsed, perr, pmsg := c15ParseIRI(iri)
	if pmsg != "" {
		ev.fails = append(ev.fails, c15Fail{"C15/roundtrip/" + kind + "/ParseIRI-panics-on-own-IRI", fmt.Sprintf("ParseIRI(%q) panics: %s", iri, pmsg)})
		return ev
	}
	if perr != nil || parsed == nil {
		ev.fails = append(ev.fails, c15Fail{"C15/roundtrip/" + kind + "/ParseIRI-rejects-own-IRI", fmt.Sprintf("ParseIRI(%q) fails: %v", iri, perr)})
		return ev
	}
	want := t.hashes[it.HashID]
	if it.Graph {
		if parsed.Raw != nil || parsed.Graph == nil {
			ev.fails = append(ev.fails, c15Fail{"C15/roundtrip/graph/comes-back-as-other-type", fmt.Sprintf("IRI %q parses to raw=%v graph=%v", iri, parsed.Raw != nil, parsed.Graph != nil)})
			return ev
		}
		g := parsed.Graph
		if !bytes.Equal(g.Hash, want) {
			ev.fails = append(ev.fails, c15Fail{"C15/roundtrip/graph/hash-differs", fmt.Sprintf("hash came back as %x", g.Hash)})
		}
		ev.fails = c15NumDiff(ev.fails, kind, "digest_algorithm", it.Digest, g.DigestAlgorithm)
		ev.fails = c15NumDiff(ev.fails, kind, "canonicalization_algorithm", it.C14n, g.CanonicalizationAlgorithm)
		ev.fails = c15NumDiff(ev.fails, kind, "merkle_tree", it.Merkle, g.MerkleTree)
	} else {
		if parsed.Graph != nil || parsed.Raw == nil {
			ev.fails = append(ev.fails, c15Fail{"C15/roundtrip/raw/comes-back-as-other-type", fmt.Sprintf("IRI %q parses to raw=%v graph=%v", iri, parsed.Raw != nil, parsed.Graph != nil)})
			return ev
		}
		r := parsed.Raw
		if !bytes.Equal(r.Hash, want) {
			ev.fails = append(ev.fails, c15Fail{"C15/roundtrip/raw/hash-differs", fmt.Sprintf("hash came back as %x", r.Hash)})
		}
		ev.fails = c15NumDiff(ev.fails, kind, "digest_algorithm", it.Digest, r.DigestAlgorithm)
		if r.FileExtension != t.exts[it.ExtID] {
			ev.fails = append(ev.fails, c15Fail{"C15/roundtrip/raw/file_extension-differs", fmt.Sprintf("file_extension %q came back as %q", t.exts[it.ExtID], r.FileExtension)})
		}
	}
	return ev
}

// c15FailText is the full human text of a round-trip failure.
func c15FailText(t *c15Tables, it c15Item, iri string, f c15Fail) string {
	if iri == "" {
		return fmt.Sprintf("valid content hash %s: %s", t.text(it), f.detail)
	}
	return fmt.Sprintf("valid content hash %s -> IRI %q -> %s", t.text(it), iri, f.detail)
}

// c15DiffFields names the fields in which two items differ (for collision kinds).
func c15DiffFields(t *c15Tables, a, b c15Item) string {
	if a.Graph != b.Graph {
		return "raw-vs-graph"
	}
	var fs []string
	if a.HashID != b.HashID {
		fs = append(fs, "hash")
	}
	if a.Digest != b.Digest {
		fs = append(fs, "digest_algorithm")
	}
	if a.Graph {
		if a.C14n != b.C14n {
			fs = append(fs, "canonicalization_algorithm")
		}
		if a.Merkle != b.Merkle {
			fs = append(fs, "merkle_tree")
		}
	} else if a.ExtID != b.ExtID {
		fs = append(fs, "file_extension")
	}
	return c15KindName(a.Graph) + "/" + strings.Join(fs, "+")
}

// c15Same: identical as content hashes (fields that do not belong to the
// branch are ignored).
func c15Same(a, b c15Item) bool {
	if a.Graph != b.Graph || a.HashID != b.HashID || a.Digest != b.Digest {
		return false
	}
	if a.Graph {
		return a.C14n == b.C14n && a.Merkle == b.Merkle
	}
	return a.ExtID == b.ExtID
}

func c15Canon(it c15Item) c15Item {
	it.Wrapper = 0
	if it.Graph {
		it.ExtID = 0
	} else {
		it.C14n, it.Merkle = 0, 0
	}
	return it
}

// ---------------------------------------------------------------------------
// findings

type c15Collector struct {
	mu     sync.Mutex
	best   map[string]*c19Found
	counts map[string]int64
}

func newC15Collector() *c15Collector {
	return &c15Collector{best: map[string]*c19Found{}, counts: map[string]int64{}}
}

// add records n occurrences; mk is only called if this is the new simplest
// (lowest order) example of its kind.
func (c *c15Collector) add(kind, where string, order, n int64, mk func() (string, map[string]interface{})) {
	c.mu.Lock()
	defer c.mu.Unlock()
	c.counts[kind] += n
	ord := fmt.Sprintf("%020d", order)
	if b, ok := c.best[kind]; ok && b.order <= ord {
		return
	}
	detail, replay := mk()
	c.best[kind] = &c19Found{kind: kind, where: where, order: ord, detail: detail, replay: replay}
}

// ---------------------------------------------------------------------------
// entry point

const (
	c15ThoroughRawDigestLimit = uint32(1) << 26 // thorough: raw digest_algorithm swept over [0, 2^26]
	c15ThoroughGraphLimit     = uint32(1) << 22 // thorough: each graph field swept over [0, 2^22]
)

type c15IRIKey [20]byte

func c15KeyOf(iri string) c15IRIKey {
	h := sha256.Sum256([]byte(iri))
	var k c15IRIKey
	copy(k[:], h[:20])
	return k
}

// C15 checks "IRI <-> content hash conversion is a lossless bijection".
func C15(tier string) int {
	if tier != "thorough" {
		tier = "quick"
	}
	o := runner.New("C15", tier, "exploration")
	C15Into(tier, o, true)
	return o.Finish()
}

// C15Into runs the enumerator and adds its assumptions, findings and coverage to o (coverage at the top
// level if top, else under coverage.conversion).
func C15Into(tier string, o *runner.Outcome, top bool) {
	if tier != "thorough" {
		tier = "quick"
	}
	cov := map[string]interface{}{}
	defer func() {
		if top {
			for k, v := range cov {
				o.Coverage[k] = v
			}
		} else {
			o.Coverage["conversion"] = cov
		}
	}()
	o.Assumptions = append(o.Assumptions, []string{
		"'valid content hash' means ContentHash.Validate() returns nil (the check MsgAnchor/MsgAttest/MsgRegisterResolver apply); nothing narrower is assumed, in particular the numeric fields are taken over their full uint32 type",
		"bounded: each numeric field is enumerated over every value 0..65535 plus 2^16, 2^24, 2^31, 2^32-1 with the other numeric fields at 1 and 255 (merkle_tree also 0); hash lengths 19..65 with four contents; raw extensions = all strings over {a,z,0,9} up to the stated length plus probes; the thorough tier extends the sweeps as stated under 'thorough_sweeps'",
		"round-trip equality is judged field by field on the Go structs (branch set, hash bytes, numeric fields, extension)",
		"injectivity is judged over all valid hashes enumerated in the base families (a table IRI -> first preimage); hashes of the thorough sweeps are looked up in that table and judged by the round-trip oracle, which implies injectivity where it holds",
		"parser side: an input counts as accepted iff ParseIRI returns nil error; re-encoding is demanded only if the parsed hash also passes Validate() (otherwise ToIRI refuses it and nothing can be anchored under it); accepted-but-invalid inputs are counted and sampled",
		"the gRPC wrappers ConvertHashToIRI / ConvertIRIToHash are not exercised (they call ToIRI / ParseIRI and add only nil/empty checks)",
		"synthetic parser inputs are built with a base58check encoder written in the harness; it is an input builder, not an oracle",
	}...)
	t := newC15Tables()
	col := newC15Collector()
	fams := c15Families(tier, t)
	nw := runtime.GOMAXPROCS(0)

	var order int64
	var hashEvals, validDistinct, invalid int64
	famCounts := map[string]map[string]int64{}
	iriTable := map[c15IRIKey]c15Item{}
	seenValid := map[c15Item]struct{}{}
	var samples []interface{}

	for _, fam := range fams {
		evs := make([]c15Eval, len(fam.Items))
		var wg sync.WaitGroup
		chunk := (len(fam.Items) + nw - 1) / nw
		for w := 0; w < nw; w++ {
			lo, hi := w*chunk, (w+1)*chunk
			if hi > len(fam.Items) {
				hi = len(fam.Items)
			}
			if lo >= hi {
				continue
			}
			wg.Add(1)
			go func(lo, hi int) {
				defer wg.Done()
				for i := lo; i < hi; i++ {
					evs[i] = c15RoundTrip(t, fam.Items[i])
				}
			}(lo, hi)
		}
		wg.Wait()
		fc := map[string]int64{}
		famCounts[fam.Name] = fc
		for i, it := range fam.Items {
			order++
			hashEvals++
			fc["enumerated"]++
			ev := evs[i]
			if !ev.valid {
				invalid++
				fc["rejected_by_Validate"]++
				continue
			}
			fc["valid"]++
			canon := c15Canon(it)
			if _, dup := seenValid[canon]; !dup {
				seenValid[canon] = struct{}{}
				validDistinct++
			}
			if len(ev.fails) == 0 {
				fc["round_trip_ok"]++
				if len(samples) < 4 && (i == 0 || i == len(fam.Items)/2) {
					samples = append(samples, map[string]interface{}{"family": fam.Name, "content_hash": t.describe(it), "iri": ev.iri, "round_trip": "identical"})
				}
			} else {
				fc["round_trip_failed"]++
			}
			for _, f := range ev.fails {
				f, it, iri := f, it, ev.iri
				col.add(f.kind, fam.Name, order, 1, func() (string, map[string]interface{}) {
					return c15FailText(t, it, iri, f), map[string]interface{}{"content_hash": t.describe(it), "iri": iri}
				})
			}
			if ev.iri == "" {
				continue
			}
			// oracle 2: injectivity
			k := c15KeyOf(ev.iri)
			if prev, ok := iriTable[k]; ok {
				if !c15Same(prev, canon) {
					// confirm on the actual strings (the table is keyed by a digest of the IRI)
					pch := t.build(prev)
					if piri, err := pch.ToIRI(); err == nil && piri == ev.iri {
						fc["collisions"]++
						kind := "C15/iri-collision/" + c15DiffFields(t, prev, canon)
						prev, it, iri := prev, it, ev.iri
						col.add(kind, fam.Name, order, 1, func() (string, map[string]interface{}) {
							return fmt.Sprintf("two different valid content hashes map to the same IRI %q: %s and %s", iri, t.text(prev), t.text(it)),
								map[string]interface{}{"iri": iri, "content_hash_a": t.describe(prev), "content_hash_b": t.describe(it)}
						})
					}
				}
			} else {
				iriTable[k] = canon
			}
		}
	}

	// thorough: much larger numeric sweeps, judged by the round-trip oracle and
	// looked up in the injectivity table of the base families
	sweeps := []map[string]interface{}{}
	if tier == "thorough" {
		asc32 := t.hash(c15Content(3, 32))
		txt := t.ext("txt")
		type sweep struct {
			name  string
			limit uint32
			mk    func(v uint32) c15Item
		}
		for _, sw := range []sweep{
			{"raw/digest_algorithm", c15ThoroughRawDigestLimit, func(v uint32) c15Item { return c15Item{Digest: v, HashID: asc32, ExtID: txt} }},
			{"graph/digest_algorithm", c15ThoroughGraphLimit, func(v uint32) c15Item {
				return c15Item{Graph: true, Digest: v, C14n: 1, Merkle: 0, HashID: asc32, ExtID: txt}
			}},
			{"graph/canonicalization_algorithm", c15ThoroughGraphLimit, func(v uint32) c15Item {
				return c15Item{Graph: true, Digest: 1, C14n: v, Merkle: 0, HashID: asc32, ExtID: txt}
			}},
			{"graph/merkle_tree", c15ThoroughGraphLimit, func(v uint32) c15Item {
				return c15Item{Graph: true, Digest: 1, C14n: 1, Merkle: v, HashID: asc32, ExtID: txt}
			}},
		} {
			st := c15Sweep(t, col, iriTable, sw.name, 65537, sw.limit, sw.mk, &order, nw)
			hashEvals += st["enumerated"].(int64)
			// values above 65536 other than the extras were not enumerated before
			newValid := st["valid"].(int64)
			for _, x := range c15NumericExtras {
				if x > 65536 && x <= sw.limit {
					if _, dup := seenValid[c15Canon(sw.mk(x))]; dup {
						newValid--
					}
				}
			}
			validDistinct += newValid
			st["new_distinct_valid"] = newValid
			sweeps = append(sweeps, st)
		}
	}

	// oracle 3: parser side
	ps := c15ParserSide(t, col, &order, nw)

	cov["evaluations"] = hashEvals + ps.Inputs
	cov["distinct_nontrivial"] = validDistinct + ps.AcceptedDistinct
	cov["rule"] = "content hashes: every member of the stated finite families is built, validated, converted to an IRI and parsed back; a hash is distinct by (branch, hash bytes, numeric fields, extension) and non-trivial iff Validate() accepts it; parser inputs: every single-character replacement/deletion/insertion over the stated alphabet on each base IRI, plus every synthetic 'regen:'+base58check(version,payload)[.ext] over the stated payload lengths, type bytes, versions, contents and extensions; a parser input is distinct by its string and non-trivial iff ParseIRI accepts it; distinct_nontrivial = distinct valid hashes round-tripped + distinct accepted parser inputs"
	cov["samples"] = append(samples, ps.Samples...)
	cov["exhaustive"] = true
	cov["hashes_enumerated"] = hashEvals
	cov["hashes_valid_distinct"] = validDistinct
	cov["hashes_rejected_by_Validate"] = invalid
	cov["families"] = famCounts
	cov["thorough_sweeps"] = sweeps
	cov["parser_side"] = ps
	cov["grpc_queries_exercised"] = false
	cov["violation_counts_by_kind"] = col.counts
	cov["workers"] = nw

	kinds := make([]string, 0, len(col.best))
	for k := range col.best {
		kinds = append(kinds, k)
	}
	sort.Strings(kinds)
	for _, k := range kinds {
		f := col.best[k]
		f.replay["kind"] = k
		f.replay["occurrences"] = col.counts[k]
		bz, _ := json.Marshal(f.replay)
		o.Findings = append(o.Findings, runner.Finding{Kind: k, Detail: fmt.Sprintf("%s (%d occurrences of this kind)", f.detail, col.counts[k]), Engine: "B", Where: f.where, Replay: bz})
	}

}

// c15Sweep evaluates mk(v) for v in [from, limit] in parallel blocks and
// merges block results in ascending order (deterministic).
func c15Sweep(t *c15Tables, col *c15Collector, table map[c15IRIKey]c15Item, name string, from, limit uint32, mk func(uint32) c15Item, order *int64, nw int) map[string]interface{} {
	type blockRes struct {
		enumerated, valid, ok, failed, collisions int64
		firstFail                                 map[string]*c19Found // by kind, lowest v in block
		counts                                    map[string]int64
	}
	const blockSize = 1 << 16
	var blocks [][2]uint32
	for lo := uint64(from); lo <= uint64(limit); lo += blockSize {
		hi := lo + blockSize - 1
		if hi > uint64(limit) {
			hi = uint64(limit)
		}
		blocks = append(blocks, [2]uint32{uint32(lo), uint32(hi)})
	}
	res := make([]blockRes, len(blocks))
	jobs := make(chan int, len(blocks))
	for i := range blocks {
		jobs <- i
	}
	close(jobs)
	base := *order
	var wg sync.WaitGroup
	for w := 0; w < nw; w++ {
		wg.Add(1)
		go func() {
			defer wg.Done()
			for bi := range jobs {
				br := blockRes{firstFail: map[string]*c19Found{}, counts: map[string]int64{}}
				for v := uint64(blocks[bi][0]); v <= uint64(blocks[bi][1]); v++ {
					it := mk(uint32(v))
					br.enumerated++
					ev := c15RoundTrip(t, it)
					if !ev.valid {
						continue
					}
					br.valid++
					ord := base + int64(v-uint64(from)) + 1
					note := func(kind string, mk func() (string, map[string]interface{})) {
						br.counts[kind]++
						if _, ok := br.firstFail[kind]; !ok {
							detail, replay := mk()
							br.firstFail[kind] = &c19Found{kind: kind, where: "sweep/" + name, order: fmt.Sprintf("%020d", ord), detail: detail, replay: replay}
						}
					}
					if len(ev.fails) == 0 {
						br.ok++
					} else {
						br.failed++
					}
					for _, f := range ev.fails {
						f := f
						note(f.kind, func() (string, map[string]interface{}) {
							return c15FailText(t, it, ev.iri, f), map[string]interface{}{"content_hash": t.describe(it), "iri": ev.iri}
						})
					}
					if ev.iri == "" {
						continue
					}
					if prev, ok := table[c15KeyOf(ev.iri)]; ok && !c15Same(prev, c15Canon(it)) {
						pch := t.build(prev)
						if piri, err := pch.ToIRI(); err == nil && piri == ev.iri {
							br.collisions++
							note("C15/iri-collision/"+c15DiffFields(t, prev, c15Canon(it)), func() (string, map[string]interface{}) {
								return fmt.Sprintf("two different valid content hashes map to the same IRI %q: %s and %s", ev.iri, t.text(prev), t.text(it)),
									map[string]interface{}{"iri": ev.iri, "content_hash_a": t.describe(prev), "content_hash_b": t.describe(it)}
							})
						}
					}
				}
				res[bi] = br
			}
		}()
	}
	wg.Wait()
	var tot blockRes
	for _, br := range res {
		tot.enumerated += br.enumerated
		tot.valid += br.valid
		tot.ok += br.ok
		tot.failed += br.failed
		tot.collisions += br.collisions
		for k, n := range br.counts {
			f := br.firstFail[k]
			var ord int64
			fmt.Sscanf(f.order, "%d", &ord)
			col.add(k, f.where, ord, n, func() (string, map[string]interface{}) { return f.detail, f.replay })
		}
	}
	*order = base + int64(limit-from) + 1
	return map[string]interface{}{"field": name, "from": from, "to": limit, "enumerated": tot.enumerated, "valid": tot.valid,
		"round_trip_ok": tot.ok, "round_trip_failed": tot.failed, "collisions_with_base_families": tot.collisions}
}
