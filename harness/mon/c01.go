package mon

import (
	"fmt"
	"math/big"

	sdk "github.com/cosmos/cosmos-sdk/types"

	"verif/harness/chain"
	"verif/harness/explore"
	"verif/harness/ref"
)

// C01 — credit conservation: per batch, tradable supply = Σ(tradable+escrowed)
// + Σ basket holdings, retired supply = Σ retired; every stored amount is a
// non-negative decimal within the credit type precision; the registered
// batch-supply invariant agrees.
type C01 struct {
	counters
	noGhost
	noStep
}

func (*C01) Name() string { return "C01" }

func (m *C01) OnState(_ explore.Ghost, c *chain.Chain, ctx sdk.Context, s *chain.Snapshot) []V {
	var out []V
	trad := map[uint64]*big.Rat{}
	ret := map[uint64]*big.Rat{}
	get := func(mp map[uint64]*big.Rat, k uint64) *big.Rat {
		if mp[k] == nil {
			mp[k] = ref.Zero()
		}
		return mp[k]
	}
	bad := func(table, col, why string, key uint64, val string) {
		out = append(out, V{Kind: fmt.Sprintf("C01/amount-invalid/%s.%s/%s", table, col, why),
			Detail: fmt.Sprintf("%s.%s of batch %s = %q", table, col, denomOf(s, key), val)})
	}
	for _, b := range s.Balances {
		p := precision(s, b.BatchKey)
		for _, f := range []struct{ col, v string }{{"tradable", b.TradableAmount}, {"retired", b.RetiredAmount}, {"escrowed", b.EscrowedAmount}} {
			r, why := amount(f.v, p)
			if why != "" {
				bad("BatchBalance", f.col, why, b.BatchKey, f.v)
			}
			if f.col == "retired" {
				get(ret, b.BatchKey).Add(get(ret, b.BatchKey), r)
			} else {
				get(trad, b.BatchKey).Add(get(trad, b.BatchKey), r)
			}
		}
		if rat(b.EscrowedAmount).Sign() > 0 {
			m.inc("states_with_escrow")
		}
	}
	for _, bb := range s.BasketBalances {
		b := s.BatchByDenom(bb.BatchDenom)
		if b == nil {
			out = append(out, V{Kind: "C01/basket-balance-unknown-batch", Detail: "basket balance for unknown batch " + bb.BatchDenom})
			continue
		}
		r, why := amount(bb.Balance, precision(s, b.Key))
		if why != "" {
			bad("BasketBalance", "balance", why, b.Key, bb.Balance)
		}
		get(trad, b.Key).Add(get(trad, b.Key), r)
		m.inc("basket_rows_seen")
	}
	for _, o := range s.SellOrders {
		if _, why := amount(o.Quantity, precision(s, o.BatchKey)); why != "" {
			bad("SellOrder", "quantity", why, o.BatchKey, o.Quantity)
		}
	}
	seen := map[uint64]bool{}
	for _, sp := range s.Supplies {
		seen[sp.BatchKey] = true
		p := precision(s, sp.BatchKey)
		t, why := amount(sp.TradableAmount, p)
		if why != "" {
			bad("BatchSupply", "tradable", why, sp.BatchKey, sp.TradableAmount)
		}
		r, why := amount(sp.RetiredAmount, p)
		if why != "" {
			bad("BatchSupply", "retired", why, sp.BatchKey, sp.RetiredAmount)
		}
		if _, why := amount(sp.CancelledAmount, p); why != "" {
			bad("BatchSupply", "cancelled", why, sp.BatchKey, sp.CancelledAmount)
		}
		if t.Cmp(get(trad, sp.BatchKey)) != 0 {
			out = append(out, V{Kind: "C01/supply-mismatch/tradable",
				Detail: fmt.Sprintf("batch %s: tradable supply %s but balances+escrow+baskets sum to %s", denomOf(s, sp.BatchKey), sp.TradableAmount, get(trad, sp.BatchKey).FloatString(8))})
		}
		if r.Cmp(get(ret, sp.BatchKey)) != 0 {
			out = append(out, V{Kind: "C01/supply-mismatch/retired",
				Detail: fmt.Sprintf("batch %s: retired supply %s but retired balances sum to %s", denomOf(s, sp.BatchKey), sp.RetiredAmount, get(ret, sp.BatchKey).FloatString(8))})
		}
	}
	for _, b := range s.Batches {
		if !seen[b.Key] {
			out = append(out, V{Kind: "C01/supply-row-missing", Detail: "batch " + b.Denom + " has no BatchSupply row"})
		}
	}
	for k, v := range trad {
		if !seen[k] && v.Sign() != 0 {
			out = append(out, V{Kind: "C01/holdings-without-supply", Detail: fmt.Sprintf("batch key %d held but no supply row", k)})
		}
	}
	// the chain's own registered invariant
	for _, inv := range c.Invariants {
		if inv.Route != "batch-supply" {
			continue
		}
		m.inc("registered_invariant_evaluations")
		msg, broken := runInv(inv, ctx)
		if broken {
			out = append(out, V{Kind: "C01/registered-invariant/broken", Detail: msg})
		}
	}
	m.inc("states_checked")
	return out
}

func runInv(inv chain.NamedInvariant, ctx sdk.Context) (msg string, broken bool) {
	defer func() {
		if r := recover(); r != nil {
			msg, broken = fmt.Sprintf("invariant %s/%s panicked: %v", inv.Module, inv.Route, r), true
		}
	}()
	return inv.Fn(ctx)
}
