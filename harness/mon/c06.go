package mon

import (
	"fmt"
	"math/big"
	"strings"
	"time"

	sdk "github.com/cosmos/cosmos-sdk/types"

	markettypes "github.com/regen-network/regen-ledger/x/ecocredit/v3/marketplace/types/v1"

	"verif/harness/chain"
	"verif/harness/explore"
	"verif/harness/ref"
)

// C06 — escrow equals open sell orders; orders are well-formed; the ask denom
// was allowed when the order was created or last updated.
type C06 struct {
	counters
	noGhost
}

func (*C06) Name() string { return "C06" }

func (m *C06) OnState(_ explore.Ghost, _ *chain.Chain, _ sdk.Context, s *chain.Snapshot) []V {
	var out []V
	sum := map[abKey]*big.Rat{}
	for _, o := range s.SellOrders {
		k := abKey{addrStr(o.Seller), o.BatchKey}
		if sum[k] == nil {
			sum[k] = ref.Zero()
		}
		q, why := amount(o.Quantity, precision(s, o.BatchKey))
		if why != "" {
			out = append(out, V{Kind: "C06/order-quantity-invalid/" + why, Detail: fmt.Sprintf("order %d quantity %q", o.Id, o.Quantity)})
		} else if q.Sign() <= 0 {
			out = append(out, V{Kind: "C06/order-quantity-not-positive", Detail: fmt.Sprintf("order %d quantity %q", o.Id, o.Quantity)})
		}
		sum[k] = ref.Add(sum[k], q)
		ask, ok := new(big.Int).SetString(o.AskAmount, 10)
		if !ok || ask.Sign() <= 0 {
			out = append(out, V{Kind: "C06/order-ask-not-positive-integer", Detail: fmt.Sprintf("order %d ask amount %q", o.Id, o.AskAmount)})
		}
		if s.BatchByKey(o.BatchKey) == nil {
			out = append(out, V{Kind: "C06/order-batch-dangling", Detail: fmt.Sprintf("order %d references batch key %d", o.Id, o.BatchKey)})
		}
		if s.Market(o.MarketId) == nil {
			out = append(out, V{Kind: "C06/order-market-dangling", Detail: fmt.Sprintf("order %d references market %d", o.Id, o.MarketId)})
		}
	}
	if len(s.SellOrders) > 0 {
		m.inc("states_with_open_orders")
	}
	for _, b := range s.Balances {
		k := abKey{addrStr(b.Address), b.BatchKey}
		want := sum[k]
		if want == nil {
			want = ref.Zero()
		}
		delete(sum, k)
		if rat(b.EscrowedAmount).Cmp(want) != 0 {
			out = append(out, V{Kind: "C06/escrow-differs-from-open-orders",
				Detail: fmt.Sprintf("%s in %s: escrowed %s, open orders sum to %s", k.addr, denomOf(s, b.BatchKey), b.EscrowedAmount, want.FloatString(6))})
		}
	}
	for k, v := range sum {
		if v.Sign() != 0 {
			out = append(out, V{Kind: "C06/orders-without-balance-row", Detail: fmt.Sprintf("%s has open orders (%s) in batch key %d but no balance row", k.addr, v.FloatString(6), k.batch)})
		}
	}
	m.inc("states_checked")
	return out
}

func (m *C06) OnStep(_ explore.Ghost, st *explore.Step) []V {
	if !st.Res.OK || st.Act.Kind != explore.ActMsg {
		return nil
	}
	var ids []uint64
	switch msg := st.Res.Msg.(type) {
	case *markettypes.MsgSell:
		if r, ok := st.Res.Resp.(*markettypes.MsgSellResponse); ok {
			ids = r.SellOrderIds
		}
		m.inc("sells")
	case *markettypes.MsgUpdateSellOrders:
		for _, u := range msg.Updates {
			ids = append(ids, u.SellOrderId)
		}
		m.inc("updates")
	default:
		return nil
	}
	var out []V
	for _, id := range ids {
		o := st.Post.Order(id)
		if o == nil {
			out = append(out, V{Kind: "C06/created-or-updated-order-missing", Detail: fmt.Sprintf("order %d not in state after %s", id, st.Act.Label)})
			continue
		}
		mk := st.Post.Market(o.MarketId)
		if mk == nil {
			continue // reported by OnState
		}
		allowed := false
		for _, d := range st.Pre.AllowedDenoms {
			if d.BankDenom == mk.BankDenom {
				allowed = true
			}
		}
		if !allowed {
			out = append(out, V{Kind: "C06/ask-denom-not-allowed-at-" + actType(st.Act),
				Detail: fmt.Sprintf("order %d got ask denom %s which is not on the allowed list (%s)", id, mk.BankDenom, st.Act.Label)})
		}
		if po := st.Pre.Order(id); po != nil && po.MarketId != o.MarketId {
			m.inc("denom_changes")
		}
	}
	for _, d := range ordersAsRequested(st, ids) {
		out = append(out, V{Kind: "C06/stored-order-differs-from-request/" + actType(st.Act), Detail: d})
	}
	m.inc("orders_compared_with_request")
	return out
}

// wantOrder is what an order must look like according to the messages that wrote it.
type wantOrder struct {
	seller, batch, qty, askAmount, askDenom string
	dar                                     bool
	exp                                     *time.Time // nil: no expiration
}

// asRequested: a created or updated order carries exactly the requested seller, batch, quantity, ask
// amount, ask denomination (through its market, which must be the market of the batch's credit type) and
// auto-retire flag. Every other clause reads these fields back from state, so they must be the request's.
func ordersAsRequested(st *explore.Step, ids []uint64) []string {
	want := map[uint64]*wantOrder{}
	switch msg := st.Res.Msg.(type) {
	case *markettypes.MsgSell:
		if len(ids) != len(msg.Orders) {
			return []string{fmt.Sprintf("%s: %d orders, %d ids in the response", st.Act.Label, len(msg.Orders), len(ids))}
		}
		for i, o := range msg.Orders {
			if o.AskPrice == nil {
				return nil
			}
			want[ids[i]] = &wantOrder{seller: msg.Seller, batch: o.BatchDenom, qty: o.Quantity, askAmount: o.AskPrice.Amount.String(), askDenom: o.AskPrice.Denom, dar: o.DisableAutoRetire, exp: o.Expiration}
		}
	case *markettypes.MsgUpdateSellOrders:
		for _, u := range msg.Updates {
			w := want[u.SellOrderId]
			if w == nil {
				po := st.Pre.Order(u.SellOrderId)
				if po == nil {
					continue
				}
				w = &wantOrder{seller: addrStr(po.Seller), batch: denomOf(st.Pre, po.BatchKey), qty: po.Quantity, askAmount: po.AskAmount}
				if mk := st.Pre.Market(po.MarketId); mk != nil {
					w.askDenom = mk.BankDenom
				}
				if e, has := expiry(po); has {
					w.exp = &e
				}
				want[u.SellOrderId] = w
			}
			w.dar = u.DisableAutoRetire
			if u.NewAskPrice != nil {
				w.askAmount, w.askDenom = u.NewAskPrice.Amount.String(), u.NewAskPrice.Denom
			}
			if u.NewQuantity != "" {
				w.qty = u.NewQuantity
			}
			if u.NewExpiration != nil {
				w.exp = u.NewExpiration // an update without a new expiration leaves the signed one in force
			}
		}
	}
	var out []string
	for id, w := range want {
		o := st.Post.Order(id)
		if o == nil {
			continue // reported elsewhere
		}
		var diffs []string
		if addrStr(o.Seller) != w.seller {
			diffs = append(diffs, fmt.Sprintf("seller %s, requested %s", addrStr(o.Seller), w.seller))
		}
		if d := denomOf(st.Post, o.BatchKey); d != w.batch {
			diffs = append(diffs, fmt.Sprintf("batch %s, requested %s", d, w.batch))
		}
		if rat(o.Quantity).Cmp(rat(w.qty)) != 0 {
			diffs = append(diffs, fmt.Sprintf("quantity %s, requested %s", o.Quantity, w.qty))
		}
		if o.AskAmount != w.askAmount {
			diffs = append(diffs, fmt.Sprintf("ask amount %s, requested %s", o.AskAmount, w.askAmount))
		}
		if e, has := expiry(o); has != (w.exp != nil) || (has && !e.Equal(*w.exp)) {
			diffs = append(diffs, fmt.Sprintf("expiration %v, requested %v", o.Expiration, w.exp))
		}
		if o.DisableAutoRetire != w.dar {
			diffs = append(diffs, fmt.Sprintf("disable_auto_retire %v, requested %v", o.DisableAutoRetire, w.dar))
		}
		if mk := st.Post.Market(o.MarketId); mk != nil {
			if mk.BankDenom != w.askDenom {
				diffs = append(diffs, fmt.Sprintf("market denom %s, requested %s", mk.BankDenom, w.askDenom))
			}
			if b := st.Post.BatchByKey(o.BatchKey); b != nil {
				if p := st.Post.ProjectByKey(b.ProjectKey); p != nil {
					if c := st.Post.ClassByKey(p.ClassKey); c != nil && c.CreditTypeAbbrev != mk.CreditTypeAbbrev {
						diffs = append(diffs, fmt.Sprintf("market %d is for credit type %s, the batch is of type %s", mk.Id, mk.CreditTypeAbbrev, c.CreditTypeAbbrev))
					}
				}
			}
		}
		if len(diffs) > 0 {
			out = append(out, fmt.Sprintf("order %d after %s: %s", id, st.Act.Label, strings.Join(diffs, "; ")))
		}
	}
	return out
}
