package mon

import (
	"fmt"
	"math/big"

	sdk "github.com/cosmos/cosmos-sdk/types"

	markettypes "github.com/regen-network/regen-ledger/x/ecocredit/v3/marketplace/types/v1"

	"verif/harness/chain"
	"verif/harness/explore"
	"verif/harness/ref"
)

// C06 — escrow equals open sell orders; orders are well-formed; the ask denom
// was allowed when the order was created or last updated.
type C06 struct {
	counters
	noGhost
}

func (*C06) Name() string { return "C06" }

func (m *C06) OnState(_ explore.Ghost, _ *chain.Chain, _ sdk.Context, s *chain.Snapshot) []V {
	var out []V
	sum := map[abKey]*big.Rat{}
	for _, o := range s.SellOrders {
		k := abKey{addrStr(o.Seller), o.BatchKey}
		if sum[k] == nil {
			sum[k] = ref.Zero()
		}
		q, why := amount(o.Quantity, precision(s, o.BatchKey))
		if why != "" {
			out = append(out, V{Kind: "C06/order-quantity-invalid/" + why, Detail: fmt.Sprintf("order %d quantity %q", o.Id, o.Quantity)})
		} else if q.Sign() <= 0 {
			out = append(out, V{Kind: "C06/order-quantity-not-positive", Detail: fmt.Sprintf("order %d quantity %q", o.Id, o.Quantity)})
		}
		sum[k] = ref.Add(sum[k], q)
		ask, ok := new(big.Int).SetString(o.AskAmount, 10)
		if !ok || ask.Sign() <= 0 {
			out = append(out, V{Kind: "C06/order-ask-not-positive-integer", Detail: fmt.Sprintf("order %d ask amount %q", o.Id, o.AskAmount)})
		}
		if s.BatchByKey(o.BatchKey) == nil {
			out = append(out, V{Kind: "C06/order-batch-dangling", Detail: fmt.Sprintf("order %d references batch key %d", o.Id, o.BatchKey)})
		}
		if s.Market(o.MarketId) == nil {
			out = append(out, V{Kind: "C06/order-market-dangling", Detail: fmt.Sprintf("order %d references market %d", o.Id, o.MarketId)})
		}
	}
	if len(s.SellOrders) > 0 {
		m.inc("states_with_open_orders")
	}
	for _, b := range s.Balances {
		k := abKey{addrStr(b.Address), b.BatchKey}
		want := sum[k]
		if want == nil {
			want = ref.Zero()
		}
		delete(sum, k)
		if rat(b.EscrowedAmount).Cmp(want) != 0 {
			out = append(out, V{Kind: "C06/escrow-differs-from-open-orders",
				Detail: fmt.Sprintf("%s in %s: escrowed %s, open orders sum to %s", k.addr, denomOf(s, b.BatchKey), b.EscrowedAmount, want.FloatString(6))})
		}
	}
	for k, v := range sum {
		if v.Sign() != 0 {
			out = append(out, V{Kind: "C06/orders-without-balance-row", Detail: fmt.Sprintf("%s has open orders (%s) in batch key %d but no balance row", k.addr, v.FloatString(6), k.batch)})
		}
	}
	m.inc("states_checked")
	return out
}

func (m *C06) OnStep(_ explore.Ghost, st *explore.Step) []V {
	if !st.Res.OK || st.Act.Kind != explore.ActMsg {
		return nil
	}
	var ids []uint64
	switch msg := st.Res.Msg.(type) {
	case *markettypes.MsgSell:
		if r, ok := st.Res.Resp.(*markettypes.MsgSellResponse); ok {
			ids = r.SellOrderIds
		}
		m.inc("sells")
	case *markettypes.MsgUpdateSellOrders:
		for _, u := range msg.Updates {
			ids = append(ids, u.SellOrderId)
		}
		m.inc("updates")
	default:
		return nil
	}
	var out []V
	for _, id := range ids {
		o := st.Post.Order(id)
		if o == nil {
			out = append(out, V{Kind: "C06/created-or-updated-order-missing", Detail: fmt.Sprintf("order %d not in state after %s", id, st.Act.Label)})
			continue
		}
		mk := st.Post.Market(o.MarketId)
		if mk == nil {
			continue // reported by OnState
		}
		allowed := false
		for _, d := range st.Pre.AllowedDenoms {
			if d.BankDenom == mk.BankDenom {
				allowed = true
			}
		}
		if !allowed {
			out = append(out, V{Kind: "C06/ask-denom-not-allowed-at-" + actType(st.Act),
				Detail: fmt.Sprintf("order %d got ask denom %s which is not on the allowed list (%s)", id, mk.BankDenom, st.Act.Label)})
		}
		if po := st.Pre.Order(id); po != nil && po.MarketId != o.MarketId {
			m.inc("denom_changes")
		}
	}
	return out
}
