package mon

import (
	"bytes"
	"encoding/json"
	"fmt"
	"regexp"
	"strings"

	sdk "github.com/cosmos/cosmos-sdk/types"

	"verif/harness/chain"
	"verif/harness/explore"
)

// C09 — every reachable state survives genesis export, validation, import and
// re-export, with all module invariants holding on the imported chain.
type C09 struct {
	counters
	noGhost
	noStep
	// Diff, when non-empty, enables the differential oracle: every event of
	// the list is applied to the original state and to the imported state
	// and must give the same result and the same module exports.
	Diff []explore.Event
}

func (*C09) Name() string { return "C09" }

var reTable = regexp.MustCompile(`table ([A-Za-z0-9_.]+)`)

// errClass turns a validation error into a stable discriminator: the table it
// names plus the last clause of the message with digits and quoted values removed.
func errClass(err string) string {
	tbl := "?"
	if m := reTable.FindStringSubmatch(err); m != nil {
		tbl = m[1]
	}
	msg := err
	if i := strings.Index(msg, " ["); i > 0 {
		msg = msg[:i]
	}
	parts := strings.Split(msg, ": ")
	last := parts[len(parts)-1]
	if len(parts) >= 2 && len(last) < 14 {
		last = parts[len(parts)-2] + ": " + last
	}
	last = regexp.MustCompile(`\([^)]*\)`).ReplaceAllString(last, "")
	last = regexp.MustCompile(`[0-9]+`).ReplaceAllString(last, "N")
	last = regexp.MustCompile(`"[^"]*"`).ReplaceAllString(last, `"…"`)
	last = strings.Join(strings.Fields(last), "-")
	if len(last) > 90 {
		last = last[:90]
	}
	return tbl + "/" + last
}

func canonJSON(bz []byte) []byte {
	var v interface{}
	if err := json.Unmarshal(bz, &v); err != nil {
		return bz
	}
	out, _ := json.Marshal(v) // map keys sorted
	return out
}

func (m *C09) OnState(_ explore.Ghost, c *chain.Chain, ctx sdk.Context, s *chain.Snapshot) []V {
	var out []V
	m.inc("states_round_tripped")
	var eco, dat json.RawMessage
	var perr string
	func() {
		defer func() {
			if r := recover(); r != nil {
				perr = fmt.Sprint(r)
			}
		}()
		eco = c.Eco.ExportGenesis(ctx, c.Cdc)
		var err error
		dat, err = c.DataSrv.ExportGenesis(ctx, c.Cdc)
		if err != nil {
			perr = err.Error()
		}
	}()
	if perr != "" {
		return []V{{Kind: "C09/export-fails/" + errClass(perr), Detail: perr}}
	}
	if err := c.Eco.ValidateGenesis(c.Cdc, nil, eco); err != nil {
		out = append(out, V{Kind: "C09/validate-genesis/ecocredit/" + errClass(err.Error()), Detail: err.Error()})
	}
	if err := c.DataMod.ValidateGenesis(c.Cdc, nil, dat); err != nil {
		out = append(out, V{Kind: "C09/validate-genesis/data/" + errClass(err.Error()), Detail: err.Error()})
	}
	// import into an empty chain (even if validation complained: import and
	// re-export are separate clauses of the property)
	nc := chain.New(chain.Options{Hasher: c.Opts.Hasher})
	nctx := nc.BaseContext(s.Time, s.Height)
	bal := map[string]sdk.Coins{}
	for a, cs := range s.Coins {
		var coins sdk.Coins
		for d, v := range cs {
			if v.Sign() > 0 {
				coins = coins.Add(sdk.NewCoin(d, sdk.NewIntFromBigInt(v)))
			}
		}
		bal[a] = coins
	}
	func() {
		defer func() {
			if r := recover(); r != nil {
				perr = fmt.Sprint(r)
			}
		}()
		nc.InitGenesis(nctx, chain.Genesis{Ecocredit: eco, Data: dat, Balances: bal})
	}()
	if perr != "" {
		return append(out, V{Kind: "C09/import-fails/" + errClass(perr), Detail: perr})
	}
	eco2 := nc.Eco.ExportGenesis(nctx, nc.Cdc)
	dat2, err := nc.DataSrv.ExportGenesis(nctx, nc.Cdc)
	if err != nil {
		return append(out, V{Kind: "C09/re-export-fails", Detail: err.Error()})
	}
	if !bytes.Equal(canonJSON(eco), canonJSON(eco2)) {
		out = append(out, V{Kind: "C09/re-export-differs/ecocredit/" + firstDiffTable(eco, eco2), Detail: "ecocredit genesis changed across import/export in table " + firstDiffTable(eco, eco2)})
	}
	if !bytes.Equal(canonJSON(dat), canonJSON(dat2)) {
		out = append(out, V{Kind: "C09/re-export-differs/data/" + firstDiffTable(dat, dat2), Detail: "data genesis changed across import/export in table " + firstDiffTable(dat, dat2)})
	}
	msgs, broken := nc.RunInvariants(nctx)
	for i := range msgs {
		if broken[i] {
			out = append(out, V{Kind: "C09/invariant-broken-after-import/" + nc.Invariants[i].Route, Detail: msgs[i]})
		}
	}
	if len(m.Diff) > 0 && len(out) == 0 {
		for _, ev := range m.Diff {
			a := ev.Make(s)
			if a == nil {
				continue
			}
			p1, _, r1, _ := explore.Apply(c, ctx, a)
			p2, _, r2, _ := explore.Apply(nc, nctx, a)
			m.inc("differential_events_applied")
			if r1.OK != r2.OK || r1.Err != r2.Err {
				out = append(out, V{Kind: "C09/differential/result-differs/" + actType(a),
					Detail: fmt.Sprintf("%s: original ok=%v %q, imported ok=%v %q", a.Label, r1.OK, r1.Err, r2.OK, r2.Err)})
				continue
			}
			if !r1.OK && a.Kind != explore.ActNextBlock {
				continue
			}
			e1, e2 := c.Eco.ExportGenesis(p1, c.Cdc), nc.Eco.ExportGenesis(p2, nc.Cdc)
			if !bytes.Equal(canonJSON(e1), canonJSON(e2)) {
				out = append(out, V{Kind: "C09/differential/state-differs/" + actType(a) + "/" + firstDiffTable(e1, e2),
					Detail: fmt.Sprintf("%s leads to different ecocredit state from the original and from the imported chain (table %s)", a.Label, firstDiffTable(e1, e2))})
			}
			d1, err1 := c.DataSrv.ExportGenesis(p1, c.Cdc)
			d2, err2 := nc.DataSrv.ExportGenesis(p2, nc.Cdc)
			if err1 == nil && err2 == nil && !bytes.Equal(canonJSON(d1), canonJSON(d2)) {
				out = append(out, V{Kind: "C09/differential/state-differs/" + actType(a) + "/" + firstDiffTable(d1, d2),
					Detail: fmt.Sprintf("%s leads to different data state from the original and from the imported chain", a.Label)})
			}
		}
	}
	if len(s.Batches) > 0 {
		m.inc("states_with_batches")
	}
	if len(s.Resolvers) > 0 {
		m.inc("states_with_resolvers")
	}
	if len(s.BasketBalances) > 0 {
		m.inc("states_with_basket_balances")
	}
	if len(s.SellOrders) > 0 {
		m.inc("states_with_orders")
	}
	return out
}

func firstDiffTable(a, b []byte) string {
	var ma, mb map[string]json.RawMessage
	if json.Unmarshal(a, &ma) != nil || json.Unmarshal(b, &mb) != nil {
		return "?"
	}
	var ks []string
	for k := range ma {
		ks = append(ks, k)
	}
	for k := range mb {
		if _, ok := ma[k]; !ok {
			ks = append(ks, k)
		}
	}
	sortStrings(ks)
	for _, k := range ks {
		if !bytes.Equal(canonJSON(ma[k]), canonJSON(mb[k])) {
			return k
		}
	}
	return "?"
}
