package mon

import (
	"fmt"
	"math/big"
	"regexp"

	sdk "github.com/cosmos/cosmos-sdk/types"

	baskettypes "github.com/regen-network/regen-ledger/x/ecocredit/v3/basket/types/v1"

	"verif/harness/chain"
	"verif/harness/explore"
	"verif/harness/ref"
)

// C05 — basket tokens fully backed: bank supply of the basket denom equals
// Σ basket balances × 10^precision exactly; Put mints exactly, Take burns
// exactly; the registered basket-supply invariant never reports a failure.
type C05 struct {
	counters
	noGhost
}

func (*C05) Name() string { return "C05" }

var canonicalInt = regexp.MustCompile(`^(0|[1-9][0-9]*)$`)

func basketPrecision(s *chain.Snapshot, creditTypeAbbrev string) int {
	if ct := s.CreditType(creditTypeAbbrev); ct != nil {
		return int(ct.Precision)
	}
	return -1
}

// backing returns Σ balances × 10^precision of a basket as an exact rational.
func backing(s *chain.Snapshot, basketID uint64, prec int) *big.Rat {
	sum := ref.Zero()
	for _, bb := range s.BasketBalances {
		if bb.BasketId == basketID {
			sum = ref.Add(sum, rat(bb.Balance))
		}
	}
	return ref.Mul(sum, ref.RatOfInt(ref.Pow10(prec)))
}

func (m *C05) OnState(_ explore.Ghost, c *chain.Chain, ctx sdk.Context, s *chain.Snapshot) []V {
	var out []V
	maxDigits := 0
	for _, b := range s.Baskets {
		prec := basketPrecision(s, b.CreditTypeAbbrev)
		if prec < 0 {
			out = append(out, V{Kind: "C05/basket-credit-type-dangling", Detail: b.BasketDenom})
			continue
		}
		want := backing(s, b.Id, prec)
		got := ref.RatOfInt(s.TotalSupply(b.BasketDenom))
		if want.Cmp(got) != 0 {
			out = append(out, V{Kind: "C05/supply-differs-from-backing",
				Detail: fmt.Sprintf("basket %s: bank supply %s, credits x 10^%d = %s", b.BasketDenom, s.TotalSupply(b.BasketDenom), prec, want.FloatString(3))})
		}
		if d := ref.SigDigits(want); d > maxDigits {
			maxDigits = d
		}
		if got.Sign() > 0 {
			m.inc("nonempty_basket_states")
		}
	}
	if maxDigits > 34 {
		m.inc("states_with_total_over_34_digits")
	}
	for _, inv := range c.Invariants {
		if inv.Route != "basket-supply" {
			continue
		}
		m.inc("registered_invariant_evaluations")
		msg, broken := runInv(inv, ctx)
		if broken {
			kind := "C05/registered-invariant/false-report"
			if len(out) > 0 {
				kind = "C05/registered-invariant/broken"
			}
			if maxDigits > 34 {
				kind += "/total-digits>34"
			}
			out = append(out, V{Kind: kind, Detail: msg})
		}
	}
	m.inc("states_checked")
	return out
}

func creditDelta(pre, post *chain.Snapshot, addr sdk.AccAddress, denom string) (dT, dR *big.Rat) {
	dT, dR = ref.Zero(), ref.Zero()
	b := post.BatchByDenom(denom)
	if b == nil {
		return
	}
	t0, r0 := ref.Zero(), ref.Zero()
	if x := pre.Balance(addr, b.Key); x != nil {
		t0, r0 = rat(x.TradableAmount), rat(x.RetiredAmount)
	}
	t1, r1 := ref.Zero(), ref.Zero()
	if x := post.Balance(addr, b.Key); x != nil {
		t1, r1 = rat(x.TradableAmount), rat(x.RetiredAmount)
	}
	return ref.Sub(t1, t0), ref.Sub(r1, r0)
}

func (m *C05) OnStep(_ explore.Ghost, st *explore.Step) []V {
	if !st.Res.OK || st.Act.Kind != explore.ActMsg {
		return nil
	}
	var out []V
	switch msg := st.Res.Msg.(type) {
	case *baskettypes.MsgPut:
		b := st.Pre.BasketByDenom(msg.BasketDenom)
		if b == nil {
			return []V{{Kind: "C05/put-into-unknown-basket-succeeded", Detail: st.Act.Label}}
		}
		prec := basketPrecision(st.Pre, b.CreditTypeAbbrev)
		sum := ref.Zero()
		for _, c := range msg.Credits {
			sum = ref.Add(sum, rat(c.Amount))
		}
		want := ref.Mul(sum, ref.RatOfInt(ref.Pow10(prec)))
		owner := msg.Owner
		gotBal := new(big.Int).Sub(st.Post.Coin(owner, b.BasketDenom), st.Pre.Coin(owner, b.BasketDenom))
		gotSup := new(big.Int).Sub(st.Post.TotalSupply(b.BasketDenom), st.Pre.TotalSupply(b.BasketDenom))
		if ref.RatOfInt(gotBal).Cmp(want) != 0 || ref.RatOfInt(gotSup).Cmp(want) != 0 {
			out = append(out, V{Kind: "C05/put-mint-not-exact",
				Detail: fmt.Sprintf("%s: expected %s tokens, depositor got %s, supply grew %s", st.Act.Label, want.FloatString(3), gotBal, gotSup)})
		}
		if r, ok := st.Res.Resp.(*baskettypes.MsgPutResponse); ok {
			if rat(r.AmountReceived).Cmp(want) != 0 {
				out = append(out, V{Kind: "C05/put-response-wrong", Detail: fmt.Sprintf("%s: response says %s, exact %s", st.Act.Label, r.AmountReceived, want.FloatString(3))})
			}
		}
		m.inc("puts")
	case *baskettypes.MsgTake:
		b := st.Pre.BasketByDenom(msg.BasketDenom)
		if b == nil {
			return []V{{Kind: "C05/take-from-unknown-basket-succeeded", Detail: st.Act.Label}}
		}
		prec := basketPrecision(st.Pre, b.CreditTypeAbbrev)
		owner := msg.Owner
		burnt := new(big.Int).Sub(st.Pre.TotalSupply(b.BasketDenom), st.Post.TotalSupply(b.BasketDenom))
		debited := new(big.Int).Sub(st.Pre.Coin(owner, b.BasketDenom), st.Post.Coin(owner, b.BasketDenom))
		if burnt.Cmp(debited) != 0 {
			out = append(out, V{Kind: "C05/take-burn-differs-from-taker-debit",
				Detail: fmt.Sprintf("%s: burnt %s, taker debited %s", st.Act.Label, burnt, debited)})
		}
		// "the amount taken": where the request is a plain decimal numeral it is that number; for other
		// spellings the integer parser accepts (leading zeros, base prefixes) only consistency is demanded
		if canonicalInt.MatchString(msg.Amount) {
			amt, _ := new(big.Int).SetString(msg.Amount, 10)
			if burnt.Cmp(amt) != 0 {
				out = append(out, V{Kind: "C05/take-burn-not-exact",
					Detail: fmt.Sprintf("%s: amount %s, burnt %s, taker debited %s", st.Act.Label, amt, burnt, debited)})
			}
		} else {
			m.inc("takes_with_non_canonical_amount_spelling")
		}
		wantCredits := new(big.Rat).Quo(ref.RatOfInt(burnt), ref.RatOfInt(ref.Pow10(prec)))
		if r, ok := st.Res.Resp.(*baskettypes.MsgTakeResponse); ok {
			sum := ref.Zero()
			ownerAddr := sdk.MustAccAddressFromBech32(owner)
			seen := map[string]bool{}
			delta := ref.Zero()
			for _, c := range r.Credits {
				sum = ref.Add(sum, rat(c.Amount))
				if !seen[c.BatchDenom] {
					seen[c.BatchDenom] = true
					dT, dR := creditDelta(st.Pre, st.Post, ownerAddr, c.BatchDenom)
					delta = ref.Add(delta, ref.Add(dT, dR))
				}
			}
			if sum.Cmp(wantCredits) != 0 {
				out = append(out, V{Kind: "C05/take-credits-released-differ-from-tokens-burnt",
					Detail: fmt.Sprintf("%s: %s tokens burnt = %s credits, response releases %s", st.Act.Label, burnt, wantCredits.FloatString(8), sum.FloatString(8))})
			}
			if delta.Cmp(sum) != 0 {
				out = append(out, V{Kind: "C05/take-credit-delta-differs-from-response",
					Detail: fmt.Sprintf("%s: taker's credit balances grew by %s, response says %s", st.Act.Label, delta.FloatString(8), sum.FloatString(8))})
			}
		} else {
			out = append(out, V{Kind: "C05/take-no-response", Detail: st.Act.Label})
		}
		m.inc("takes")
	}
	return out
}
