package mon

import (
	"fmt"
	"math/big"
	"sort"
	"time"

	sdk "github.com/cosmos/cosmos-sdk/types"
	"google.golang.org/protobuf/types/known/timestamppb"

	basketapi "github.com/regen-network/regen-ledger/api/v2/regen/ecocredit/basket/v1"
	baskettypes "github.com/regen-network/regen-ledger/x/ecocredit/v3/basket/types/v1"

	"verif/harness/chain"
	"verif/harness/explore"
	"verif/harness/ref"
)

// C11 — basket admission (iff), oldest-first release, auto-retire.
type C11 struct {
	counters
	noGhost
	noState
}

func (*C11) Name() string { return "C11" }

type tsKey struct {
	s int64
	n int32
}

func tsOf(t *timestamppb.Timestamp) tsKey {
	if t == nil {
		return tsKey{}
	}
	return tsKey{t.Seconds, t.Nanos}
}

func (a tsKey) less(b tsKey) bool { return a.s < b.s || (a.s == b.s && a.n < b.n) }

// minDate evaluates the basket's date criterion at block time; ok=false means
// no restriction.
func minDate(dc *basketapi.DateCriteria, block time.Time) (tsKey, bool, string) {
	if dc == nil {
		return tsKey{}, false, "none"
	}
	switch {
	case dc.MinStartDate != nil:
		return tsOf(dc.MinStartDate), true, "min-start-date"
	case dc.StartDateWindow != nil:
		// block time minus the window, in integer seconds and nanoseconds
		s := block.Unix() - dc.StartDateWindow.Seconds
		n := int64(block.Nanosecond()) - int64(dc.StartDateWindow.Nanos)
		for n < 0 {
			n += 1e9
			s--
		}
		for n >= 1e9 {
			n -= 1e9
			s++
		}
		return tsKey{s, int32(n)}, true, "window"
	case dc.YearsInThePast != 0:
		y := block.UTC().Year() - int(dc.YearsInThePast)
		return tsKey{time.Date(y, 1, 1, 0, 0, 0, 0, time.UTC).Unix(), 0}, true, "years-in-the-past"
	}
	return tsKey{}, false, "none"
}

func (m *C11) OnStep(_ explore.Ghost, st *explore.Step) []V {
	if st.Act.Kind != explore.ActMsg {
		return nil
	}
	switch msg := st.Res.Msg.(type) {
	case *baskettypes.MsgPut:
		return m.put(st, msg)
	case *baskettypes.MsgTake:
		return m.take(st, msg)
	case *baskettypes.MsgUpdateDateCriteria:
		if st.Res.OK {
			m.inc("criteria_updates")
			return m.stored(st, msg.Denom, msg.NewDateCriteria)
		}
	case *baskettypes.MsgCreate:
		if r, ok := st.Res.Resp.(*baskettypes.MsgCreateResponse); ok && st.Res.OK {
			m.inc("baskets_created")
			out := m.stored(st, r.BasketDenom, msg.DateCriteria)
			// the other admission inputs of the new basket are the requested ones too
			if b := st.Post.BasketByDenom(r.BasketDenom); b != nil {
				want := map[string]bool{}
				for _, c := range msg.AllowedClasses {
					want[c] = true
				}
				got := map[string]bool{}
				for _, bc := range st.Post.BasketClasses {
					if bc.BasketId == b.Id {
						got[bc.ClassId] = true
					}
				}
				if fmt.Sprint(want) != fmt.Sprint(got) || b.CreditTypeAbbrev != msg.CreditTypeAbbrev || b.DisableAutoRetire != msg.DisableAutoRetire {
					out = append(out, V{Kind: "C11/stored-basket-differs-from-request",
						Detail: fmt.Sprintf("%s: requested classes %v type %s disable_auto_retire=%v, stored classes %v type %s disable_auto_retire=%v",
							st.Act.Label, want, msg.CreditTypeAbbrev, msg.DisableAutoRetire, got, b.CreditTypeAbbrev, b.DisableAutoRetire)})
				}
			}
			return out
		}
	}
	return nil
}

// critTuple is a date criterion field by field (presence included).
type critTuple struct {
	hasMin, hasWin bool
	min, win       tsKey
	years          uint32
}

func (c critTuple) String() string {
	return fmt.Sprintf("{min:%v %d.%09d window:%v %d.%09d years:%d}", c.hasMin, c.min.s, c.min.n, c.hasWin, c.win.s, c.win.n, c.years)
}

// stored: the criterion a basket holds after a successful create/update is exactly the one the message
// carried — admission is evaluated against the stored one, so "the criteria in force" is only as good as this.
func (m *C11) stored(st *explore.Step, denom string, req *baskettypes.DateCriteria) []V {
	var want, got critTuple
	if req != nil {
		if req.MinStartDate != nil {
			want.hasMin, want.min = true, tsKey{req.MinStartDate.Seconds, req.MinStartDate.Nanos}
		}
		if req.StartDateWindow != nil {
			want.hasWin, want.win = true, tsKey{req.StartDateWindow.Seconds, req.StartDateWindow.Nanos}
		}
		want.years = req.YearsInThePast
	}
	b := st.Post.BasketByDenom(denom)
	if b == nil {
		return []V{{Kind: "C11/basket-missing-after-create-or-update", Detail: st.Act.Label}}
	}
	if dc := b.DateCriteria; dc != nil {
		if dc.MinStartDate != nil {
			got.hasMin, got.min = true, tsOf(dc.MinStartDate)
		}
		if dc.StartDateWindow != nil {
			got.hasWin, got.win = true, tsKey{dc.StartDateWindow.Seconds, dc.StartDateWindow.Nanos}
		}
		got.years = dc.YearsInThePast
	}
	if want != got {
		return []V{{Kind: "C11/stored-criterion-differs-from-request",
			Detail: fmt.Sprintf("%s: requested %v, basket %s now holds %v", st.Act.Label, want, denom, got)}}
	}
	return nil
}

func (m *C11) put(st *explore.Step, msg *baskettypes.MsgPut) []V {
	if st.Res.Stage == "validate" || st.Res.Stage == "decode" {
		return nil // never reached the handler (stateless validation)
	}
	pre := st.Pre
	reason := ""
	fail := func(r string) {
		if reason == "" {
			reason = r
		}
	}
	b := pre.BasketByDenom(msg.BasketDenom)
	owner := sdk.MustAccAddressFromBech32(msg.Owner)
	critKind := "none"
	if b == nil {
		fail("unknown-basket")
	} else {
		prec := basketPrecision(pre, b.CreditTypeAbbrev)
		spent := map[uint64]*big.Rat{}
		md, restricted, ck := minDate(b.DateCriteria, pre.Time)
		critKind = ck
		for _, c := range msg.Credits {
			batch := pre.BatchByDenom(c.BatchDenom)
			if batch == nil {
				fail("unknown-batch")
				continue
			}
			proj := pre.ProjectByKey(batch.ProjectKey)
			var classID, classType string
			if proj != nil {
				if cl := pre.ClassByKey(proj.ClassKey); cl != nil {
					classID, classType = cl.Id, cl.CreditTypeAbbrev
				}
			}
			allowed := false
			for _, bc := range pre.BasketClasses {
				if bc.BasketId == b.Id && bc.ClassId == classID {
					allowed = true
				}
			}
			if !allowed {
				fail("class-not-allowed")
			}
			if classType != b.CreditTypeAbbrev {
				fail("credit-type-mismatch")
			}
			if restricted {
				sd := tsOf(batch.StartDate)
				if sd.less(md) {
					fail("start-date-before-criterion/" + ck)
				}
				if sd == md {
					m.inc("puts_exactly_at_boundary." + ck)
				}
			}
			d, err := ref.Parse(c.Amount)
			if err != nil || d.R.Sign() <= 0 {
				fail("amount-not-positive")
				continue
			}
			if d.Places > prec {
				fail("amount-beyond-precision")
			}
			if ref.SigDigits(d.R) > 34 {
				return nil // outside C11's stated alphabet bound
			}
			if spent[batch.Key] == nil {
				spent[batch.Key] = ref.Zero()
			}
			spent[batch.Key] = ref.Add(spent[batch.Key], d.R)
			have := ref.Zero()
			if bal := pre.Balance(owner, batch.Key); bal != nil {
				have = rat(bal.TradableAmount)
			}
			if have.Cmp(spent[batch.Key]) < 0 {
				fail("insufficient-credits")
			}
		}
	}
	var out []V
	if st.Res.OK && b != nil {
		// the start date kept in the basket's balance rows (the key of the index Take walks) mirrors the batch's
		for _, bb := range st.Post.BasketBalances {
			if bb.BasketId != b.Id {
				continue
			}
			if batch := st.Post.BatchByDenom(bb.BatchDenom); batch != nil && tsOf(bb.BatchStartDate) != tsOf(batch.StartDate) || (batch != nil && (bb.BatchStartDate == nil) != (batch.StartDate == nil)) {
				out = append(out, V{Kind: "C11/basket-balance-start-date-differs-from-batch",
					Detail: fmt.Sprintf("%s: balance row of %s in basket %s carries start date %v, the batch starts %v", st.Act.Label, bb.BatchDenom, b.BasketDenom, bb.BatchStartDate, batch.StartDate)})
			}
		}
	}
	switch {
	case st.Res.OK && reason != "":
		out = append(out, V{Kind: "C11/put-accepted-although/" + reason, Detail: fmt.Sprintf("%s at block time %s", st.Act.Label, pre.Time.Format(time.RFC3339Nano))})
	case !st.Res.OK && reason == "":
		out = append(out, V{Kind: "C11/put-rejected-although-admissible/" + critKind, Detail: fmt.Sprintf("%s at block time %s: %s", st.Act.Label, pre.Time.Format(time.RFC3339Nano), st.Res.Err)})
	case st.Res.OK:
		m.inc("puts_admitted." + critKind)
	default:
		m.inc("puts_refused." + reason)
	}
	return out
}

func (m *C11) take(st *explore.Step, msg *baskettypes.MsgTake) []V {
	pre, post := st.Pre, st.Post
	b := pre.BasketByDenom(msg.BasketDenom)
	if !st.Res.OK || b == nil {
		return nil
	}
	var out []V
	bad := func(kind, detail string) {
		out = append(out, V{Kind: "C11/" + kind, Detail: detail + " [" + st.Act.Label + "]"})
	}
	// auto-retire
	if !b.DisableAutoRetire && !msg.RetireOnTake {
		bad("take-without-retirement-from-auto-retire-basket", b.BasketDenom)
	}
	retire := msg.RetireOnTake
	prec := basketPrecision(pre, b.CreditTypeAbbrev)
	// the amount taken = the basket tokens actually burnt (how the numeral in the request is read,
	// and whether burn and release agree, is C05's subject)
	amt := new(big.Int).Sub(pre.TotalSupply(b.BasketDenom), post.TotalSupply(b.BasketDenom))
	need := new(big.Rat).Quo(ref.RatOfInt(amt), ref.RatOfInt(ref.Pow10(prec)))
	resp, ok := st.Res.Resp.(*baskettypes.MsgTakeResponse)
	if !ok {
		bad("take-no-response", "")
		return out
	}
	// pre-state holdings of this basket
	type row struct {
		denom string
		start tsKey
		bal   *big.Rat
	}
	var rows []row
	for _, bb := range pre.BasketBalances {
		if bb.BasketId == b.Id {
			rows = append(rows, row{bb.BatchDenom, tsOf(bb.BatchStartDate), rat(bb.Balance)})
			// the stored date must be the batch's own start date (it drives the order)
			if batch := pre.BatchByDenom(bb.BatchDenom); batch != nil && tsOf(batch.StartDate) != tsOf(bb.BatchStartDate) {
				bad("basket-balance-start-date-differs-from-batch", bb.BatchDenom)
			}
		}
	}
	sort.SliceStable(rows, func(i, j int) bool { return rows[i].start.less(rows[j].start) })
	// oracle drain: expected amount taken per start date (multiset per date)
	wantPerDate := map[tsKey]*big.Rat{}
	left := new(big.Rat).Set(need)
	for _, r := range rows {
		if left.Sign() == 0 {
			break
		}
		t := r.bal
		if t.Cmp(left) > 0 {
			t = left
		}
		if wantPerDate[r.start] == nil {
			wantPerDate[r.start] = ref.Zero()
		}
		wantPerDate[r.start] = ref.Add(wantPerDate[r.start], t)
		left = ref.Sub(left, t)
	}
	if left.Sign() != 0 {
		bad("take-more-than-basket-holds-succeeded", fmt.Sprintf("short by %s", left.FloatString(6)))
	}
	gotPerDate := map[tsKey]*big.Rat{}
	gotPerDenom := map[string]*big.Rat{}
	var order []string
	for _, c := range resp.Credits {
		var start tsKey
		found := false
		for _, r := range rows {
			if r.denom == c.BatchDenom {
				start, found = r.start, true
			}
		}
		if !found {
			bad("take-released-batch-not-in-basket", c.BatchDenom)
			continue
		}
		if gotPerDate[start] == nil {
			gotPerDate[start] = ref.Zero()
		}
		gotPerDate[start] = ref.Add(gotPerDate[start], rat(c.Amount))
		if gotPerDenom[c.BatchDenom] == nil {
			gotPerDenom[c.BatchDenom] = ref.Zero()
			order = append(order, c.BatchDenom)
		}
		gotPerDenom[c.BatchDenom] = ref.Add(gotPerDenom[c.BatchDenom], rat(c.Amount))
	}
	for d, w := range wantPerDate {
		g := gotPerDate[d]
		if g == nil {
			g = ref.Zero()
		}
		if g.Cmp(w) != 0 {
			bad("take-not-oldest-first", fmt.Sprintf("start date %d.%09d: released %s, oldest-first drain gives %s", d.s, d.n, g.FloatString(6), w.FloatString(6)))
		}
	}
	for d, g := range gotPerDate {
		if wantPerDate[d] == nil && g.Sign() != 0 {
			bad("take-not-oldest-first", fmt.Sprintf("start date %d.%09d: released %s, oldest-first drain gives 0", d.s, d.n, g.FloatString(6)))
		}
	}
	// each batch fully drained before the next is touched: all released batches but the last one are emptied
	for i, dn := range order {
		var r row
		for _, x := range rows {
			if x.denom == dn {
				r = x
			}
		}
		if gotPerDenom[dn].Cmp(r.bal) > 0 {
			bad("take-released-more-than-held", dn)
		}
		if i < len(order)-1 && gotPerDenom[dn].Cmp(r.bal) != 0 {
			bad("take-moved-on-before-draining", fmt.Sprintf("%s held %s, released %s", dn, r.bal.FloatString(6), gotPerDenom[dn].FloatString(6)))
		}
	}
	if len(order) > 1 {
		m.inc("takes_across_batches")
	}
	if len(wantPerDate) > 0 && len(rows) > 1 {
		m.inc("takes_with_choice")
	}
	// post-state basket balances and the taker's credits
	owner := sdk.MustAccAddressFromBech32(msg.Owner)
	for _, r := range rows {
		g := gotPerDenom[r.denom]
		if g == nil {
			g = ref.Zero()
		}
		want := ref.Sub(r.bal, g)
		var pb *basketapi.BasketBalance
		for _, x := range post.BasketBalances {
			if x.BasketId == b.Id && x.BatchDenom == r.denom {
				pb = x
			}
		}
		switch {
		case want.Sign() == 0 && pb != nil:
			bad("drained-basket-balance-not-deleted", fmt.Sprintf("%s still %s", r.denom, pb.Balance))
		case want.Sign() > 0 && pb == nil:
			bad("basket-balance-deleted-although-not-drained", r.denom)
		case want.Sign() > 0 && rat(pb.Balance).Cmp(want) != 0:
			bad("basket-balance-wrong-after-take", fmt.Sprintf("%s: %s, expected %s", r.denom, pb.Balance, want.FloatString(6)))
		}
		dT, dR := creditDelta(pre, post, owner, r.denom)
		wt, wr := g, ref.Zero()
		if retire {
			wt, wr = ref.Zero(), g
		}
		if dT.Cmp(wt) != 0 || dR.Cmp(wr) != 0 {
			kind := "taker-credit-delta-wrong"
			if !b.DisableAutoRetire && dT.Sign() > 0 {
				kind = "auto-retire-basket-delivered-tradable-credits"
			}
			bad(kind, fmt.Sprintf("%s: tradable +%s retired +%s, expected +%s/+%s", r.denom, dT.FloatString(6), dR.FloatString(6), wt.FloatString(6), wr.FloatString(6)))
		}
	}
	if !b.DisableAutoRetire {
		m.inc("takes_from_auto_retire_basket")
	}
	m.inc("takes_checked")
	return out
}

var _ = chain.T0
