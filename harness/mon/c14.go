package mon

import (
	"fmt"
	"sort"
	"strings"

	sdk "github.com/cosmos/cosmos-sdk/types"

	"github.com/regen-network/regen-ledger/x/ecocredit/v3/base"
	basetypes "github.com/regen-network/regen-ledger/x/ecocredit/v3/base/types/v1"

	"verif/harness/chain"
	"verif/harness/explore"
)

// C14 — identifiers unique, well-formed, consecutive; references resolve.
type C14 struct{ counters }

func (*C14) Name() string { return "C14" }

// idGhost: per scope the next expected number and the ids that existed in the
// seed (accepted as given).
type idGhost struct {
	next map[string]uint64 // "class/<abbrev>", "project/<class id>", "batch/<project id>"
	made map[string]bool   // ids created by successful messages (with their scope)
	seed map[string]bool   // ids of the seed state
}

func (g *idGhost) Clone() explore.Ghost {
	n := &idGhost{next: make(map[string]uint64, len(g.next)), made: make(map[string]bool, len(g.made)), seed: g.seed}
	for k, v := range g.next {
		n.next[k] = v
	}
	for k := range g.made {
		n.made[k] = true
	}
	return n
}

func (g *idGhost) Digest() []byte {
	var ks []string
	for k, v := range g.next {
		ks = append(ks, fmt.Sprintf("%s=%d", k, v))
	}
	for k := range g.made {
		ks = append(ks, k)
	}
	sort.Strings(ks)
	return []byte(strings.Join(ks, ";"))
}

func (m *C14) NewGhost(_ *chain.Chain, _ sdk.Context, s *chain.Snapshot) explore.Ghost {
	g := &idGhost{next: map[string]uint64{}, made: map[string]bool{}, seed: map[string]bool{}}
	// numbering starts at 1: a stored counter of 0 (which genesis validation rejects) is not a valid start
	from := func(n uint64) uint64 {
		if n == 0 {
			return 1
		}
		return n
	}
	for _, x := range s.ClassSeqs {
		g.next["class/"+x.CreditTypeAbbrev] = from(x.NextSequence)
	}
	for _, x := range s.ProjectSeqs {
		if c := s.ClassByKey(x.ClassKey); c != nil {
			g.next["project/"+c.Id] = from(x.NextSequence)
		}
	}
	for _, x := range s.BatchSeqs {
		if p := s.ProjectByKey(x.ProjectKey); p != nil {
			g.next["batch/"+p.Id] = from(x.NextSequence)
		}
	}
	for _, c := range s.Classes {
		g.seed["class:"+c.Id] = true
	}
	for _, p := range s.Projects {
		g.seed["project:"+p.Id] = true
	}
	for _, b := range s.Batches {
		g.seed["batch:"+b.Denom] = true
	}
	return g
}

func (g *idGhost) take(scope string) uint64 {
	n, ok := g.next[scope]
	if !ok {
		n = 1 // a scope never used before starts at 1
	}
	g.next[scope] = n + 1
	return n
}

// Independent formatters of the documented formats.
func fmtClass(abbrev string, n uint64) string    { return fmt.Sprintf("%s%02d", abbrev, n) }
func fmtProject(classID string, n uint64) string { return fmt.Sprintf("%s-%03d", classID, n) }

func (m *C14) OnStep(gh explore.Ghost, st *explore.Step) []V {
	g := gh.(*idGhost)
	if !st.Res.OK || st.Act.Kind != explore.ActMsg {
		return nil
	}
	var out []V
	wantClass := func(abbrev, got string) {
		n := g.take("class/" + abbrev)
		want := fmtClass(abbrev, n)
		if got != want {
			out = append(out, V{Kind: "C14/class-id-not-consecutive", Detail: fmt.Sprintf("%s created class %q, expected %q", st.Act.Label, got, want)})
		}
		g.made["class:"+got] = true
		m.inc("classes_created")
		if n >= 100 {
			m.inc("class_numbers_beyond_padding")
		}
	}
	wantProject := func(classID, got string) {
		n := g.take("project/" + classID)
		want := fmtProject(classID, n)
		if got != want {
			out = append(out, V{Kind: "C14/project-id-not-consecutive", Detail: fmt.Sprintf("%s created project %q, expected %q", st.Act.Label, got, want)})
		}
		g.made["project:"+got] = true
		m.inc("projects_created")
		if n >= 1000 {
			m.inc("project_numbers_beyond_padding")
		}
	}
	wantBatch := func(projectID, got string, start, end string) {
		n := g.take("batch/" + projectID)
		want := fmt.Sprintf("%s-%s-%s-%03d", projectID, start, end, n)
		if got != want {
			out = append(out, V{Kind: "C14/batch-denom-not-consecutive", Detail: fmt.Sprintf("%s created batch %q, expected %q", st.Act.Label, got, want)})
		}
		g.made["batch:"+got] = true
		m.inc("batches_created")
		if n >= 1000 {
			m.inc("batch_numbers_beyond_padding")
		}
	}
	switch msg := st.Res.Msg.(type) {
	case *basetypes.MsgCreateClass:
		if r, ok := st.Res.Resp.(*basetypes.MsgCreateClassResponse); ok {
			wantClass(msg.CreditTypeAbbrev, r.ClassId)
			// the issuer rows written by this message refer to the class it created
			if cl := st.Post.ClassByID(r.ClassId); cl != nil {
				pre := map[string]bool{}
				for _, ci := range st.Pre.ClassIssuers {
					pre[fmt.Sprintf("%d/%s", ci.ClassKey, addrStr(ci.Issuer))] = true
				}
				have := map[string]bool{}
				for _, ci := range st.Post.ClassIssuers {
					k := fmt.Sprintf("%d/%s", ci.ClassKey, addrStr(ci.Issuer))
					if !pre[k] && ci.ClassKey != cl.Key {
						out = append(out, V{Kind: "C14/issuer-row-refers-to-another-class", Detail: fmt.Sprintf("%s created class %s (key %d) but wrote issuer row %s", st.Act.Label, cl.Id, cl.Key, k)})
					}
					if ci.ClassKey == cl.Key {
						have[addrStr(ci.Issuer)] = true
					}
				}
				for _, is := range msg.Issuers {
					if !have[is] {
						out = append(out, V{Kind: "C14/issuer-of-new-class-missing", Detail: fmt.Sprintf("%s: class %s has no issuer row for %s", st.Act.Label, cl.Id, is)})
					}
				}
			}
		}
	case *basetypes.MsgCreateProject:
		if r, ok := st.Res.Resp.(*basetypes.MsgCreateProjectResponse); ok {
			wantProject(msg.ClassId, r.ProjectId)
		}
	case *basetypes.MsgCreateBatch:
		if r, ok := st.Res.Resp.(*basetypes.MsgCreateBatchResponse); ok {
			wantBatch(msg.ProjectId, r.BatchDenom, msg.StartDate.UTC().Format("20060102"), msg.EndDate.UTC().Format("20060102"))
		}
	case *basetypes.MsgBridgeReceive:
		if r, ok := st.Res.Resp.(*basetypes.MsgBridgeReceiveResponse); ok {
			if st.Pre.ProjectByID(r.ProjectId) == nil {
				wantProject(msg.ClassId, r.ProjectId)
			}
			if st.Pre.BatchByDenom(r.BatchDenom) == nil {
				wantBatch(r.ProjectId, r.BatchDenom, msg.Batch.StartDate.UTC().Format("20060102"), msg.Batch.EndDate.UTC().Format("20060102"))
			}
		}
	}
	return out
}

func (m *C14) OnState(gh explore.Ghost, _ *chain.Chain, _ sdk.Context, s *chain.Snapshot) []V {
	g := gh.(*idGhost)
	var out []V
	bad := func(kind, detail string) { out = append(out, V{Kind: "C14/" + kind, Detail: detail}) }
	// uniqueness, validators, parsers, ghost agreement
	seen := map[string]bool{}
	for _, c := range s.Classes {
		if seen["class:"+c.Id] {
			bad("duplicate-class-id", c.Id)
		}
		seen["class:"+c.Id] = true
		if err := base.ValidateClassID(c.Id); err != nil {
			bad("class-id-rejected-by-validator", c.Id)
		}
		if got := base.GetCreditTypeAbbrevFromClassID(c.Id); got != c.CreditTypeAbbrev {
			bad("parser-credit-type-from-class-id", fmt.Sprintf("%s -> %q, stored %q", c.Id, got, c.CreditTypeAbbrev))
		}
		if s.CreditType(c.CreditTypeAbbrev) == nil {
			bad("class-credit-type-dangling", c.Id)
		}
		if !g.seed["class:"+c.Id] && !g.made["class:"+c.Id] {
			bad("class-without-successful-creation", c.Id)
		}
	}
	for _, p := range s.Projects {
		if seen["project:"+p.Id] {
			bad("duplicate-project-id", p.Id)
		}
		seen["project:"+p.Id] = true
		if err := base.ValidateProjectID(p.Id); err != nil {
			bad("project-id-rejected-by-validator", p.Id)
		}
		c := s.ClassByKey(p.ClassKey)
		if c == nil {
			bad("project-class-dangling", p.Id)
		} else if got := base.GetClassIDFromProjectID(p.Id); got != c.Id {
			bad("parser-class-id-from-project-id", fmt.Sprintf("%s -> %q, stored %q", p.Id, got, c.Id))
		}
		if !g.seed["project:"+p.Id] && !g.made["project:"+p.Id] {
			bad("project-without-successful-creation", p.Id)
		}
	}
	for _, b := range s.Batches {
		if seen["batch:"+b.Denom] {
			bad("duplicate-batch-denom", b.Denom)
		}
		seen["batch:"+b.Denom] = true
		if err := base.ValidateBatchDenom(b.Denom); err != nil {
			bad("batch-denom-rejected-by-validator", b.Denom)
		}
		p := s.ProjectByKey(b.ProjectKey)
		if p == nil {
			bad("batch-project-dangling", b.Denom)
			continue
		}
		if got := base.GetProjectIDFromBatchDenom(b.Denom); got != p.Id {
			bad("parser-project-id-from-batch-denom", fmt.Sprintf("%s -> %q, stored %q", b.Denom, got, p.Id))
		}
		if c := s.ClassByKey(p.ClassKey); c != nil {
			if got := base.GetClassIDFromBatchDenom(b.Denom); got != c.Id {
				bad("parser-class-id-from-batch-denom", fmt.Sprintf("%s -> %q, stored %q", b.Denom, got, c.Id))
			}
		}
		if !g.seed["batch:"+b.Denom] && !g.made["batch:"+b.Denom] {
			bad("batch-without-successful-creation", b.Denom)
		}
	}
	for k := range g.made {
		if !seen[k] {
			bad("created-entity-disappeared", k)
		}
	}
	// stored counters agree with the ghost (failed creations consumed nothing)
	for _, x := range s.ClassSeqs {
		if n, ok := g.next["class/"+x.CreditTypeAbbrev]; ok && n != x.NextSequence {
			bad("class-sequence-differs-from-successful-creations", fmt.Sprintf("%s: stored %d, expected %d", x.CreditTypeAbbrev, x.NextSequence, n))
		}
	}
	for _, x := range s.ProjectSeqs {
		if c := s.ClassByKey(x.ClassKey); c != nil {
			if n, ok := g.next["project/"+c.Id]; ok && n != x.NextSequence {
				bad("project-sequence-differs-from-successful-creations", fmt.Sprintf("%s: stored %d, expected %d", c.Id, x.NextSequence, n))
			}
		} else {
			bad("project-sequence-class-dangling", fmt.Sprint(x.ClassKey))
		}
	}
	for _, x := range s.BatchSeqs {
		if p := s.ProjectByKey(x.ProjectKey); p != nil {
			if n, ok := g.next["batch/"+p.Id]; ok && n != x.NextSequence {
				bad("batch-sequence-differs-from-successful-creations", fmt.Sprintf("%s: stored %d, expected %d", p.Id, x.NextSequence, n))
			}
		} else {
			bad("batch-sequence-project-dangling", fmt.Sprint(x.ProjectKey))
		}
	}
	// every other reference resolves
	for _, x := range s.Balances {
		if s.BatchByKey(x.BatchKey) == nil {
			bad("balance-batch-dangling", fmt.Sprint(x.BatchKey))
		}
	}
	for _, x := range s.Supplies {
		if s.BatchByKey(x.BatchKey) == nil {
			bad("supply-batch-dangling", fmt.Sprint(x.BatchKey))
		}
	}
	for _, x := range s.Contracts {
		if s.BatchByKey(x.BatchKey) == nil {
			bad("contract-batch-dangling", fmt.Sprint(x.BatchKey))
		}
		if s.ClassByKey(x.ClassKey) == nil {
			bad("contract-class-dangling", fmt.Sprint(x.ClassKey))
		}
	}
	for _, x := range s.SellOrders {
		if s.BatchByKey(x.BatchKey) == nil {
			bad("sell-order-batch-dangling", fmt.Sprint(x.Id))
		}
		if mk := s.Market(x.MarketId); mk == nil {
			bad("sell-order-market-dangling", fmt.Sprint(x.Id))
		} else if b := s.BatchByKey(x.BatchKey); b != nil {
			// the reference resolves to the market OF THE ORDER'S CREDIT TYPE (order -> batch -> project -> class -> type)
			if p := s.ProjectByKey(b.ProjectKey); p != nil {
				if c := s.ClassByKey(p.ClassKey); c != nil && c.CreditTypeAbbrev != mk.CreditTypeAbbrev {
					bad("sell-order-market-of-another-credit-type", fmt.Sprintf("order %d: batch %s is of type %s, market %d of type %s", x.Id, b.Denom, c.CreditTypeAbbrev, mk.Id, mk.CreditTypeAbbrev))
				}
			}
		}
		m.inc("sell_order_refs_checked")
	}
	for _, x := range s.BasketBalances {
		if s.BatchByDenom(x.BatchDenom) == nil {
			bad("basket-balance-batch-dangling", x.BatchDenom)
		}
		if s.BasketByID(x.BasketId) == nil {
			bad("basket-balance-basket-dangling", fmt.Sprint(x.BasketId))
		}
		m.inc("basket_balance_refs_checked")
	}
	for _, x := range s.ClassIssuers {
		if s.ClassByKey(x.ClassKey) == nil {
			bad("issuer-class-dangling", fmt.Sprint(x.ClassKey))
		}
	}
	for _, x := range s.BasketClasses {
		if s.ClassByID(x.ClassId) == nil {
			bad("basket-class-class-dangling", x.ClassId)
		}
		if s.BasketByID(x.BasketId) == nil {
			bad("basket-class-basket-dangling", fmt.Sprint(x.BasketId))
		}
		m.inc("basket_class_refs_checked")
	}
	dn := map[string]bool{}
	nm := map[string]bool{}
	for _, b := range s.Baskets {
		if dn[b.BasketDenom] || nm[b.Name] {
			bad("duplicate-basket-denom-or-name", b.BasketDenom)
		}
		dn[b.BasketDenom], nm[b.Name] = true, true
	}
	m.inc("states_checked")
	return out
}
