package mon

import (
	"fmt"
	"math/big"

	baskettypes "github.com/regen-network/regen-ledger/x/ecocredit/v3/basket/types/v1"
	markettypes "github.com/regen-network/regen-ledger/x/ecocredit/v3/marketplace/types/v1"

	sdk "github.com/cosmos/cosmos-sdk/types"

	"verif/harness/chain"
	"verif/harness/explore"
	"verif/harness/ref"
)

// C19 (use sites) — "conversion to integer coins truncates toward zero", at
// the two places of the marketplace where decimal amounts become coins
// (marketplace/keeper/utils.go, an anchor of the property): per fill, the
// seller is paid trunc(subtotal - seller fee) and the fee pool receives (for
// uregen: total supply loses) trunc(buyer fee + seller fee), where subtotal =
// quantity x ask and the fees are subtotal x rate, all exact.
//
// C07 tolerates one base unit around the exact values, as its statement does;
// this monitor demands the truncation itself. Fills whose exact products need
// more than 34 significant digits are outside the bound (the rounding multiply
// is then allowed to round).
type C19Coins struct {
	counters
	noGhost
	FeePool string
}

// OnState: "balance subtraction never yields a negative value without an error", seen from the ledgers the
// subtraction writes: no stored balance, supply, basket balance or order quantity is ever negative (a state that
// holds one was produced by a subtraction that should have been an error).
func (m *C19Coins) OnState(_ explore.Ghost, _ *chain.Chain, _ sdk.Context, s *chain.Snapshot) []V {
	var out []V
	neg := func(table, col, v, where string) {
		if v == "" {
			return
		}
		d, err := ref.Parse(v)
		if err != nil {
			return // malformed spellings are C01's business
		}
		m.inc("stored_amounts_checked")
		if d.R.Sign() < 0 {
			out = append(out, V{Kind: "C19/negative-amount-stored/" + table + "." + col, Detail: fmt.Sprintf("%s.%s of %s = %q: a subtraction went below zero without an error", table, col, where, v)})
		}
	}
	for _, b := range s.Balances {
		w := fmt.Sprintf("%s / %s", addrStr(b.Address), denomOf(s, b.BatchKey))
		neg("BatchBalance", "tradable", b.TradableAmount, w)
		neg("BatchBalance", "retired", b.RetiredAmount, w)
		neg("BatchBalance", "escrowed", b.EscrowedAmount, w)
	}
	for _, sp := range s.Supplies {
		w := denomOf(s, sp.BatchKey)
		neg("BatchSupply", "tradable", sp.TradableAmount, w)
		neg("BatchSupply", "retired", sp.RetiredAmount, w)
		neg("BatchSupply", "cancelled", sp.CancelledAmount, w)
	}
	for _, bb := range s.BasketBalances {
		neg("BasketBalance", "balance", bb.Balance, bb.BatchDenom)
	}
	for _, o := range s.SellOrders {
		neg("SellOrder", "quantity", o.Quantity, fmt.Sprintf("order %d", o.Id))
	}
	return out
}

func (*C19Coins) Name() string { return "C19" }

func floorRat(r *big.Rat) *big.Int {
	// all amounts here are non-negative: truncation toward zero is the floor
	return new(big.Int).Quo(r.Num(), r.Denom())
}

func (m *C19Coins) OnStep(_ explore.Ghost, st *explore.Step) []V {
	if !st.Res.OK || st.Act.Kind != explore.ActMsg {
		return nil
	}
	// basket use sites (basket/keeper/utils.go, an anchor of the property): credits <-> tokens go through
	// the EXACT multiply / divide, so a successful Put mints exactly amount x 10^precision and a successful
	// Take releases exactly tokens / 10^precision; a result that would need rounding must be an error
	switch msg := st.Res.Msg.(type) {
	case *baskettypes.MsgPut:
		b := st.Pre.BasketByDenom(msg.BasketDenom)
		if b == nil {
			return nil
		}
		prec := basketPrecision(st.Pre, b.CreditTypeAbbrev)
		sum := ref.Zero()
		for _, c := range msg.Credits {
			sum = ref.Add(sum, rat(c.Amount))
		}
		want := ref.Mul(sum, ref.RatOfInt(ref.Pow10(prec)))
		got := new(big.Int).Sub(st.Post.TotalSupply(b.BasketDenom), st.Pre.TotalSupply(b.BasketDenom))
		m.inc("puts_checked")
		if ref.RatOfInt(got).Cmp(want) != 0 {
			return []V{{Kind: "C19/coins/put-not-the-exact-product", Detail: fmt.Sprintf("%s: minted %s, exact %s", st.Act.Label, got, want.FloatString(3))}}
		}
		return nil
	case *baskettypes.MsgTake:
		b := st.Pre.BasketByDenom(msg.BasketDenom)
		r, okR := st.Res.Resp.(*baskettypes.MsgTakeResponse)
		if b == nil || !okR {
			return nil
		}
		prec := basketPrecision(st.Pre, b.CreditTypeAbbrev)
		burnt := new(big.Int).Sub(st.Pre.TotalSupply(b.BasketDenom), st.Post.TotalSupply(b.BasketDenom))
		sum := ref.Zero()
		for _, c := range r.Credits {
			sum = ref.Add(sum, rat(c.Amount))
		}
		m.inc("takes_checked")
		if want := new(big.Rat).Quo(ref.RatOfInt(burnt), ref.RatOfInt(ref.Pow10(prec))); sum.Cmp(want) != 0 {
			return []V{{Kind: "C19/coins/take-not-the-exact-quotient", Detail: fmt.Sprintf("%s: %s tokens burnt, %s credits released, exact %s", st.Act.Label, burnt, sum.FloatString(8), want.FloatString(8))}}
		}
		return nil
	}
	bd, ok := st.Res.Msg.(*markettypes.MsgBuyDirect)
	if !ok {
		return nil
	}
	pre, post := st.Pre, st.Post
	rb, rs := ref.Zero(), ref.Zero()
	if pre.FeeParams != nil {
		rb, rs = feeRate(pre.FeeParams.BuyerPercentageFee), feeRate(pre.FeeParams.SellerPercentageFee)
	}
	one := new(big.Rat).SetInt64(1)
	sellerWant := map[string]map[string]*big.Int{} // seller -> denom -> coins
	poolWant := map[string]*big.Int{}              // denom -> coins
	exactFrac := false
	for _, o := range bd.Orders {
		so := pre.Order(o.SellOrderId)
		if so == nil {
			return nil
		}
		mk := pre.Market(so.MarketId)
		ask, okA := new(big.Int).SetString(so.AskAmount, 10)
		q, err := ref.Parse(o.Quantity)
		if mk == nil || !okA || err != nil {
			return nil // C07 / C06 report these
		}
		sub := ref.Mul(q.R, ref.RatOfInt(ask))
		sf, bf := ref.Mul(sub, rs), ref.Mul(sub, rb)
		for _, x := range []*big.Rat{sub, sf, bf} {
			if ref.SigDigits(x) > 34 {
				m.inc("fills_beyond_34_digits_skipped")
				return nil
			}
		}
		seller := addrStr(so.Seller)
		if seller == bd.Buyer {
			return nil
		}
		if sellerWant[seller] == nil {
			sellerWant[seller] = map[string]*big.Int{}
		}
		if sellerWant[seller][mk.BankDenom] == nil {
			sellerWant[seller][mk.BankDenom] = new(big.Int)
		}
		pay := ref.Mul(sub, ref.Sub(one, rs))
		sellerWant[seller][mk.BankDenom].Add(sellerWant[seller][mk.BankDenom], floorRat(pay))
		if poolWant[mk.BankDenom] == nil {
			poolWant[mk.BankDenom] = new(big.Int)
		}
		poolWant[mk.BankDenom].Add(poolWant[mk.BankDenom], floorRat(ref.Add(bf, sf)))
		if !pay.IsInt() || !ref.Add(bf, sf).IsInt() {
			exactFrac = true
		}
	}
	var out []V
	for seller, byDen := range sellerWant {
		for den, want := range byDen {
			got := new(big.Int).Sub(post.Coin(seller, den), pre.Coin(seller, den))
			if got.Cmp(want) != 0 {
				out = append(out, V{Kind: "C19/coins/seller-payment-not-truncated-toward-zero",
					Detail: fmt.Sprintf("%s: seller %s received %s %s, truncation of the exact proceeds gives %s", st.Act.Label, seller, got, den, want)})
			}
		}
	}
	for den, want := range poolWant {
		var got *big.Int
		if den == "uregen" {
			got = new(big.Int).Sub(pre.TotalSupply(den), post.TotalSupply(den)) // burned
		} else {
			got = new(big.Int).Sub(post.Coin(m.FeePool, den), pre.Coin(m.FeePool, den))
		}
		if got.Cmp(want) != 0 {
			out = append(out, V{Kind: "C19/coins/fee-not-truncated-toward-zero",
				Detail: fmt.Sprintf("%s: fees collected in %s: %s, truncation of the exact buyer fee + seller fee gives %s", st.Act.Label, den, got, want)})
		}
	}
	m.inc("fills_checked")
	if exactFrac {
		m.inc("fills_with_a_fractional_exact_amount")
	}
	return out
}
