package mon

import (
	"fmt"
	"math/big"
	"sort"

	sdk "github.com/cosmos/cosmos-sdk/types"

	basetypes "github.com/regen-network/regen-ledger/x/ecocredit/v3/base/types/v1"

	"verif/harness/chain"
	"verif/harness/explore"
	"verif/harness/ref"
)

// C02 — issuance accounting: T+R+C per batch equals the ghost ledger of
// successfully issued amounts; no other event changes it; sealed is final.
type C02 struct{ counters }

func (*C02) Name() string { return "C02" }

type issuedGhost struct{ issued map[string]*big.Rat }

func (g *issuedGhost) Clone() explore.Ghost {
	n := &issuedGhost{issued: make(map[string]*big.Rat, len(g.issued))}
	for k, v := range g.issued {
		n.issued[k] = v // values are never mutated in place
	}
	return n
}

func (g *issuedGhost) Digest() []byte {
	ks := make([]string, 0, len(g.issued))
	for k := range g.issued {
		ks = append(ks, k)
	}
	sort.Strings(ks)
	var out []byte
	for _, k := range ks {
		out = append(out, k...)
		out = append(out, '=')
		out = append(out, g.issued[k].RatString()...)
		out = append(out, ';')
	}
	return out
}

func trc(s *chain.Snapshot, batchKey uint64) *big.Rat {
	sp := s.SupplyOf(batchKey)
	if sp == nil {
		return ref.Zero()
	}
	return ref.Add(ref.Add(rat(sp.TradableAmount), rat(sp.RetiredAmount)), rat(sp.CancelledAmount))
}

func (m *C02) NewGhost(_ *chain.Chain, _ sdk.Context, seed *chain.Snapshot) explore.Ghost {
	g := &issuedGhost{issued: map[string]*big.Rat{}}
	for _, b := range seed.Batches {
		g.issued[b.Denom] = trc(seed, b.Key)
	}
	return g
}

func amt0(s string) *big.Rat {
	if s == "" {
		return ref.Zero()
	}
	return rat(s)
}

func (m *C02) OnStep(gh explore.Ghost, st *explore.Step) []V {
	g := gh.(*issuedGhost)
	var out []V
	issuedTo := "" // denom this event legitimately issues into
	if st.Res.OK && st.Act.Kind == explore.ActMsg {
		switch msg := st.Res.Msg.(type) {
		case *basetypes.MsgCreateBatch:
			if r, ok := st.Res.Resp.(*basetypes.MsgCreateBatchResponse); ok {
				issuedTo = r.BatchDenom
				sum := ref.Zero()
				for _, i := range msg.Issuance {
					sum = ref.Add(sum, ref.Add(amt0(i.TradableAmount), amt0(i.RetiredAmount)))
				}
				if g.issued[issuedTo] != nil {
					out = append(out, V{Kind: "C02/create-batch-reuses-denom", Detail: "CreateBatch returned existing denom " + issuedTo})
				}
				g.issued[issuedTo] = sum
				m.inc("issuing.CreateBatch")
			} else {
				out = append(out, V{Kind: "C02/no-response", Detail: "CreateBatch succeeded without response"})
			}
		case *basetypes.MsgMintBatchCredits:
			issuedTo = msg.BatchDenom
			sum := ref.Zero()
			for _, i := range msg.Issuance {
				sum = ref.Add(sum, ref.Add(amt0(i.TradableAmount), amt0(i.RetiredAmount)))
			}
			old := g.issued[issuedTo]
			if old == nil {
				old = ref.Zero()
			}
			g.issued[issuedTo] = ref.Add(old, sum)
			m.inc("issuing.Mint")
		case *basetypes.MsgBridgeReceive:
			if r, ok := st.Res.Resp.(*basetypes.MsgBridgeReceiveResponse); ok {
				issuedTo = r.BatchDenom
				old := g.issued[issuedTo]
				if old == nil {
					old = ref.Zero()
				}
				g.issued[issuedTo] = ref.Add(old, amt0(msg.Batch.Amount))
				m.inc("issuing.BridgeReceive")
			} else {
				out = append(out, V{Kind: "C02/no-response", Detail: "BridgeReceive succeeded without response"})
			}
		}
	}
	// frame: every pre-existing batch other than the one issued into keeps T+R+C;
	// sealed batches keep it under every event and stay sealed.
	for _, b := range st.Pre.Batches {
		pb := st.Post.BatchByKey(b.Key)
		if pb == nil {
			out = append(out, V{Kind: "C02/batch-disappeared", Detail: "batch " + b.Denom + " removed by " + actType(st.Act)})
			continue
		}
		before, after := trc(st.Pre, b.Key), trc(st.Post, b.Key)
		if !b.Open {
			m.inc("sealed_batch_transitions")
			if pb.Open {
				out = append(out, V{Kind: "C02/sealed-batch-reopened/" + actType(st.Act), Detail: "batch " + b.Denom + " re-opened"})
			}
			if before.Cmp(after) != 0 {
				out = append(out, V{Kind: "C02/sealed-batch-total-changed/" + actType(st.Act),
					Detail: fmt.Sprintf("sealed batch %s: T+R+C %s -> %s", b.Denom, before.FloatString(6), after.FloatString(6))})
			}
		}
		if b.Denom != issuedTo && before.Cmp(after) != 0 {
			out = append(out, V{Kind: "C02/total-changed-by-non-issuing-event/" + actType(st.Act),
				Detail: fmt.Sprintf("batch %s: T+R+C %s -> %s by %s", b.Denom, before.FloatString(6), after.FloatString(6), st.Act.Label)})
		}
		if ps, qs := st.Pre.SupplyOf(b.Key), st.Post.SupplyOf(b.Key); st.Res.OK && ps != nil && qs != nil && before.Cmp(after) == 0 &&
			(rat(ps.CancelledAmount).Cmp(rat(qs.CancelledAmount)) != 0 || rat(ps.RetiredAmount).Cmp(rat(qs.RetiredAmount)) != 0) {
			m.inc("column_moves_preserving_total")
		}
	}
	return out
}

func (m *C02) OnState(gh explore.Ghost, _ *chain.Chain, _ sdk.Context, s *chain.Snapshot) []V {
	g := gh.(*issuedGhost)
	var out []V
	for _, b := range s.Batches {
		want := g.issued[b.Denom]
		if want == nil {
			out = append(out, V{Kind: "C02/batch-without-issuing-message", Detail: "batch " + b.Denom + " exists but no successful issuing message created it"})
			continue
		}
		if got := trc(s, b.Key); got.Cmp(want) != 0 {
			out = append(out, V{Kind: "C02/total-differs-from-issued",
				Detail: fmt.Sprintf("batch %s: T+R+C = %s, issued = %s", b.Denom, got.FloatString(6), want.FloatString(6))})
		}
	}
	m.inc("states_checked")
	return out
}
