package mon

import (
	"fmt"
	"math/big"
	"time"

	"google.golang.org/protobuf/proto"

	marketapi "github.com/regen-network/regen-ledger/api/v2/regen/ecocredit/marketplace/v1"
	markettypes "github.com/regen-network/regen-ledger/x/ecocredit/v3/marketplace/types/v1"

	"verif/harness/explore"
	"verif/harness/ref"
)

// C12 — expiry at BeginBlock; block processing never fails; an expired order
// can never be bought.
type C12 struct {
	counters
	noGhost
	noState
}

func (*C12) Name() string { return "C12" }

// expiry returns the expiration of an order and whether it has one.
func expiry(o *marketapi.SellOrder) (time.Time, bool) {
	if o.Expiration == nil || (o.Expiration.Seconds == 0 && o.Expiration.Nanos == 0) {
		return time.Time{}, false
	}
	return o.Expiration.AsTime(), true
}

func (m *C12) OnStep(_ explore.Ghost, st *explore.Step) []V {
	var out []V
	if st.Act.Kind == explore.ActMsg && st.Res.OK {
		// an order has exactly the expiration it was submitted with ("orders without expiration ... are
		// untouched" is about orders submitted without one)
		same := func(o *marketapi.SellOrder, want *time.Time) bool {
			e, has := expiry(o)
			if want == nil {
				return !has
			}
			return has && e.Equal(*want)
		}
		switch msg := st.Res.Msg.(type) {
		case *markettypes.MsgSell:
			if r, ok := st.Res.Resp.(*markettypes.MsgSellResponse); ok && len(r.SellOrderIds) == len(msg.Orders) {
				for i, id := range r.SellOrderIds {
					if o := st.Post.Order(id); o != nil && !same(o, msg.Orders[i].Expiration) {
						out = append(out, V{Kind: "C12/sell-order-expiration-differs-from-request",
							Detail: fmt.Sprintf("orders[%d] of %s was submitted with expiration %v but stored with %v", i, st.Act.Label, msg.Orders[i].Expiration, o.Expiration)})
					}
				}
				if len(msg.Orders) > 1 {
					m.inc("multi_order_sells")
				}
			}
		case *markettypes.MsgUpdateSellOrders:
			last := map[uint64]*time.Time{}
			touched := map[uint64]bool{}
			for _, u := range msg.Updates {
				touched[u.SellOrderId] = true
				if u.NewExpiration != nil {
					last[u.SellOrderId] = u.NewExpiration
				}
			}
			for id := range touched {
				o, po := st.Post.Order(id), st.Pre.Order(id)
				if o == nil || po == nil {
					continue
				}
				want := last[id]
				if want == nil {
					if e, has := expiry(po); has {
						want = &e
					}
				}
				if !same(o, want) {
					out = append(out, V{Kind: "C12/updated-order-expiration-differs-from-request",
						Detail: fmt.Sprintf("order %d after %s: expiration %v, expected %v", id, st.Act.Label, o.Expiration, want)})
				}
			}
		}
		if bd, ok := st.Res.Msg.(*markettypes.MsgBuyDirect); ok {
			for _, o := range bd.Orders {
				so := st.Pre.Order(o.SellOrderId)
				if so == nil {
					continue
				}
				if e, has := expiry(so); has && !e.After(st.Pre.Time) {
					out = append(out, V{Kind: "C12/expired-order-bought",
						Detail: fmt.Sprintf("order %d expired at %s was bought at block time %s", so.Id, e.Format(time.RFC3339Nano), st.Pre.Time.Format(time.RFC3339Nano))})
				}
				if _, has := expiry(so); has {
					m.inc("buys_of_orders_with_expiry")
				}
			}
		}
		return out
	}
	if st.Act.Kind != explore.ActNextBlock {
		return nil
	}
	m.inc("blocks")
	if !st.Res.OK {
		kind := "C12/begin-block-error"
		if st.Res.Panic {
			kind = "C12/begin-block-panic"
		}
		return []V{{Kind: kind, Detail: st.Act.Label + ": " + st.Res.Err}}
	}
	T := st.Post.Time
	removed := map[abKey]*big.Rat{}
	for _, o := range st.Pre.SellOrders {
		e, has := expiry(o)
		po := st.Post.Order(o.Id)
		if has && !e.After(T) {
			m.inc("orders_due")
			if po != nil {
				out = append(out, V{Kind: "C12/expired-order-survives",
					Detail: fmt.Sprintf("order %d with expiration %s still exists after begin block at %s", o.Id, e.Format(time.RFC3339Nano), T.Format(time.RFC3339Nano))})
				continue
			}
			k := abKey{addrStr(o.Seller), o.BatchKey}
			if removed[k] == nil {
				removed[k] = ref.Zero()
			}
			removed[k] = ref.Add(removed[k], rat(o.Quantity))
			continue
		}
		if po == nil {
			out = append(out, V{Kind: "C12/unexpired-order-removed",
				Detail: fmt.Sprintf("order %d (expiration set=%v %s) removed by begin block at %s", o.Id, has, e.Format(time.RFC3339Nano), T.Format(time.RFC3339Nano))})
			continue
		}
		if !proto.Equal(o, po) {
			out = append(out, V{Kind: "C12/unexpired-order-modified", Detail: fmt.Sprintf("order %d changed by begin block", o.Id)})
		}
		m.inc("orders_kept")
	}
	for _, o := range st.Post.SellOrders {
		if st.Pre.Order(o.Id) == nil {
			out = append(out, V{Kind: "C12/order-created-by-begin-block", Detail: fmt.Sprintf("order %d appeared", o.Id)})
		}
	}
	if len(removed) > 1 {
		m.inc("blocks_expiring_several_seller_batches")
	}
	for _, b := range st.Pre.Balances {
		k := abKey{addrStr(b.Address), b.BatchKey}
		want := removed[k]
		if want == nil {
			want = ref.Zero()
		} else {
			m.inc("refunds")
		}
		delete(removed, k)
		nb := st.Post.Balance(b.Address, b.BatchKey)
		if nb == nil {
			out = append(out, V{Kind: "C12/balance-row-deleted", Detail: k.addr + " lost a balance row at begin block"})
			continue
		}
		dT := ref.Sub(rat(nb.TradableAmount), rat(b.TradableAmount))
		dE := ref.Sub(rat(b.EscrowedAmount), rat(nb.EscrowedAmount))
		if dT.Cmp(want) != 0 || dE.Cmp(want) != 0 {
			out = append(out, V{Kind: "C12/refund-mismatch",
				Detail: fmt.Sprintf("%s in %s: expired quantity %s, tradable +%s, escrow -%s", k.addr, denomOf(st.Pre, b.BatchKey), want.FloatString(6), dT.FloatString(6), dE.FloatString(6))})
		}
	}
	for k, v := range removed {
		out = append(out, V{Kind: "C12/refund-without-balance-row", Detail: fmt.Sprintf("%s had expired orders (%s) but no balance row", k.addr, v.FloatString(6))})
	}
	return out
}
