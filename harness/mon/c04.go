package mon

import (
	"fmt"

	"verif/harness/explore"
)

// C04 — retirement and cancellation are permanent: per (account,batch)
// retired balance, per batch retired and cancelled supply never decrease,
// under any event including failed messages and block boundaries.
type C04 struct {
	counters
	noGhost
	noState
}

func (*C04) Name() string { return "C04" }

func (m *C04) OnStep(_ explore.Ghost, st *explore.Step) []V {
	var out []V
	t := actType(st.Act)
	for _, b := range st.Pre.Balances {
		pre := rat(b.RetiredAmount)
		nb := st.Post.Balance(b.Address, b.BatchKey)
		if nb == nil {
			if pre.Sign() > 0 {
				out = append(out, V{Kind: "C04/retired-balance-row-deleted/" + t,
					Detail: fmt.Sprintf("%s lost its balance row (retired %s) in %s by %s", addrStr(b.Address), b.RetiredAmount, denomOf(st.Pre, b.BatchKey), st.Act.Label)})
			}
			continue
		}
		if rat(nb.RetiredAmount).Cmp(pre) < 0 {
			out = append(out, V{Kind: "C04/retired-balance-decreased/" + t,
				Detail: fmt.Sprintf("%s retired in %s: %s -> %s by %s", addrStr(b.Address), denomOf(st.Pre, b.BatchKey), b.RetiredAmount, nb.RetiredAmount, st.Act.Label)})
		}
		if pre.Sign() > 0 && (nb.TradableAmount != b.TradableAmount || nb.EscrowedAmount != b.EscrowedAmount || nb.RetiredAmount != b.RetiredAmount) {
			// a handler rewrote a row that carries a non-zero retired column
			m.inc("rewrote_row_with_retired." + t)
		}
	}
	for _, sp := range st.Pre.Supplies {
		ns := st.Post.SupplyOf(sp.BatchKey)
		if ns == nil {
			out = append(out, V{Kind: "C04/supply-row-deleted/" + t, Detail: "supply row of " + denomOf(st.Pre, sp.BatchKey) + " deleted"})
			continue
		}
		if rat(ns.RetiredAmount).Cmp(rat(sp.RetiredAmount)) < 0 {
			out = append(out, V{Kind: "C04/retired-supply-decreased/" + t,
				Detail: fmt.Sprintf("%s retired supply %s -> %s by %s", denomOf(st.Pre, sp.BatchKey), sp.RetiredAmount, ns.RetiredAmount, st.Act.Label)})
		}
		if rat(ns.CancelledAmount).Cmp(rat(sp.CancelledAmount)) < 0 {
			out = append(out, V{Kind: "C04/cancelled-supply-decreased/" + t,
				Detail: fmt.Sprintf("%s cancelled supply %s -> %s by %s", denomOf(st.Pre, sp.BatchKey), sp.CancelledAmount, ns.CancelledAmount, st.Act.Label)})
		}
		if rat(sp.CancelledAmount).Sign() > 0 && (ns.TradableAmount != sp.TradableAmount || ns.RetiredAmount != sp.RetiredAmount || ns.CancelledAmount != sp.CancelledAmount) {
			m.inc("rewrote_supply_with_cancelled." + t)
		}
	}
	m.inc("transitions_checked")
	return out
}
