package mon_test

import (
	"testing"
	"time"

	"verif/harness/chain"
	"verif/harness/mon"
	"verif/harness/scen"
)

// TestC17SeedStates runs the full request enumeration (memo off) on every
// seed state of the queries scenario: no violation, and the cost of one state
// stays small enough for exhaustive exploration.
func TestC17SeedStates(t *testing.T) {
	for _, seed := range scen.Queries().Seeds {
		c := chain.New(seed.Opts)
		ctx := seed.Build(c)
		s := c.Snap(ctx)
		m := &mon.C17{NoMemo: true}
		start := time.Now()
		vs := m.OnState(nil, c, ctx, s)
		el := time.Since(start)
		for _, v := range vs {
			t.Errorf("%s: %s: %s", seed.Name, v.Kind, v.Detail)
		}
		cn := m.Counters()
		t.Logf("%s: %v, queries_run=%d pairs=%d+%d classes=%d batches=%d balances=%d orders=%d", seed.Name, el, cn["queries_run"], cn["list_query_arg_pairs"], cn["single_entity_pairs"], len(s.Classes), len(s.Batches), len(s.Balances), len(s.SellOrders))
		if cn["nonempty_results"] == 0 && seed.Name != "fresh" {
			t.Errorf("%s: no non-empty result", seed.Name)
		}
		switch seed.Name {
		case "genesis-prefix":
			// the ids the prefix scans are probed with must really be there
			for _, id := range []string{"C01", "C011", "C10", "C100"} {
				if s.ClassByID(id) == nil {
					t.Errorf("genesis-prefix: class %s missing", id)
				}
			}
			for _, id := range []string{"C01-001", "C01-0011", "C011-001"} {
				if s.ProjectByID(id) == nil {
					t.Errorf("genesis-prefix: project %s missing", id)
				}
			}
			for _, d := range []string{"C01-001-20200101-20210101-001", "C01-0011-20200101-20210101-001", "C011-001-20200101-20210101-001"} {
				if s.BatchByDenom(d) == nil {
					t.Errorf("genesis-prefix: batch %s missing", d)
				}
			}
			refs := map[string]bool{}
			for _, p := range s.Projects {
				refs[p.ReferenceId] = true
			}
			if !refs["r"] || !refs["r1"] {
				t.Errorf("genesis-prefix: reference ids r and r1 expected, have %v", refs)
			}
			if len(s.BasketBalances) == 0 || len(s.SellOrders) == 0 {
				t.Errorf("genesis-prefix: basket balances / sell orders missing")
			}
		case "data-prefix-ids":
			found := false
			for _, a := range s.DataIDs {
				for _, b := range s.DataIDs {
					if len(a.Id) < len(b.Id) && string(b.Id[:len(a.Id)]) == string(a.Id) {
						found = true
					}
				}
			}
			if !found {
				t.Errorf("data-prefix-ids: no data id is a byte prefix of another")
			}
		}
	}
}
