// Package mon holds the property monitors of Engine A. Monitors see only
// snapshots (plain Go copies of state), the instantiated action and its
// result; all arithmetic is exact (math/big), never types/math.
package mon

import (
	"fmt"
	markettypes "github.com/regen-network/regen-ledger/x/ecocredit/v3/marketplace/types/v1"
	"math/big"
	"sort"
	"strings"
	"sync/atomic"

	sdk "github.com/cosmos/cosmos-sdk/types"

	"verif/harness/chain"
	"verif/harness/explore"
	"verif/harness/ref"
)

type V = explore.Violation

// counters is embedded by monitors for vacuity counters.
type counters struct{ m map[string]*int64 }

func (c *counters) inc(k string) { c.add(k, 1) }

func (c *counters) add(k string, n int64) {
	if c.m == nil {
		c.m = map[string]*int64{}
	}
	p := c.m[k]
	if p == nil {
		p = new(int64)
		c.m[k] = p
	}
	atomic.AddInt64(p, n)
}

func (c *counters) Counters() map[string]int64 {
	out := map[string]int64{}
	for k, v := range c.m {
		out[k] = atomic.LoadInt64(v)
	}
	return out
}

// noGhost is embedded by monitors without history state.
type noGhost struct{}

func (noGhost) NewGhost(*chain.Chain, sdk.Context, *chain.Snapshot) explore.Ghost { return nil }

// noState is embedded by monitors without a state invariant.
type noState struct{}

func (noState) OnState(explore.Ghost, *chain.Chain, sdk.Context, *chain.Snapshot) []V { return nil }

// noStep is embedded by monitors without a transition check.
type noStep struct{}

func (noStep) OnStep(explore.Ghost, *explore.Step) []V { return nil }

// precision of the credit type a batch belongs to (-1 if a reference dangles).
func precision(s *chain.Snapshot, batchKey uint64) int {
	b := s.BatchByKey(batchKey)
	if b == nil {
		return -1
	}
	p := s.ProjectByKey(b.ProjectKey)
	if p == nil {
		return -1
	}
	c := s.ClassByKey(p.ClassKey)
	if c == nil {
		return -1
	}
	ct := s.CreditType(c.CreditTypeAbbrev)
	if ct == nil {
		return -1
	}
	return int(ct.Precision)
}

// amount parses a stored credit amount; problems are returned as a reason.
func amount(str string, prec int) (*big.Rat, string) {
	if str == "" {
		// an absent field (proto3 default), which the modules' own genesis validation admits and every
		// handler reads as zero
		return ref.Zero(), ""
	}
	d, err := ref.Parse(str)
	if err != nil {
		return ref.Zero(), "unparseable"
	}
	if d.R.Sign() < 0 {
		return d.R, "negative"
	}
	if prec >= 0 && d.Places > prec {
		return d.R, "too-many-decimal-places"
	}
	return d.R, ""
}

func rat(str string) *big.Rat {
	d, err := ref.Parse(str)
	if err != nil {
		return ref.Zero()
	}
	return d.R
}

func denomOf(s *chain.Snapshot, batchKey uint64) string {
	if b := s.BatchByKey(batchKey); b != nil {
		return b.Denom
	}
	return fmt.Sprintf("batch#%d", batchKey)
}

func addrStr(b []byte) string { return sdk.AccAddress(b).String() }

func sortedKeys[T any](m map[string]T) []string {
	ks := make([]string, 0, len(m))
	for k := range m {
		ks = append(ks, k)
	}
	sort.Strings(ks)
	return ks
}

func shortType(url string) string {
	if i := strings.LastIndex(url, "."); i >= 0 {
		return url[i+1:]
	}
	return url
}

// actType is a short name of the action's message type.
func actType(a *explore.Action) string {
	switch a.Kind {
	case explore.ActMsg:
		return shortType(sdk.MsgTypeURL(a.Msg))
	case explore.ActNextBlock:
		return "NextBlock"
	}
	return "BankSend"
}

func sortStrings(s []string) { sort.Strings(s) }

// feeParamsAsSet: after a successful MsgGovSetFeeParams the stored rates are the ones the message carries
// (every fee clause reads the rates back from state).
func feeParamsAsSet(st *explore.Step) []string {
	msg, ok := st.Res.Msg.(*markettypes.MsgGovSetFeeParams)
	if !ok || !st.Res.OK || msg.Fees == nil {
		return nil
	}
	fp := st.Post.FeeParams
	gb, gs := "", ""
	if fp != nil {
		gb, gs = fp.BuyerPercentageFee, fp.SellerPercentageFee
	}
	if gb != msg.Fees.BuyerPercentageFee || gs != msg.Fees.SellerPercentageFee {
		return []string{fmt.Sprintf("%s: stored buyer rate %q seller rate %q, the message sets %q and %q", st.Act.Label, gb, gs, msg.Fees.BuyerPercentageFee, msg.Fees.SellerPercentageFee)}
	}
	return nil
}
