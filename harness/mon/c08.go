package mon

import (
	"bytes"
	"fmt"
	"reflect"
	"strings"

	sdk "github.com/cosmos/cosmos-sdk/types"
	"google.golang.org/protobuf/proto"
	"google.golang.org/protobuf/reflect/protoreflect"

	dataapi "github.com/regen-network/regen-ledger/api/v2/regen/data/v1"
	basketapi "github.com/regen-network/regen-ledger/api/v2/regen/ecocredit/basket/v1"
	marketapi "github.com/regen-network/regen-ledger/api/v2/regen/ecocredit/marketplace/v1"
	baseapi "github.com/regen-network/regen-ledger/api/v2/regen/ecocredit/v1"
	"github.com/regen-network/regen-ledger/x/data/v3"
	basetypes "github.com/regen-network/regen-ledger/x/ecocredit/v3/base/types/v1"
	baskettypes "github.com/regen-network/regen-ledger/x/ecocredit/v3/basket/types/v1"
	markettypes "github.com/regen-network/regen-ledger/x/ecocredit/v3/marketplace/types/v1"

	"verif/harness/chain"
	"verif/harness/explore"
	"verif/harness/ref"
)

// C08 — role-gated changes, footprint restricted to the named entity, sealed
// batches stay sealed.
type C08 struct {
	counters
	noGhost
	noState
	Authority string
}

func (*C08) Name() string { return "C08" }

/* ---------- generic row diff ---------- */

type rowDiff struct {
	Table     string
	ID        string
	Pre, Post proto.Message // nil when added / removed
}

func rowID(m proto.Message) string {
	switch r := m.(type) {
	case *baseapi.CreditType:
		return r.Abbreviation
	case *baseapi.Class:
		return r.Id
	case *baseapi.ClassIssuer:
		return fmt.Sprintf("%d/%s", r.ClassKey, addrStr(r.Issuer))
	case *baseapi.Project:
		return r.Id
	case *baseapi.Batch:
		return r.Denom
	case *baseapi.ClassSequence:
		return r.CreditTypeAbbrev
	case *baseapi.ProjectSequence:
		return fmt.Sprint(r.ClassKey)
	case *baseapi.BatchSequence:
		return fmt.Sprint(r.ProjectKey)
	case *baseapi.BatchBalance:
		return fmt.Sprintf("%s/%d", addrStr(r.Address), r.BatchKey)
	case *baseapi.BatchSupply:
		return fmt.Sprint(r.BatchKey)
	case *baseapi.OriginTxIndex:
		return fmt.Sprintf("%d/%s/%s", r.ClassKey, r.Id, r.Source)
	case *baseapi.BatchContract:
		return fmt.Sprint(r.BatchKey)
	case *baseapi.AllowedClassCreator:
		return addrStr(r.Address)
	case *baseapi.AllowedBridgeChain:
		return r.ChainName
	case *basketapi.Basket:
		return r.BasketDenom
	case *basketapi.BasketClass:
		return fmt.Sprintf("%d/%s", r.BasketId, r.ClassId)
	case *basketapi.BasketBalance:
		return fmt.Sprintf("%d/%s", r.BasketId, r.BatchDenom)
	case *marketapi.SellOrder:
		return fmt.Sprint(r.Id)
	case *marketapi.AllowedDenom:
		return r.BankDenom
	case *marketapi.Market:
		return fmt.Sprint(r.Id)
	case *dataapi.DataID:
		return string(r.Id)
	case *dataapi.DataAnchor:
		return string(r.Id)
	case *dataapi.DataAttestor:
		return string(r.Id) + "/" + addrStr(r.Attestor)
	case *dataapi.Resolver:
		return fmt.Sprint(r.Id)
	case *dataapi.DataResolver:
		return fmt.Sprintf("%d/%x", r.ResolverId, r.Id)
	}
	bz, _ := proto.MarshalOptions{Deterministic: true}.Marshal(m)
	return string(bz)
}

// diffSnap lists every ORM row that differs between two snapshots.
func diffSnap(pre, post *chain.Snapshot) []rowDiff {
	var out []rowDiff
	va, vb := reflect.ValueOf(pre).Elem(), reflect.ValueOf(post).Elem()
	for i := 0; i < va.NumField(); i++ {
		f := va.Type().Field(i)
		fa, fb := va.Field(i), vb.Field(i)
		switch {
		case fa.Kind() == reflect.Slice:
			if fa.Len() == 0 && fb.Len() == 0 {
				continue
			}
			am := map[string]proto.Message{}
			for j := 0; j < fa.Len(); j++ {
				m, ok := fa.Index(j).Interface().(proto.Message)
				if !ok {
					break
				}
				am[rowID(m)] = m
			}
			seen := map[string]bool{}
			for j := 0; j < fb.Len(); j++ {
				m, ok := fb.Index(j).Interface().(proto.Message)
				if !ok {
					break
				}
				id := rowID(m)
				seen[id] = true
				if p, ok := am[id]; !ok {
					out = append(out, rowDiff{f.Name, id, nil, m})
				} else if !proto.Equal(p, m) {
					out = append(out, rowDiff{f.Name, id, p, m})
				}
			}
			for id, p := range am {
				if !seen[id] {
					out = append(out, rowDiff{f.Name, id, p, nil})
				}
			}
		case fa.Kind() == reflect.Ptr:
			a, ok1 := fa.Interface().(proto.Message)
			b, ok2 := fb.Interface().(proto.Message)
			if ok1 && ok2 && !proto.Equal(a, b) {
				out = append(out, rowDiff{f.Name, "singleton", a, b})
			}
		}
	}
	return out
}

func coinsChanged(pre, post *chain.Snapshot) []string {
	var out []string
	seen := map[string]bool{}
	for _, s := range []*chain.Snapshot{pre, post} {
		for a, cs := range s.Coins {
			for d := range cs {
				k := a + "/" + d
				if !seen[k] {
					seen[k] = true
					if pre.Coin(a, d).Cmp(post.Coin(a, d)) != 0 {
						out = append(out, k)
					}
				}
			}
		}
		for d := range s.Supply {
			k := "supply/" + d
			if !seen[k] {
				seen[k] = true
				if pre.TotalSupply(d).Cmp(post.TotalSupply(d)) != 0 {
					out = append(out, k)
				}
			}
		}
	}
	return out
}

/* ---------- roles ---------- */

func isClassIssuer(s *chain.Snapshot, classKey uint64, signer sdk.AccAddress) bool {
	for _, ci := range s.ClassIssuers {
		if ci.ClassKey == classKey && bytes.Equal(ci.Issuer, signer) {
			return true
		}
	}
	return false
}

// onlyFieldsChanged reports whether post equals pre except for the named
// fields (proto field names).
func onlyFieldsChanged(pre, post proto.Message, fields ...string) bool {
	c := proto.Clone(pre)
	cr, pr := c.ProtoReflect(), post.ProtoReflect()
	for _, f := range fields {
		fd := cr.Descriptor().Fields().ByName(protoName(f))
		if fd == nil {
			return false
		}
		if pr.Has(fd) {
			cr.Set(fd, pr.Get(fd))
		} else {
			cr.Clear(fd)
		}
	}
	return proto.Equal(c, post)
}

func (m *C08) OnStep(_ explore.Ghost, st *explore.Step) []V {
	var out []V
	pre, post := st.Pre, st.Post
	// (c) sealed stays sealed, under every event
	for _, b := range pre.Batches {
		pb := post.BatchByKey(b.Key)
		if pb == nil {
			continue
		}
		if !b.Open {
			if pb.Open {
				out = append(out, V{Kind: "C08/sealed-batch-reopened/" + actType(st.Act), Detail: b.Denom})
			}
			if pb.Metadata != b.Metadata {
				out = append(out, V{Kind: "C08/sealed-batch-metadata-changed/" + actType(st.Act), Detail: b.Denom})
			}
			if trc(pre, b.Key).Cmp(trc(post, b.Key)) != 0 {
				out = append(out, V{Kind: "C08/sealed-batch-minted/" + actType(st.Act), Detail: b.Denom})
			}
		}
	}
	if st.Act.Kind != explore.ActMsg || len(st.Signers) != 1 {
		return out
	}
	signerStr := st.Signers[0]
	signer := sdk.MustAccAddressFromBech32(signerStr)
	isAuth := signerStr == m.Authority
	t := actType(st.Act)

	// required role in the pre-state, and the footprint predicate
	var roleOK bool
	role := ""
	var allow func(d rowDiff) bool
	bankMayChange := false
	isNew := func(d rowDiff) bool { return d.Pre == nil && d.Post != nil }
	newOrID := func(table, id string, fields ...string) func(d rowDiff) bool {
		return func(d rowDiff) bool {
			return d.Table == table && d.ID == id && d.Pre != nil && d.Post != nil && onlyFieldsChanged(d.Pre, d.Post, fields...)
		}
	}
	any := func(fs ...func(rowDiff) bool) func(rowDiff) bool {
		return func(d rowDiff) bool {
			for _, f := range fs {
				if f(d) {
					return true
				}
			}
			return false
		}
	}
	inTable := func(tables ...string) func(rowDiff) bool {
		return func(d rowDiff) bool {
			for _, tb := range tables {
				if d.Table == tb {
					return true
				}
			}
			return false
		}
	}
	newIn := func(tables ...string) func(rowDiff) bool {
		f := inTable(tables...)
		return func(d rowDiff) bool { return f(d) && isNew(d) }
	}
	mintFootprint := func(denom string) func(rowDiff) bool {
		b := pre.BatchByDenom(denom)
		return func(d rowDiff) bool {
			if b == nil {
				return false
			}
			switch d.Table {
			case "Balances":
				return strings.HasSuffix(d.ID, fmt.Sprintf("/%d", b.Key))
			case "Supplies":
				return d.ID == fmt.Sprint(b.Key)
			case "OriginTxs":
				return isNew(d)
			}
			return false
		}
	}
	createBatchFootprint := func() func(rowDiff) bool {
		return func(d rowDiff) bool {
			switch d.Table {
			case "Batches", "Supplies", "OriginTxs", "Contracts", "Balances":
				return isNew(d)
			case "BatchSeqs":
				return true
			}
			return false
		}
	}
	gov := func(f func(rowDiff) bool) {
		roleOK, role, allow = isAuth, "authority", f
	}
	unimplemented := false

	switch msg := st.Res.Msg.(type) {
	case *basetypes.MsgCreateClass:
		role = "allow-listed creator (when the allowlist is on)"
		roleOK = pre.Allowlist == nil || !pre.Allowlist.Enabled
		for _, c := range pre.AllowedCreators {
			if bytes.Equal(c.Address, signer) {
				roleOK = true
			}
		}
		newClassKey := uint64(0)
		if r, ok := st.Res.Resp.(*basetypes.MsgCreateClassResponse); ok {
			if cl := post.ClassByID(r.ClassId); cl != nil {
				newClassKey = cl.Key
			}
		}
		allow = any(newIn("Classes"), inTable("ClassSeqs"), func(d rowDiff) bool {
			// issuer rows of the class this message created, nothing else
			return d.Table == "ClassIssuers" && isNew(d) && strings.HasPrefix(d.ID, fmt.Sprintf("%d/", newClassKey))
		})
		bankMayChange = true
	case *basetypes.MsgCreateProject:
		role = "class issuer"
		if c := pre.ClassByID(msg.ClassId); c != nil {
			roleOK = isClassIssuer(pre, c.Key, signer)
		}
		allow = any(newIn("Projects"), inTable("ProjectSeqs"))
	case *basetypes.MsgCreateBatch:
		role = "class issuer"
		if p := pre.ProjectByID(msg.ProjectId); p != nil {
			roleOK = isClassIssuer(pre, p.ClassKey, signer)
		}
		allow = createBatchFootprint()
	case *basetypes.MsgMintBatchCredits:
		role = "batch issuer of an open batch"
		if b := pre.BatchByDenom(msg.BatchDenom); b != nil {
			roleOK = bytes.Equal(b.Issuer, signer) && b.Open
		}
		allow = mintFootprint(msg.BatchDenom)
	case *basetypes.MsgSealBatch:
		role = "batch issuer"
		if b := pre.BatchByDenom(msg.BatchDenom); b != nil {
			roleOK = bytes.Equal(b.Issuer, signer)
		}
		allow = newOrID("Batches", msg.BatchDenom, "open")
	case *basetypes.MsgUpdateBatchMetadata:
		role = "batch issuer of an open batch"
		if b := pre.BatchByDenom(msg.BatchDenom); b != nil {
			roleOK = bytes.Equal(b.Issuer, signer) && b.Open
		}
		allow = newOrID("Batches", msg.BatchDenom, "metadata")
	case *basetypes.MsgBridgeReceive:
		c := pre.ClassByID(msg.ClassId)
		bound := ""
		if c != nil {
			for _, bc := range pre.Contracts {
				if bc.ClassKey == c.Key && bc.Contract == msg.OriginTx.Contract {
					bound = denomOf(pre, bc.BatchKey)
				}
			}
		}
		if bound != "" {
			role = "issuer of the (open) batch bound to the contract"
			if b := pre.BatchByDenom(bound); b != nil {
				roleOK = bytes.Equal(b.Issuer, signer) && b.Open
			}
			allow = mintFootprint(bound)
		} else {
			role = "class issuer"
			if c != nil {
				roleOK = isClassIssuer(pre, c.Key, signer)
			}
			allow = any(createBatchFootprint(), newIn("Projects"), inTable("ProjectSeqs"))
		}
	case *basetypes.MsgUpdateClassAdmin:
		role = "class admin"
		if c := pre.ClassByID(msg.ClassId); c != nil {
			roleOK = bytes.Equal(c.Admin, signer)
		}
		allow = newOrID("Classes", msg.ClassId, "admin")
	case *basetypes.MsgUpdateClassMetadata:
		role = "class admin"
		if c := pre.ClassByID(msg.ClassId); c != nil {
			roleOK = bytes.Equal(c.Admin, signer)
		}
		allow = newOrID("Classes", msg.ClassId, "metadata")
	case *basetypes.MsgUpdateClassIssuers:
		role = "class admin"
		var ck uint64
		if c := pre.ClassByID(msg.ClassId); c != nil {
			roleOK = bytes.Equal(c.Admin, signer)
			ck = c.Key
		}
		allow = func(d rowDiff) bool {
			return d.Table == "ClassIssuers" && strings.HasPrefix(d.ID, fmt.Sprintf("%d/", ck))
		}
	case *basetypes.MsgUpdateProjectAdmin:
		role = "project admin"
		if p := pre.ProjectByID(msg.ProjectId); p != nil {
			roleOK = bytes.Equal(p.Admin, signer)
		}
		allow = newOrID("Projects", msg.ProjectId, "admin")
	case *basetypes.MsgUpdateProjectMetadata:
		role = "project admin"
		if p := pre.ProjectByID(msg.ProjectId); p != nil {
			roleOK = bytes.Equal(p.Admin, signer)
		}
		allow = newOrID("Projects", msg.ProjectId, "metadata")
	case *basetypes.MsgAddCreditType:
		gov(newIn("CreditTypes"))
	case *basetypes.MsgSetClassCreatorAllowlist:
		gov(inTable("Allowlist"))
	case *basetypes.MsgAddClassCreator:
		gov(func(d rowDiff) bool { return d.Table == "AllowedCreators" && d.ID == msg.Creator && isNew(d) })
	case *basetypes.MsgRemoveClassCreator:
		gov(func(d rowDiff) bool { return d.Table == "AllowedCreators" && d.ID == msg.Creator && d.Post == nil })
	case *basetypes.MsgUpdateClassFee:
		gov(inTable("ClassFee"))
	case *basetypes.MsgAddAllowedBridgeChain:
		gov(func(d rowDiff) bool {
			return d.Table == "BridgeChains" && d.ID == strings.ToLower(msg.ChainName) && isNew(d)
		})
	case *basetypes.MsgRemoveAllowedBridgeChain:
		gov(func(d rowDiff) bool {
			return d.Table == "BridgeChains" && d.ID == strings.ToLower(msg.ChainName) && d.Post == nil
		})
	case *basetypes.MsgCreateUnregisteredProject, *basetypes.MsgCreateOrUpdateApplication, *basetypes.MsgUpdateProjectEnrollment, *basetypes.MsgUpdateProjectFee:
		unimplemented = true
	case *baskettypes.MsgUpdateCurator:
		role = "basket curator"
		if b := pre.BasketByDenom(msg.Denom); b != nil {
			roleOK = bytes.Equal(b.Curator, signer)
		}
		allow = newOrID("Baskets", msg.Denom, "curator")
	case *baskettypes.MsgUpdateBasketFee:
		gov(inTable("BasketFee"))
	case *baskettypes.MsgUpdateDateCriteria:
		gov(newOrID("Baskets", msg.Denom, "date_criteria"))
	case *markettypes.MsgUpdateSellOrders:
		role = "sell order owner"
		roleOK = true
		ids := map[string]bool{}
		bal := map[string]bool{}
		for _, u := range msg.Updates {
			o := pre.Order(u.SellOrderId)
			if o == nil || !bytes.Equal(o.Seller, signer) {
				roleOK = false
				continue
			}
			ids[fmt.Sprint(o.Id)] = true
			bal[fmt.Sprintf("%s/%d", signerStr, o.BatchKey)] = true
		}
		allow = func(d rowDiff) bool {
			switch d.Table {
			case "SellOrders":
				return ids[d.ID] && d.Pre != nil && d.Post != nil && onlyFieldsChanged(d.Pre, d.Post, "quantity", "market_id", "ask_amount", "disable_auto_retire", "expiration", "maker")
			case "Balances":
				return bal[d.ID] && d.Pre != nil && d.Post != nil && onlyFieldsChanged(d.Pre, d.Post, "tradable_amount", "escrowed_amount")
			case "Markets":
				return isNew(d)
			}
			return false
		}
	case *markettypes.MsgCancelSellOrder:
		role = "sell order owner"
		o := pre.Order(msg.SellOrderId)
		var bk uint64
		if o != nil {
			roleOK = bytes.Equal(o.Seller, signer)
			bk = o.BatchKey
		}
		allow = func(d rowDiff) bool {
			switch d.Table {
			case "SellOrders":
				return d.ID == fmt.Sprint(msg.SellOrderId) && d.Post == nil
			case "Balances":
				return d.ID == fmt.Sprintf("%s/%d", signerStr, bk) && d.Pre != nil && d.Post != nil && onlyFieldsChanged(d.Pre, d.Post, "tradable_amount", "escrowed_amount")
			}
			return false
		}
	case *markettypes.MsgAddAllowedDenom:
		gov(func(d rowDiff) bool { return d.Table == "AllowedDenoms" && d.ID == msg.BankDenom && isNew(d) })
	case *markettypes.MsgRemoveAllowedDenom:
		gov(func(d rowDiff) bool { return d.Table == "AllowedDenoms" && d.ID == msg.Denom && d.Post == nil })
	case *markettypes.MsgGovSetFeeParams:
		gov(inTable("FeeParams"))
	case *markettypes.MsgGovSendFromFeePool:
		gov(func(rowDiff) bool { return false })
		bankMayChange = true
	case *data.MsgRegisterResolver:
		role = "resolver manager (unless public)"
		for _, r := range pre.Resolvers {
			if r.Id == msg.ResolverId {
				roleOK = len(r.Manager) == 0 || bytes.Equal(r.Manager, signer)
			}
		}
		allow = func(d rowDiff) bool {
			switch d.Table {
			case "DataResolvers":
				return isNew(d) && strings.HasPrefix(d.ID, fmt.Sprintf("%d/", msg.ResolverId))
			case "DataIDs", "DataAnchors":
				return isNew(d)
			}
			return false
		}
	default:
		return out // not a role-gated message
	}

	if unimplemented {
		m.inc("unimplemented_rpc_calls")
		if st.Res.OK {
			out = append(out, V{Kind: "C08/unimplemented-message-succeeded/" + t, Detail: st.Act.Label})
		}
		return out
	}
	if !st.Res.OK {
		if roleOK {
			m.inc("rejected_although_role_held." + t) // other preconditions may fail; informational
		} else {
			m.inc("rejected_without_role")
		}
		return out
	}
	m.inc("accepted." + t)
	if !roleOK {
		out = append(out, V{Kind: "C08/accepted-without-role/" + t,
			Detail: fmt.Sprintf("%s succeeded although %s does not hold the role: %s", st.Act.Label, signerStr, role)})
	}
	for _, d := range diffSnap(pre, post) {
		if !allow(d) {
			what := "modified"
			if d.Pre == nil {
				what = "added"
			} else if d.Post == nil {
				what = "removed"
			}
			out = append(out, V{Kind: fmt.Sprintf("C08/footprint/%s/%s-%s", t, d.Table, what),
				Detail: fmt.Sprintf("%s %s row %q of %s: %v -> %v", st.Act.Label, what, d.ID, d.Table, d.Pre, d.Post)})
		}
	}
	if cc := coinsChanged(pre, post); len(cc) > 0 && !bankMayChange {
		out = append(out, V{Kind: "C08/footprint/" + t + "/bank", Detail: fmt.Sprintf("%s changed coins %v", st.Act.Label, cc)})
	}
	return append(out, namedHolder(st)...)
}

// namedHolder: after a successful message that creates an entity or moves a role, the role is held by
// exactly the account(s) the message names. The role checks above read the holder from state, so a
// hand-over that stores something else than it was told silently gives the role to the wrong account.
func namedHolder(st *explore.Step) []V {
	if !st.Res.OK || st.Act.Kind != explore.ActMsg {
		return nil
	}
	pre, post := st.Pre, st.Post
	var out []V
	bad := func(what string, got []byte, want string) {
		w, err := sdk.AccAddressFromBech32(want)
		if err != nil || !bytes.Equal(got, w) {
			out = append(out, V{Kind: "C08/role-holder-differs-from-the-one-named/" + actType(st.Act),
				Detail: fmt.Sprintf("%s: %s is now %s, the message names %s", st.Act.Label, what, addrStr(got), want)})
		}
	}
	issuers := func(s *chain.Snapshot, classKey uint64) map[string]bool {
		m := map[string]bool{}
		for _, i := range s.ClassIssuers {
			if i.ClassKey == classKey {
				m[addrStr(i.Issuer)] = true
			}
		}
		return m
	}
	canon := func(a string) string {
		if b, err := sdk.AccAddressFromBech32(a); err == nil {
			return addrStr(b)
		}
		return a
	}
	switch msg := st.Res.Msg.(type) {
	case *basetypes.MsgUpdateClassAdmin:
		if c := post.ClassByID(msg.ClassId); c != nil {
			bad("the admin of class "+msg.ClassId, c.Admin, msg.NewAdmin)
		}
	case *basetypes.MsgUpdateProjectAdmin:
		if p := post.ProjectByID(msg.ProjectId); p != nil {
			bad("the admin of project "+msg.ProjectId, p.Admin, msg.NewAdmin)
		}
	case *baskettypes.MsgUpdateCurator:
		if b := post.BasketByDenom(msg.Denom); b != nil {
			bad("the curator of basket "+msg.Denom, b.Curator, msg.NewCurator)
		}
	case *basetypes.MsgUpdateClassIssuers:
		c := pre.ClassByID(msg.ClassId)
		if c == nil {
			break
		}
		want := issuers(pre, c.Key)
		both := false
		for _, r := range msg.RemoveIssuers {
			for _, a := range msg.AddIssuers {
				both = both || canon(a) == canon(r)
			}
		}
		if both {
			break // the statement does not say which wins
		}
		for _, r := range msg.RemoveIssuers {
			delete(want, canon(r))
		}
		for _, a := range msg.AddIssuers {
			want[canon(a)] = true
		}
		if got := issuers(post, c.Key); fmt.Sprint(got) != fmt.Sprint(want) {
			out = append(out, V{Kind: "C08/role-holder-differs-from-the-one-named/" + actType(st.Act),
				Detail: fmt.Sprintf("%s: issuers of %s are now %v, the message asks for %v", st.Act.Label, msg.ClassId, got, want)})
		}
	case *basetypes.MsgCreateClass:
		if r, ok := st.Res.Resp.(*basetypes.MsgCreateClassResponse); ok {
			if c := post.ClassByID(r.ClassId); c != nil {
				bad("the admin of the new class "+r.ClassId, c.Admin, msg.Admin)
				want := map[string]bool{}
				for _, a := range msg.Issuers {
					want[canon(a)] = true
				}
				if got := issuers(post, c.Key); fmt.Sprint(got) != fmt.Sprint(want) {
					out = append(out, V{Kind: "C08/role-holder-differs-from-the-one-named/" + actType(st.Act),
						Detail: fmt.Sprintf("%s: issuers of the new class %s are %v, the message names %v", st.Act.Label, r.ClassId, got, want)})
				}
			}
		}
	case *basetypes.MsgCreateProject:
		if r, ok := st.Res.Resp.(*basetypes.MsgCreateProjectResponse); ok {
			if p := post.ProjectByID(r.ProjectId); p != nil {
				bad("the admin of the new project "+r.ProjectId, p.Admin, msg.Admin)
			}
		}
	case *basetypes.MsgCreateBatch:
		if r, ok := st.Res.Resp.(*basetypes.MsgCreateBatchResponse); ok {
			if b := post.BatchByDenom(r.BatchDenom); b != nil {
				bad("the issuer of the new batch "+r.BatchDenom, b.Issuer, msg.Issuer)
			}
		}
	case *baskettypes.MsgCreate:
		if r, ok := st.Res.Resp.(*baskettypes.MsgCreateResponse); ok {
			if b := post.BasketByDenom(r.BasketDenom); b != nil {
				bad("the curator of the new basket "+r.BasketDenom, b.Curator, msg.Curator)
			}
		}
	case *basetypes.MsgAddAllowedBridgeChain, *basetypes.MsgRemoveAllowedBridgeChain, *basetypes.MsgAddClassCreator, *basetypes.MsgRemoveClassCreator,
		*basetypes.MsgSetClassCreatorAllowlist, *markettypes.MsgAddAllowedDenom, *markettypes.MsgRemoveAllowedDenom:
		// list-type parameters: after a successful message the named entry is present / absent as told
		want, what, present := true, "", false
		switch x := msg.(type) {
		case *basetypes.MsgAddAllowedBridgeChain:
			what = "bridge chain " + strings.ToLower(x.ChainName)
			for _, c := range post.BridgeChains {
				present = present || c.ChainName == strings.ToLower(x.ChainName)
			}
		case *basetypes.MsgRemoveAllowedBridgeChain:
			want, what = false, "bridge chain "+strings.ToLower(x.ChainName)
			for _, c := range post.BridgeChains {
				present = present || c.ChainName == strings.ToLower(x.ChainName)
			}
		case *basetypes.MsgAddClassCreator:
			what = "class creator " + x.Creator
			for _, c := range post.AllowedCreators {
				present = present || addrStr(c.Address) == canon(x.Creator)
			}
		case *basetypes.MsgRemoveClassCreator:
			want, what = false, "class creator "+x.Creator
			for _, c := range post.AllowedCreators {
				present = present || addrStr(c.Address) == canon(x.Creator)
			}
		case *basetypes.MsgSetClassCreatorAllowlist:
			want, what = x.Enabled, "the class creator allowlist switch"
			present = post.Allowlist != nil && post.Allowlist.Enabled
		case *markettypes.MsgAddAllowedDenom:
			what = "allowed denom " + x.BankDenom
			for _, d := range post.AllowedDenoms {
				present = present || d.BankDenom == x.BankDenom
			}
		case *markettypes.MsgRemoveAllowedDenom:
			want, what = false, "allowed denom "+x.Denom
			for _, d := range post.AllowedDenoms {
				present = present || d.BankDenom == x.Denom
			}
		}
		if present != want {
			out = append(out, V{Kind: "C08/parameter-not-changed-as-the-message-says/" + actType(st.Act),
				Detail: fmt.Sprintf("%s succeeded, %s: present/on=%v, the message asks for %v", st.Act.Label, what, present, want)})
		}
	case *data.MsgDefineResolver:
		if r, ok := st.Res.Resp.(*data.MsgDefineResolverResponse); ok {
			for _, x := range post.Resolvers {
				if x.Id == r.ResolverId {
					if msg.Public {
						if len(x.Manager) != 0 {
							out = append(out, V{Kind: "C08/role-holder-differs-from-the-one-named/" + actType(st.Act), Detail: st.Act.Label + ": a public resolver got a manager"})
						}
					} else {
						bad(fmt.Sprintf("the manager of the new resolver %d", r.ResolverId), x.Manager, msg.Definer)
					}
				}
			}
		}
	}
	return out
}

func protoName(s string) protoreflect.Name { return protoreflect.Name(s) }

var _ = ref.Zero
