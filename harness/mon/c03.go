package mon

import (
	"fmt"
	"math/big"
	"time"

	markettypes "github.com/regen-network/regen-ledger/x/ecocredit/v3/marketplace/types/v1"

	"verif/harness/explore"
	"verif/harness/ref"
)

// C03 — ownership safety: a frame condition over every third party. FeePool
// and Authority are bech32 addresses supplied by the scenario package.
type C03 struct {
	counters
	noGhost
	noState
	FeePool   string
	Authority string
}

func (*C03) Name() string { return "C03" }

type abKey struct {
	addr  string
	batch uint64
}

func (m *C03) OnStep(_ explore.Ghost, st *explore.Step) []V {
	if !st.Res.OK && st.Act.Kind != explore.ActNextBlock {
		// a failed message leaves the state untouched by construction of the
		// cache branch (baseapp semantics, trusted); nothing to compare.
		m.inc("failed_messages_seen")
		return nil
	}
	var out []V
	t := actType(st.Act)
	signer := map[string]bool{}
	for _, s := range st.Signers {
		signer[s] = true
	}

	if st.Act.Kind == explore.ActNextBlock {
		for _, b := range st.Pre.Balances {
			nb := st.Post.Balance(b.Address, b.BatchKey)
			if nb == nil {
				out = append(out, V{Kind: "C03/block/balance-row-deleted", Detail: addrStr(b.Address) + " lost a balance row at a block boundary"})
				continue
			}
			preSum := ref.Add(rat(b.TradableAmount), rat(b.EscrowedAmount))
			postSum := ref.Add(rat(nb.TradableAmount), rat(nb.EscrowedAmount))
			if preSum.Cmp(postSum) != 0 {
				out = append(out, V{Kind: "C03/block/tradable-plus-escrow-changed",
					Detail: fmt.Sprintf("%s in %s: tradable+escrowed %s -> %s at %s", addrStr(b.Address), denomOf(st.Pre, b.BatchKey), preSum.FloatString(6), postSum.FloatString(6), st.Act.Label)})
			}
			if rat(nb.EscrowedAmount).Cmp(rat(b.EscrowedAmount)) > 0 {
				out = append(out, V{Kind: "C03/block/escrow-increased", Detail: addrStr(b.Address) + " escrow grew at a block boundary"})
			}
			if rat(nb.EscrowedAmount).Cmp(rat(b.EscrowedAmount)) < 0 {
				m.inc("expiry_refunds")
			}
			if rat(nb.RetiredAmount).Cmp(rat(b.RetiredAmount)) != 0 {
				out = append(out, V{Kind: "C03/block/retired-changed", Detail: addrStr(b.Address) + " retired balance changed at a block boundary"})
			}
		}
		for a, coins := range st.Pre.Coins {
			for d, v := range coins {
				if st.Post.Coin(a, d).Cmp(v) != 0 {
					out = append(out, V{Kind: "C03/block/coins-changed", Detail: fmt.Sprintf("%s %s: %s -> %s at a block boundary", a, d, v, st.Post.Coin(a, d))})
				}
			}
		}
		m.inc("blocks_checked")
		return out
	}

	// escrow decreases allowed by fills of this BuyDirect
	allowed := map[abKey]*big.Rat{}
	sellerDenom := map[string]map[string]bool{}
	duePay := map[string]map[string]*big.Rat{} // seller -> ask denom -> exact payment owed
	dueFills := map[string]map[string]int64{}
	for _, d := range feeParamsAsSet(st) {
		// a seller, who signs nothing at a fill, is paid according to the rates governance set
		out = append(out, V{Kind: "C03/fee-rates-differ-from-the-governance-message", Detail: d})
	}
	// the exception for fills is about the order AS THE SELLER SIGNED IT: what Sell / UpdateSellOrders
	// store must be what the seller's message says
	if st.Act.Kind == explore.ActMsg {
		var ids []uint64
		switch msg := st.Res.Msg.(type) {
		case *markettypes.MsgSell:
			if r, ok := st.Res.Resp.(*markettypes.MsgSellResponse); ok {
				ids = r.SellOrderIds
			}
		case *markettypes.MsgUpdateSellOrders:
			for _, u := range msg.Updates {
				ids = append(ids, u.SellOrderId)
			}
		}
		if ids != nil {
			for _, d := range ordersAsRequested(st, ids) {
				out = append(out, V{Kind: "C03/order-differs-from-what-the-seller-signed", Detail: d})
			}
		}
	}
	if bd, ok := st.Res.Msg.(*markettypes.MsgBuyDirect); ok && st.Act.Kind == explore.ActMsg {
		// quantities may refer to the same order several times
		for _, o := range bd.Orders {
			so := st.Pre.Order(o.SellOrderId)
			if so == nil {
				continue
			}
			// an offer that has lapsed is no offer: taking the seller's escrowed credits then is not a fill
			if e, has := expiry(so); has && !e.After(st.Pre.Time) {
				out = append(out, V{Kind: "C03/fill-of-expired-order",
					Detail: fmt.Sprintf("%s filled order %d of %s which expired at %s (block time %s)", st.Act.Label, so.Id, addrStr(so.Seller), e.Format(time.RFC3339Nano), st.Pre.Time.Format(time.RFC3339Nano))})
			}
			k := abKey{addrStr(so.Seller), so.BatchKey}
			if allowed[k] == nil {
				allowed[k] = ref.Zero()
			}
			allowed[k] = ref.Add(allowed[k], rat(o.Quantity))
			if mk := st.Pre.Market(so.MarketId); mk != nil {
				if sellerDenom[k.addr] == nil {
					sellerDenom[k.addr] = map[string]bool{}
					duePay[k.addr] = map[string]*big.Rat{}
					dueFills[k.addr] = map[string]int64{}
				}
				sellerDenom[k.addr][mk.BankDenom] = true
				// exact payment owed in the order's ask denomination: quantity x ask x (1 - seller fee rate)
				ask, _ := new(big.Int).SetString(so.AskAmount, 10)
				if ask != nil {
					rs := ref.Zero()
					if st.Pre.FeeParams != nil && st.Pre.FeeParams.SellerPercentageFee != "" {
						rs = rat(st.Pre.FeeParams.SellerPercentageFee)
					}
					pay := ref.Mul(ref.Mul(rat(o.Quantity), ref.RatOfInt(ask)), ref.Sub(new(big.Rat).SetInt64(1), rs))
					if duePay[k.addr][mk.BankDenom] == nil {
						duePay[k.addr][mk.BankDenom] = ref.Zero()
					}
					duePay[k.addr][mk.BankDenom] = ref.Add(duePay[k.addr][mk.BankDenom], pay)
					dueFills[k.addr][mk.BankDenom]++
				}
			}
		}
	}

	atRisk := 0
	for _, b := range st.Pre.Balances {
		a := addrStr(b.Address)
		if signer[a] {
			continue
		}
		preT, preE := rat(b.TradableAmount), rat(b.EscrowedAmount)
		if preT.Sign() > 0 || preE.Sign() > 0 {
			atRisk++
		}
		postT, postE := ref.Zero(), ref.Zero()
		if nb := st.Post.Balance(b.Address, b.BatchKey); nb != nil {
			postT, postE = rat(nb.TradableAmount), rat(nb.EscrowedAmount)
		}
		if postT.Cmp(preT) < 0 {
			out = append(out, V{Kind: "C03/third-party-tradable-decreased/" + t,
				Detail: fmt.Sprintf("%s tradable in %s: %s -> %s by %s (signers %v)", a, denomOf(st.Pre, b.BatchKey), b.TradableAmount, postT.FloatString(6), st.Act.Label, st.Signers)})
		}
		k := abKey{a, b.BatchKey}
		drop := ref.Sub(preE, postE)
		if al := allowed[k]; al != nil {
			if drop.Cmp(al) != 0 {
				out = append(out, V{Kind: "C03/fill-escrow-delta-wrong",
					Detail: fmt.Sprintf("%s escrow in %s dropped by %s, purchased %s (%s)", a, denomOf(st.Pre, b.BatchKey), drop.FloatString(6), al.FloatString(6), st.Act.Label)})
			}
			m.inc("fills")
		} else if drop.Sign() > 0 {
			out = append(out, V{Kind: "C03/third-party-escrow-decreased/" + t,
				Detail: fmt.Sprintf("%s escrow in %s: %s -> %s by %s (signers %v)", a, denomOf(st.Pre, b.BatchKey), b.EscrowedAmount, postE.FloatString(6), st.Act.Label, st.Signers)})
		}
	}
	for a, coins := range st.Pre.Coins {
		if signer[a] {
			continue
		}
		for d, v := range coins {
			nv := st.Post.Coin(a, d)
			if v.Sign() > 0 {
				atRisk++
			}
			if nv.Cmp(v) < 0 {
				if a == m.FeePool && signer[m.Authority] {
					m.inc("fee_pool_debits_by_authority")
					continue
				}
				kind := "C03/third-party-coins-decreased/" + t
				if a == m.FeePool {
					kind = "C03/fee-pool-decreased-without-authority/" + t
				}
				out = append(out, V{Kind: kind, Detail: fmt.Sprintf("%s %s: %s -> %s by %s (signers %v)", a, d, v, nv, st.Act.Label, st.Signers)})
			}
			if nv.Cmp(v) > 0 && sellerDenom[a][d] {
				m.inc("sellers_paid")
			}
		}
	}
	// a filled seller is paid in the order's ask denomination: each fill's payment is within one
	// base unit of the exact value (C07), so whenever the exact amount owed exceeds the number of
	// fills by at least one unit, the seller's balance in that denom must have grown
	for a, byDen := range duePay {
		for d, due := range byDen {
			lower := ref.Sub(due, new(big.Rat).SetInt64(dueFills[a][d]))
			if lower.Cmp(new(big.Rat).SetInt64(1)) >= 0 && st.Post.Coin(a, d).Cmp(st.Pre.Coin(a, d)) <= 0 {
				out = append(out, V{Kind: "C03/filled-seller-not-paid-in-ask-denom",
					Detail: fmt.Sprintf("%s is owed %s %s for its filled orders but its %s balance did not grow (%s -> %s) [%s]", a, due.FloatString(3), d, d, st.Pre.Coin(a, d), st.Post.Coin(a, d), st.Act.Label)})
			}
		}
	}
	if atRisk >= 3 {
		m.inc("transitions_with_3+_third_party_holdings")
	}
	m.inc("successful_messages_checked")
	return out
}
