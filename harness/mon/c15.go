package mon

import (
	"fmt"
	"sort"
	"strings"

	sdk "github.com/cosmos/cosmos-sdk/types"
	"github.com/cosmos/gogoproto/proto"

	"github.com/regen-network/regen-ledger/x/data/v3"

	"verif/harness/chain"
	"verif/harness/explore"
)

// C15 (on-chain part) — "data anchored under one content hash can never be
// confused with, or answer queries for, a different content hash".
//
// The pure enumerator decides the conversion functions. This monitor decides
// the consequence on the real data module, under the production ID hasher and
// under injected colliding ones: on every distinct state, for every content
// hash of a fixed universe (used and never used), the by-hash and by-IRI
// queries answer with exactly the record that the successful messages naming
// THAT content hash produced — its own IRI and content hash, its first anchor
// time, its attestors, its resolvers — and with nothing for a content hash no
// successful message named.
type C15 struct {
	counters
	Universe []*data.ContentHash
	inner    C16 // ghost bookkeeping only; its verdicts belong to C16
}

func (*C15) Name() string { return "C15" }

func (m *C15) NewGhost(c *chain.Chain, ctx sdk.Context, s *chain.Snapshot) explore.Ghost {
	return m.inner.NewGhost(c, ctx, s)
}

func (m *C15) OnStep(gh explore.Ghost, st *explore.Step) []V {
	m.inner.OnStep(gh, st) // updates the ghost from the request
	if !st.Res.OK || st.Act.Kind != explore.ActMsg {
		return nil
	}
	// a content hash is EITHER raw OR graph data: one with both parts (or none) has no single IRI, so a
	// message carrying it must not be accepted
	var hs []*data.ContentHash
	switch msg := st.Res.Msg.(type) {
	case *data.MsgAnchor:
		hs = append(hs, msg.ContentHash)
	case *data.MsgRegisterResolver:
		hs = msg.ContentHashes
	}
	var out []V
	for i, h := range hs {
		if h == nil || (h.Raw != nil) == (h.Graph != nil) {
			out = append(out, V{Kind: "C15/on-chain/accepted-content-hash-with-both-or-no-parts",
				Detail: fmt.Sprintf("%s: content hash %d has raw set=%v graph set=%v", st.Act.Label, i, h != nil && h.Raw != nil, h != nil && h.Graph != nil)})
		}
	}
	return out
}

func (m *C15) OnState(gh explore.Ghost, c *chain.Chain, ctx sdk.Context, s *chain.Snapshot) []V {
	g := gh.(*dataGhost)
	var out []V
	bad := func(kind, detail string) { out = append(out, V{Kind: "C15/on-chain/" + kind, Detail: detail}) }
	q := c.DataSrv
	for _, h := range m.Universe {
		var iri string
		var err error
		if h.Raw != nil {
			iri, err = h.Raw.ToIRI()
		} else {
			iri, err = h.Graph.ToIRI()
		}
		if err != nil {
			continue
		}
		want, anchored := g.anchor[iri]
		name := iri
		// --- anchor by hash and by IRI
		check := func(via string, a *data.AnchorInfo, qerr error) {
			switch {
			case anchored && qerr != nil:
				bad(via+"/anchored-data-not-found", fmt.Sprintf("%s was anchored by a successful message but %s answers: %v", name, via, qerr))
			case !anchored && qerr == nil && a != nil:
				bad(via+"/answer-for-data-never-anchored", fmt.Sprintf("no successful message named %s but %s answers with %s", name, via, a.Iri))
			case anchored && a == nil:
				bad(via+"/empty-answer", name)
			case anchored:
				if a.Iri != iri || !proto.Equal(a.ContentHash, h) {
					bad(via+"/answer-is-another-content-hash", fmt.Sprintf("asked for %s, got iri %s hash %v", name, a.Iri, a.ContentHash))
				}
				if gogoNanos(a.Timestamp) != want {
					bad(via+"/anchor-time-of-another-record", fmt.Sprintf("%s: answered %s, first anchored %s", name, gogoNanos(a.Timestamp), want))
				}
			}
		}
		r1, e1 := q.AnchorByHash(ctx, &data.QueryAnchorByHashRequest{ContentHash: h})
		if r1 != nil {
			check("AnchorByHash", r1.Anchor, e1)
		} else {
			check("AnchorByHash", nil, orErr(e1))
		}
		r2, e2 := q.AnchorByIRI(ctx, &data.QueryAnchorByIRIRequest{Iri: iri})
		if r2 != nil {
			check("AnchorByIRI", r2.Anchor, e2)
		} else {
			check("AnchorByIRI", nil, orErr(e2))
		}
		// --- attestations
		var wantAtt []string
		for k, t := range g.attest {
			if strings.HasPrefix(k, iri+"|") {
				wantAtt = append(wantAtt, fmt.Sprintf("%s@%s", k[len(iri)+1:], t))
			}
		}
		sort.Strings(wantAtt)
		att := func(via string, list []*data.AttestationInfo, qerr error) {
			if qerr != nil {
				if len(wantAtt) > 0 || anchored {
					bad(via+"/anchored-data-not-found", fmt.Sprintf("%s: %v", name, qerr))
				}
				return
			}
			var got []string
			for _, a := range list {
				if a.Iri != iri {
					bad(via+"/answer-is-another-content-hash", fmt.Sprintf("asked for %s, got an attestation of %s", name, a.Iri))
				}
				got = append(got, fmt.Sprintf("%s@%s", a.Attestor, gogoNanos(a.Timestamp)))
			}
			sort.Strings(got)
			if strings.Join(got, ",") != strings.Join(wantAtt, ",") {
				bad(via+"/attestations-differ-from-those-made-for-this-hash", fmt.Sprintf("%s: answered %v, successful attestations of this content hash: %v", name, got, wantAtt))
			}
		}
		if h.Graph != nil || len(wantAtt) > 0 {
			r3, e3 := q.AttestationsByHash(ctx, &data.QueryAttestationsByHashRequest{ContentHash: h})
			if r3 != nil {
				att("AttestationsByHash", r3.Attestations, e3)
			} else {
				att("AttestationsByHash", nil, orErr(e3))
			}
			r4, e4 := q.AttestationsByIRI(ctx, &data.QueryAttestationsByIRIRequest{Iri: iri})
			if r4 != nil {
				att("AttestationsByIRI", r4.Attestations, e4)
			} else {
				att("AttestationsByIRI", nil, orErr(e4))
			}
		}
		// --- resolvers
		var wantRes []string
		for k := range g.reg {
			if strings.HasSuffix(k, "|"+iri) {
				wantRes = append(wantRes, k[:len(k)-len(iri)-1])
			}
		}
		sort.Strings(wantRes)
		res := func(via string, list []*data.ResolverInfo, qerr error) {
			if qerr != nil {
				if len(wantRes) > 0 || anchored {
					bad(via+"/anchored-data-not-found", fmt.Sprintf("%s: %v", name, qerr))
				}
				return
			}
			var got []string
			for _, r := range list {
				got = append(got, fmt.Sprint(r.Id))
			}
			sort.Strings(got)
			if strings.Join(got, ",") != strings.Join(wantRes, ",") {
				bad(via+"/resolvers-differ-from-those-registered-for-this-hash", fmt.Sprintf("%s: answered %v, registered %v", name, got, wantRes))
			}
		}
		r5, e5 := q.ResolversByHash(ctx, &data.QueryResolversByHashRequest{ContentHash: h})
		if r5 != nil {
			res("ResolversByHash", r5.Resolvers, e5)
		} else {
			res("ResolversByHash", nil, orErr(e5))
		}
		r6, e6 := q.ResolversByIRI(ctx, &data.QueryResolversByIRIRequest{Iri: iri})
		if r6 != nil {
			res("ResolversByIRI", r6.Resolvers, e6)
		} else {
			res("ResolversByIRI", nil, orErr(e6))
		}
		// --- the conversion queries
		if r, err := q.ConvertHashToIRI(ctx, &data.ConvertHashToIRIRequest{ContentHash: h}); err != nil || r.Iri != iri {
			bad("ConvertHashToIRI/differs-from-ToIRI", fmt.Sprintf("%s: %v %v", name, r, err))
		}
		if r, err := q.ConvertIRIToHash(ctx, &data.ConvertIRIToHashRequest{Iri: iri}); err != nil || !proto.Equal(r.ContentHash, h) {
			bad("ConvertIRIToHash/another-content-hash", fmt.Sprintf("%s: %v %v", name, r, err))
		}
		if anchored {
			m.inc("anchored_hashes_queried")
		} else {
			m.inc("unanchored_hashes_queried")
		}
	}
	m.inc("states_checked")
	return out
}

func orErr(err error) error {
	if err == nil {
		return fmt.Errorf("nil response without error")
	}
	return err
}
