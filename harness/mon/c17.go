package mon

import (
	"context"
	"crypto/sha256"
	"fmt"
	"sort"
	"strings"

	gogotypes "github.com/cosmos/gogoproto/types"
	"google.golang.org/protobuf/proto"
	"google.golang.org/protobuf/types/known/durationpb"
	"google.golang.org/protobuf/types/known/timestamppb"

	sdk "github.com/cosmos/cosmos-sdk/types"
	"github.com/cosmos/cosmos-sdk/types/query"

	basev1beta1 "cosmossdk.io/api/cosmos/base/v1beta1"

	basketapi "github.com/regen-network/regen-ledger/api/v2/regen/ecocredit/basket/v1"
	marketapi "github.com/regen-network/regen-ledger/api/v2/regen/ecocredit/marketplace/v1"
	baseapi "github.com/regen-network/regen-ledger/api/v2/regen/ecocredit/v1"
	"github.com/regen-network/regen-ledger/x/data/v3"
	basetypes "github.com/regen-network/regen-ledger/x/ecocredit/v3/base/types/v1"
	baskettypes "github.com/regen-network/regen-ledger/x/ecocredit/v3/basket/types/v1"
	markettypes "github.com/regen-network/regen-ledger/x/ecocredit/v3/marketplace/types/v1"

	"verif/harness/chain"
	"verif/harness/explore"
)

// C17 — queries return exactly the matching state; paging neither drops nor
// repeats. In every distinct state the monitor calls the real gRPC query
// servers for every filter argument present in the state plus near-miss
// absent values, with every request of the paging alphabet, and compares with
// a brute-force filter over the snapshot (primary-key full scans).
type C17 struct {
	counters
	noGhost
	noStep
	// NoMemo disables the (query, argument, table-content) memo.
	NoMemo bool
	memo   map[[16]byte]struct{}
}

func (*C17) Name() string { return "C17" }

// table groups a query handler reads (memo key = content hash of its groups)
const (
	gClass uint32 = 1 << iota
	gProject
	gBatch
	gBalance
	gSupply
	gParams
	gBasket
	gBasketBal
	gOrders
	gDenoms
	gData
	gCount = 11
)

// c17List describes one list query.
type c17List struct {
	name  string
	deps  uint32
	paged bool
	args  []string
	// expect returns the canonical strings of the rows matching arg and
	// whether an error is acceptable instead of a result (argument names an
	// entity that does not exist, or is malformed).
	expect func(arg string) (elems []string, errOK bool)
	call   func(arg string, pr *query.PageRequest) ([]string, *query.PageResponse, error)
}

// c17One describes one single-entity query (a pair of arguments is joined
// with pairSep).
type c17One struct {
	name string
	deps uint32
	args []string
	// call returns the canonical string of the answer.
	call func(arg string) (string, error)
	// expect returns the canonical string of the stored entity; present=false
	// when it does not exist. zeroOK: an absent entity may also be answered
	// with this canonical "zero" value instead of an error.
	expect func(arg string) (want string, present bool, zeroOK string)
}

type c17Run struct {
	m    *C17
	s    *chain.Snapshot
	gctx context.Context
	base basetypes.QueryServer
	bask baskettypes.QueryServer
	mkt  markettypes.QueryServer
	dat  data.QueryServer
	out  []V
	gh   [gCount][32]byte
}

func (m *C17) OnState(_ explore.Ghost, c *chain.Chain, ctx sdk.Context, s *chain.Snapshot) []V {
	r := &c17Run{m: m, s: s, dat: c.DataSrv}
	r.gctx = sdk.WrapSDKContext(ctx.WithGasMeter(sdk.NewInfiniteGasMeter()).WithEventManager(sdk.NewEventManager()))
	r.base, r.bask, r.mkt = c.Eco.Keeper.QueryServers()
	r.hashGroups()
	if m.memo == nil || len(m.memo) > 3_000_000 {
		m.memo = map[[16]byte]struct{}{}
	}
	m.inc("states_checked")
	for _, q := range r.lists() {
		for _, a := range dedupe(q.args) {
			m.inc("list_query_arg_pairs")
			if r.seen(q.name, q.deps, a) {
				m.inc("memo_hits")
				continue
			}
			r.checkList(q, a)
		}
	}
	for _, q := range r.singles() {
		for _, a := range dedupe(q.args) {
			m.inc("single_entity_pairs")
			if r.seen(q.name, q.deps, a) {
				m.inc("memo_hits")
				continue
			}
			r.checkOne(q, a)
		}
	}
	return r.out
}

func dedupe(in []string) []string {
	seen := make(map[string]bool, len(in))
	out := make([]string, 0, len(in))
	for _, x := range in {
		if !seen[x] {
			seen[x] = true
			out = append(out, x)
		}
	}
	return out
}

func (r *c17Run) bad(q, what, detail string) {
	r.out = append(r.out, V{Kind: "C17/" + q + "/" + what, Detail: detail})
}

/* ---------- memo ---------- */

func (r *c17Run) hashGroups() {
	s := r.s
	mo := proto.MarshalOptions{Deterministic: true}
	h := func(g uint32, tables ...[]proto.Message) {
		hh := sha256.New()
		for ti, t := range tables {
			fmt.Fprintf(hh, "T%d:%d;", ti, len(t))
			for _, row := range t {
				bz, err := mo.Marshal(row)
				if err != nil {
					panic(err)
				}
				fmt.Fprintf(hh, "%d:", len(bz))
				hh.Write(bz)
			}
		}
		i := 0
		for g>>uint(i) != 1 {
			i++
		}
		copy(r.gh[i][:], hh.Sum(nil))
	}
	h(gClass, rows(s.Classes), rows(s.ClassIssuers))
	h(gProject, rows(s.Projects))
	h(gBatch, rows(s.Batches))
	h(gBalance, rows(s.Balances))
	h(gSupply, rows(s.Supplies))
	h(gParams, rows(s.CreditTypes), rows(s.AllowedCreators), rows(s.BridgeChains), one(s.Allowlist), one(s.ClassFee))
	h(gBasket, rows(s.Baskets), rows(s.BasketClasses), one(s.BasketFee))
	h(gBasketBal, rows(s.BasketBalances))
	h(gOrders, rows(s.SellOrders), rows(s.Markets))
	h(gDenoms, rows(s.AllowedDenoms))
	h(gData, rows(s.DataIDs), rows(s.DataAnchors), rows(s.DataAttestors), rows(s.Resolvers), rows(s.DataResolvers))
}

func rows[T proto.Message](in []T) []proto.Message {
	out := make([]proto.Message, len(in))
	for i, x := range in {
		out[i] = x
	}
	return out
}

func one[T proto.Message](x T) []proto.Message { return []proto.Message{x} }

// seen reports whether (query, arg) was already enumerated against identical
// rows of the tables the handler reads, and records it otherwise.
func (r *c17Run) seen(name string, deps uint32, arg string) bool {
	if r.m.NoMemo {
		return false
	}
	hh := sha256.New()
	fmt.Fprintf(hh, "%s|%d|%s|", name, len(arg), arg)
	for i := 0; i < gCount; i++ {
		if deps&(1<<uint(i)) != 0 {
			hh.Write(r.gh[i][:])
		}
	}
	var k [16]byte
	copy(k[:], hh.Sum(nil))
	if _, ok := r.m.memo[k]; ok {
		return true
	}
	r.m.memo[k] = struct{}{}
	return false
}

/* ---------- the paging enumeration ---------- */

func reqStr(pr *query.PageRequest) string {
	if pr == nil {
		return "pagination=nil"
	}
	return fmt.Sprintf("pagination{key=%x offset=%d limit=%d count_total=%v}", pr.Key, pr.Offset, pr.Limit, pr.CountTotal)
}

func brief(xs []string) string {
	if len(xs) > 6 {
		return fmt.Sprintf("%d elements [%s ...]", len(xs), strings.Join(xs[:6], "; "))
	}
	return fmt.Sprintf("%d elements [%s]", len(xs), strings.Join(xs, "; "))
}

// guard runs one list request under recover.
func (r *c17Run) guard(q *c17List, arg string, pr *query.PageRequest) (elems []string, pg *query.PageResponse, err error, panicked bool) {
	r.m.inc("queries_run")
	defer func() {
		if rec := recover(); rec != nil {
			panicked = true
			r.bad(q.name, "panic", fmt.Sprintf("%s(%q, %s) panicked: %v", q.name, arg, reqStr(pr), rec))
		}
	}()
	elems, pg, err = q.call(arg, pr)
	return
}

func count(xs []string) map[string]int {
	m := make(map[string]int, len(xs))
	for _, x := range xs {
		m[x]++
	}
	return m
}

// compare got against want as multisets. extraKind is used for elements that
// occur more often than expected, missKind for those that occur less often;
// an element that is not expected at all is always membership-extra.
func (r *c17Run) compare(q *c17List, arg, req string, got, want []string, extraKind, missKind string) bool {
	g, w := count(got), count(want)
	ok := true
	for _, k := range sortedKeys(g) {
		if g[k] > w[k] {
			kind := extraKind
			if w[k] == 0 {
				kind = "membership-extra"
			}
			r.bad(q.name, kind, fmt.Sprintf("%s(%q, %s): element %s returned %d time(s), matching rows in state: %d; expected %s; got %s", q.name, arg, req, k, g[k], w[k], brief(want), brief(got)))
			ok = false
			break
		}
	}
	for _, k := range sortedKeys(w) {
		if g[k] < w[k] {
			r.bad(q.name, missKind, fmt.Sprintf("%s(%q, %s): element %s returned %d time(s), matching rows in state: %d; expected %s; got %s", q.name, arg, req, k, g[k], w[k], brief(want), brief(got)))
			ok = false
			break
		}
	}
	return ok
}

func (r *c17Run) checkList(q *c17List, arg string) {
	m := r.m
	want, errOK := q.expect(arg)
	N := len(want)
	if errOK {
		m.inc("near_miss_args_tried")
	} else if N == 0 {
		m.inc("args_with_empty_result")
	}
	if N > 100 && q.paged {
		// an un-paginated request to a PAGED query is answered with the default page of 100; queries without
		// pagination must answer in full however long the list is
		m.inc("skipped_over_100")
		return
	}
	// 1. no pagination
	got, _, err, pan := r.guard(q, arg, nil)
	if pan {
		return
	}
	if err != nil {
		if errOK && N == 0 {
			m.inc("errors_for_absent_or_malformed_arg")
			return
		}
		r.bad(q.name, "unexpected-error", fmt.Sprintf("%s(%q, pagination=nil): error %v; expected %s", q.name, arg, err, brief(want)))
		return
	}
	if N > 0 {
		m.inc("nonempty_results")
	}
	if !r.compare(q, arg, "pagination=nil", got, want, "membership-extra", "membership-missing") {
		return
	}
	if !q.paged {
		return
	}
	// 2. key-based walks
	var limits []uint64
	cand := []uint64{1, 2, 3, uint64(N), uint64(N + 1)}
	offLimits := []uint64{1, 2}
	if N == 0 { // nothing to cut into pages: one limit suffices
		cand, offLimits = []uint64{1}, []uint64{1}
	}
	for _, l := range cand {
		dup := l == 0
		for _, x := range limits {
			dup = dup || x == l
		}
		if !dup {
			limits = append(limits, l)
		}
	}
	for _, l := range limits {
		m.inc("page_walks")
		var all []string
		var key []byte
		pages := 0
		okWalk := true
		for {
			pr := &query.PageRequest{Limit: l}
			if pages == 0 {
				pr.CountTotal = true
			} else {
				pr.Key = key
			}
			got, pg, err, pan := r.guard(q, arg, pr)
			if pan {
				return
			}
			if err != nil {
				r.bad(q.name, "unexpected-error", fmt.Sprintf("%s(%q, %s) page %d: error %v", q.name, arg, reqStr(pr), pages+1, err))
				okWalk = false
				break
			}
			if uint64(len(got)) > l {
				r.bad(q.name, "page-too-long", fmt.Sprintf("%s(%q, %s): page of %d elements for limit %d: %s", q.name, arg, reqStr(pr), len(got), l, brief(got)))
				okWalk = false
				break
			}
			if pages == 0 {
				if pg == nil {
					r.bad(q.name, "total-wrong", fmt.Sprintf("%s(%q, %s): no page response, expected total %d", q.name, arg, reqStr(pr), N))
				} else if pg.Total != uint64(N) {
					r.bad(q.name, "total-wrong", fmt.Sprintf("%s(%q, %s): total %d, matching rows in state %d", q.name, arg, reqStr(pr), pg.Total, N))
				}
			} else if pg != nil {
				if pg.Total == 0 {
					m.inc("obs_key_request_total_zero")
				} else {
					m.inc("obs_key_request_total_nonzero")
				}
			}
			all = append(all, got...)
			pages++
			if pg == nil || len(pg.NextKey) == 0 {
				break
			}
			if uint64(len(got)) < l {
				m.inc("obs_short_page_with_next_key")
			}
			if pages > N+3 {
				r.bad(q.name, "paging-does-not-terminate", fmt.Sprintf("%s(%q) limit %d: %d pages followed for %d matching rows and next_key is still set", q.name, arg, l, pages, N))
				okWalk = false
				break
			}
			key = pg.NextKey
		}
		if okWalk {
			if !r.compare(q, arg, fmt.Sprintf("key walk limit=%d, %d pages", l, pages), all, want, "page-repeat", "page-drop") {
				return
			}
		} else {
			return
		}
	}
	// 3. offset-based
	for _, l := range offLimits {
		var walk []string
		for o := 0; o <= N; o++ {
			pr := &query.PageRequest{Offset: uint64(o), Limit: l, CountTotal: true}
			got, pg, err, pan := r.guard(q, arg, pr)
			if pan {
				return
			}
			if err != nil {
				r.bad(q.name, "unexpected-error", fmt.Sprintf("%s(%q, %s): error %v", q.name, arg, reqStr(pr), err))
				return
			}
			wantLen := int(l)
			if N-o < wantLen {
				wantLen = N - o
			}
			switch {
			case len(got) > int(l):
				r.bad(q.name, "page-too-long", fmt.Sprintf("%s(%q, %s): page of %d elements: %s", q.name, arg, reqStr(pr), len(got), brief(got)))
				return
			case len(got) > wantLen:
				r.bad(q.name, "page-repeat", fmt.Sprintf("%s(%q, %s): page of %d elements but only %d rows remain after offset %d of %d: %s", q.name, arg, reqStr(pr), len(got), wantLen, o, N, brief(got)))
				return
			case len(got) < wantLen:
				r.bad(q.name, "page-drop", fmt.Sprintf("%s(%q, %s): page of %d elements, expected %d (matching rows %d): %s", q.name, arg, reqStr(pr), len(got), wantLen, N, brief(got)))
				return
			}
			if o <= N-1 {
				if pg == nil || pg.Total != uint64(N) {
					t := "no page response"
					if pg != nil {
						t = fmt.Sprint(pg.Total)
					}
					r.bad(q.name, "total-wrong", fmt.Sprintf("%s(%q, %s): total %s, matching rows in state %d", q.name, arg, reqStr(pr), t, N))
					return
				}
			} else if pg != nil {
				if pg.Total == uint64(N) {
					m.inc("obs_offset_eq_N_total_eq_N")
				} else {
					m.inc("obs_offset_eq_N_total_other")
				}
			}
			if uint64(o)%l == 0 {
				walk = append(walk, got...)
			}
		}
		m.inc("page_walks")
		if !r.compare(q, arg, fmt.Sprintf("offset walk limit=%d", l), walk, want, "page-repeat", "page-drop") {
			return
		}
	}
	// 4. REVERSE key walks (limit 1 and 2) and a reverse offset walk (limit 1): the same multiset, each
	// element exactly once; no order is demanded
	if N >= 1 {
		for _, l := range offLimits {
			m.inc("page_walks")
			var all []string
			var key []byte
			pages := 0
			for {
				pr := &query.PageRequest{Limit: l, Reverse: true, Key: key}
				got, pg, err, pan := r.guard(q, arg, pr)
				if pan {
					return
				}
				if err != nil {
					r.bad(q.name, "unexpected-error", fmt.Sprintf("%s(%q, %s reverse) page %d: error %v", q.name, arg, reqStr(pr), pages+1, err))
					return
				}
				if uint64(len(got)) > l {
					r.bad(q.name, "page-too-long", fmt.Sprintf("%s(%q, %s reverse): page of %d elements: %s", q.name, arg, reqStr(pr), len(got), brief(got)))
					return
				}
				all = append(all, got...)
				pages++
				if pg == nil || len(pg.NextKey) == 0 {
					break
				}
				if pages > N+3 {
					r.bad(q.name, "paging-does-not-terminate", fmt.Sprintf("%s(%q) reverse limit %d: %d pages followed for %d matching rows", q.name, arg, l, pages, N))
					return
				}
				key = pg.NextKey
			}
			if !r.compare(q, arg, fmt.Sprintf("reverse key walk limit=%d, %d pages", l, pages), all, want, "page-repeat", "page-drop") {
				return
			}
		}
		var walk []string
		for o := 0; o < N; o++ {
			pr := &query.PageRequest{Offset: uint64(o), Limit: 1, Reverse: true}
			got, _, err, pan := r.guard(q, arg, pr)
			if pan {
				return
			}
			if err != nil {
				r.bad(q.name, "unexpected-error", fmt.Sprintf("%s(%q, %s reverse): error %v", q.name, arg, reqStr(pr), err))
				return
			}
			walk = append(walk, got...)
		}
		m.inc("page_walks")
		if !r.compare(q, arg, "reverse offset walk limit=1", walk, want, "page-repeat", "page-drop") {
			return
		}
	}
	// 5. continuations WITHOUT a limit (the default page size applies): the first element with limit 1,
	// then the rest by next_key and, separately, by offset 1
	if N >= 2 {
		first, pg1, err, pan := r.guard(q, arg, &query.PageRequest{Limit: 1})
		if pan {
			return
		}
		if err == nil && pg1 != nil && len(pg1.NextKey) > 0 && len(first) == 1 {
			m.inc("page_walks")
			pr := &query.PageRequest{Key: pg1.NextKey}
			rest, _, err, pan := r.guard(q, arg, pr)
			if pan {
				return
			}
			if err != nil {
				r.bad(q.name, "unexpected-error", fmt.Sprintf("%s(%q, %s): error %v", q.name, arg, reqStr(pr), err))
				return
			}
			if !r.compare(q, arg, "limit=1 then next_key without limit", append(append([]string{}, first...), rest...), want, "page-repeat", "page-drop") {
				return
			}
			pr = &query.PageRequest{Offset: 1}
			rest, _, err, pan = r.guard(q, arg, pr)
			if pan {
				return
			}
			if err != nil {
				r.bad(q.name, "unexpected-error", fmt.Sprintf("%s(%q, %s): error %v", q.name, arg, reqStr(pr), err))
				return
			}
			if !r.compare(q, arg, "limit=1 then offset=1 without limit", append(append([]string{}, first...), rest...), want, "page-repeat", "page-drop") {
				return
			}
		}
	}
	// 4. count_total off: total not demanded
	lim := uint64(N)
	if lim == 0 {
		lim = 1
	}
	pr := &query.PageRequest{Limit: lim}
	got, pg, err, pan := r.guard(q, arg, pr)
	if pan {
		return
	}
	if err != nil {
		r.bad(q.name, "unexpected-error", fmt.Sprintf("%s(%q, %s): error %v", q.name, arg, reqStr(pr), err))
		return
	}
	if pg != nil && pg.Total != 0 {
		m.inc("obs_total_reported_without_count_total")
	}
	r.compare(q, arg, reqStr(pr), got, want, "page-repeat", "page-drop")
}

func (r *c17Run) checkOne(q *c17One, arg string) {
	m := r.m
	m.inc("single_entity_queries")
	m.inc("queries_run")
	want, present, zeroOK := q.expect(arg)
	var got string
	var err error
	panicked := false
	func() {
		defer func() {
			if rec := recover(); rec != nil {
				panicked = true
				r.bad(q.name, "panic", fmt.Sprintf("%s(%q) panicked: %v", q.name, arg, rec))
			}
		}()
		got, err = q.call(arg)
	}()
	if panicked {
		return
	}
	if present {
		m.inc("single_entity_present")
		if err != nil {
			r.bad(q.name, "single-entity-missing", fmt.Sprintf("%s(%q): error %v; stored: %s", q.name, arg, err, want))
		} else if got != want {
			r.bad(q.name, "single-entity-mismatch", fmt.Sprintf("%s(%q): got %s; stored: %s", q.name, arg, got, want))
		}
		return
	}
	m.inc("single_entity_absent")
	m.inc("near_miss_args_tried")
	if err == nil {
		if zeroOK != "" && got == zeroOK {
			m.inc("obs_zero_answer_for_missing_row")
			return
		}
		r.bad(q.name, "single-entity-found-although-absent", fmt.Sprintf("%s(%q): got %s although no such entity is stored", q.name, arg, got))
	}
}

/* ---------- canonical strings ---------- */

func tsG(t *gogotypes.Timestamp) string {
	if t == nil {
		return "nil"
	}
	return fmt.Sprintf("%d.%09d", t.Seconds, t.Nanos)
}

func tsP(t *timestamppb.Timestamp) string {
	if t == nil {
		return "nil"
	}
	return fmt.Sprintf("%d.%09d", t.Seconds, t.Nanos)
}

func durG(d *gogotypes.Duration) string {
	if d == nil {
		return "nil"
	}
	return fmt.Sprintf("%d.%09d", d.Seconds, d.Nanos)
}

func durP(d *durationpb.Duration) string {
	if d == nil {
		return "nil"
	}
	return fmt.Sprintf("%d.%09d", d.Seconds, d.Nanos)
}

func kClass(id, admin, meta, abbrev string) string {
	return fmt.Sprintf("class{%s admin=%s meta=%q type=%s}", id, admin, meta, abbrev)
}

func kProject(id, admin, class, jur, meta, refID string) string {
	return fmt.Sprintf("project{%s admin=%s class=%s jur=%s meta=%q ref=%q}", id, admin, class, jur, meta, refID)
}

func kBatch(issuer, project, denom, meta, start, end, issued string, open bool) string {
	return fmt.Sprintf("batch{%s issuer=%s project=%s meta=%q %s..%s issued=%s open=%v}", denom, issuer, project, meta, start, end, issued, open)
}

func kBal(addr, denom, t, rt, e string) string {
	return fmt.Sprintf("balance{%s %s t=%s r=%s e=%s}", addr, denom, t, rt, e)
}

func kOrder(id uint64, seller, denom, qty, askDenom, askAmt string, dar bool, exp string) string {
	return fmt.Sprintf("order{%d seller=%s batch=%s q=%s ask=%s%s dar=%v exp=%s}", id, seller, denom, qty, askAmt, askDenom, dar, exp)
}

func kCriteria(min, window string, years uint32, isNil bool) string {
	if isNil {
		return "nil"
	}
	return fmt.Sprintf("{min=%s window=%s years=%d}", min, window, years)
}

func kBasket(id uint64, denom, name string, dar bool, abbrev, crit string, exp uint32, curator string) string {
	return fmt.Sprintf("basket{%d %s name=%s dar=%v type=%s criteria=%s exp=%d curator=%s}", id, denom, name, dar, abbrev, crit, exp, curator)
}

func kBasketInfo(denom, name string, dar bool, abbrev, crit string, exp uint32, curator string) string {
	return fmt.Sprintf("info{%s name=%s dar=%v type=%s criteria=%s exp=%d curator=%s}", denom, name, dar, abbrev, crit, exp, curator)
}

func kResolver(id uint64, url, manager string) string {
	return fmt.Sprintf("resolver{%d url=%q manager=%s}", id, url, manager)
}

func kAttest(iri, attestor, ts string) string {
	return fmt.Sprintf("attestation{%s by %s at %s}", iri, attestor, ts)
}

func kCoinG(c *sdk.Coin) string {
	if c == nil || (c.Denom == "" && (c.Amount.IsNil() || c.Amount.IsZero())) {
		return "no-fee"
	}
	return c.Amount.String() + c.Denom
}

func kCoinP(c *basev1beta1.Coin) string {
	if c == nil || (c.Denom == "" && (c.Amount == "" || c.Amount == "0")) {
		return "no-fee"
	}
	return c.Amount + c.Denom
}

func critP(c *basketapi.DateCriteria) string {
	if c == nil {
		return kCriteria("", "", 0, true)
	}
	return kCriteria(tsP(c.MinStartDate), durP(c.StartDateWindow), c.YearsInThePast, false)
}

func critG(c *baskettypes.DateCriteria) string {
	if c == nil {
		return kCriteria("", "", 0, true)
	}
	return kCriteria(tsG(c.MinStartDate), durG(c.StartDateWindow), c.YearsInThePast, false)
}

func sortedCopy(xs []string) []string {
	out := append([]string{}, xs...)
	sort.Strings(out)
	return out
}

/* ---------- filter arguments: present values + near misses ---------- */

// nearStrings returns, for up to max present values, the value without its
// last character and with "1" / "0" appended, plus the extra values.
func nearStrings(present []string, max int, extra ...string) []string {
	out := append([]string{}, present...)
	for i, p := range present {
		if i >= max {
			break
		}
		if len(p) > 0 {
			out = append(out, p[:len(p)-1])
		}
		out = append(out, p+"1", p+"0")
		// the same value with a blank after / before it is another value
		out = append(out, p+" ", " "+p)
	}
	return append(out, extra...)
}

func (r *c17Run) classArgs() []string {
	var p []string
	for _, c := range r.s.Classes {
		p = append(p, c.Id)
	}
	return nearStrings(p, 4, "C0", "C1", "C00", "ZZ99", "c01", "")
}

func (r *c17Run) projectArgs() []string {
	var p []string
	for _, x := range r.s.Projects {
		p = append(p, x.Id)
	}
	return nearStrings(p, 4, "C01", "C01-", "C01-000", "")
}

func (r *c17Run) denomArgs() []string {
	var p []string
	for _, x := range r.s.Batches {
		p = append(p, x.Denom)
	}
	return nearStrings(p, 3, "C01-001-20200101-20210101-999", "C01-001", "C01", "")
}

func (r *c17Run) refArgs() []string {
	var p []string
	for _, x := range r.s.Projects {
		if x.ReferenceId != "" {
			p = append(p, x.ReferenceId)
		}
	}
	p = dedupe(p)
	return nearStrings(p, 4, "r", "r1", "r11", "R1", "")
}

func (r *c17Run) basketArgs() []string {
	var p []string
	for _, x := range r.s.Baskets {
		p = append(p, x.BasketDenom)
	}
	return nearStrings(p, 3, "eco.uC.", "eco.uC.NOPE", "")
}

func (r *c17Run) urlArgs() []string {
	var p []string
	for _, x := range r.s.Resolvers {
		p = append(p, x.Url)
	}
	p = dedupe(p)
	return nearStrings(p, 3, "https://", "https://r1.example", "https://r1.example/", "")
}

// unknownIRI is a well-formed IRI of content that is never anchored.
var unknownIRI = func() string {
	h := make([]byte, 32)
	h[0], h[31] = 0xEE, 0xEE
	iri, err := (&data.ContentHash{Raw: &data.ContentHash_Raw{Hash: h, DigestAlgorithm: 1, FileExtension: "bin"}}).ToIRI()
	if err != nil {
		panic(err)
	}
	return iri
}()

func (r *c17Run) iriArgs() []string {
	var p []string
	for _, x := range r.s.DataIDs {
		p = append(p, x.Iri)
	}
	out := append([]string{}, p...)
	for i, x := range p {
		if i >= 2 {
			break
		}
		out = append(out, x[:len(x)-1], x+"x") // malformed / other extension
		if j := strings.LastIndex(x, "."); j > 0 {
			out = append(out, x[:j]) // without extension
		}
	}
	return append(out, unknownIRI, "regen:", "")
}

// addrArgs: every address occurring anywhere in state, plus an address that
// holds nothing, 19/21/32-byte variants of present addresses, and malformed
// strings.
func (r *c17Run) addrArgs() []string {
	s := r.s
	var raw [][]byte
	for _, x := range s.Classes {
		raw = append(raw, x.Admin)
	}
	for _, x := range s.ClassIssuers {
		raw = append(raw, x.Issuer)
	}
	for _, x := range s.Projects {
		raw = append(raw, x.Admin)
	}
	for _, x := range s.Batches {
		raw = append(raw, x.Issuer)
	}
	for _, x := range s.Balances {
		raw = append(raw, x.Address)
	}
	for _, x := range s.SellOrders {
		raw = append(raw, x.Seller)
	}
	for _, x := range s.Baskets {
		raw = append(raw, x.Curator)
	}
	for _, x := range s.AllowedCreators {
		raw = append(raw, x.Address)
	}
	for _, x := range s.DataAttestors {
		raw = append(raw, x.Attestor)
	}
	for _, x := range s.Resolvers {
		raw = append(raw, x.Manager)
	}
	var out []string
	seen := map[string]bool{}
	n := 0
	for _, a := range raw {
		if len(a) == 0 || seen[string(a)] {
			continue
		}
		seen[string(a)] = true
		out = append(out, addrStr(a))
		if n < 2 && len(a) == 20 {
			out = append(out, addrStr(a[:19]), addrStr(append(append([]byte{}, a...), 0)), addrStr(append(append([]byte{}, a...), make([]byte, 12)...)),
				strings.ToUpper(addrStr(a))) // same address, other spelling
			n++
		}
	}
	nobody := make([]byte, 20)
	copy(nobody, "acct-nobody---------")
	return append(out, addrStr(nobody), "regen1qqqq", "notbech32", "")
}

// canon renders an address of an answer in canonical bech32. Several handlers
// echo the request string instead of rendering the stored bytes; a different
// spelling of the same address (upper case) is recorded as an observation,
// not demanded to be normalised.
func (r *c17Run) canon(a string) string {
	if a == "" {
		return a
	}
	b, err := sdk.AccAddressFromBech32(a)
	if err != nil {
		return "<not bech32: " + a + ">"
	}
	if c := addrStr(b); c != a {
		r.m.inc("obs_address_in_answer_not_canonical_bech32")
		return c
	}
	return a
}

func validAddr(a string) ([]byte, bool) {
	b, err := sdk.AccAddressFromBech32(a)
	if err != nil {
		return nil, false
	}
	return b, true
}

/* ---------- expected elements from snapshot rows ---------- */

func (r *c17Run) classIDOfKey(k uint64) string {
	if c := r.s.ClassByKey(k); c != nil {
		return c.Id
	}
	return fmt.Sprintf("<dangling class %d>", k)
}

func (r *c17Run) projectIDOfKey(k uint64) string {
	if p := r.s.ProjectByKey(k); p != nil {
		return p.Id
	}
	return fmt.Sprintf("<dangling project %d>", k)
}

func (r *c17Run) gClassInfo(x *basetypes.ClassInfo) string {
	if x == nil {
		return "<nil>"
	}
	return kClass(x.Id, r.canon(x.Admin), x.Metadata, x.CreditTypeAbbrev)
}

func (r *c17Run) gProjectInfo(x *basetypes.ProjectInfo) string {
	if x == nil {
		return "<nil>"
	}
	return kProject(x.Id, r.canon(x.Admin), x.ClassId, x.Jurisdiction, x.Metadata, x.ReferenceId)
}

func (r *c17Run) gBatchInfo(x *basetypes.BatchInfo) string {
	if x == nil {
		return "<nil>"
	}
	return kBatch(r.canon(x.Issuer), x.ProjectId, x.Denom, x.Metadata, tsG(x.StartDate), tsG(x.EndDate), tsG(x.IssuanceDate), x.Open)
}

func (r *c17Run) gBalInfo(x *basetypes.BatchBalanceInfo) string {
	if x == nil {
		return "<nil>"
	}
	return kBal(r.canon(x.Address), x.BatchDenom, x.TradableAmount, x.RetiredAmount, x.EscrowedAmount)
}

func (r *c17Run) gOrderInfo(x *markettypes.SellOrderInfo) string {
	if x == nil {
		return "<nil>"
	}
	return kOrder(x.Id, r.canon(x.Seller), x.BatchDenom, x.Quantity, x.AskDenom, x.AskAmount, x.DisableAutoRetire, tsG(x.Expiration))
}

func (r *c17Run) gResolverInfo(x *data.ResolverInfo) string {
	if x == nil {
		return "<nil>"
	}
	return kResolver(x.Id, x.Url, r.canon(x.Manager))
}

func (r *c17Run) gAttestInfo(x *data.AttestationInfo) string {
	if x == nil {
		return "<nil>"
	}
	return kAttest(x.Iri, r.canon(x.Attestor), tsG(x.Timestamp))
}

func mapS[T any](xs []T, f func(T) string) []string {
	out := make([]string, len(xs))
	for i, x := range xs {
		out[i] = f(x)
	}
	return out
}

/* ---------- list queries ---------- */

func (r *c17Run) lists() []*c17List {
	s, ctx := r.s, r.gctx
	none := []string{"-"} // queries without a filter argument
	classes, projects, denoms, addrs := r.classArgs(), r.projectArgs(), r.denomArgs(), r.addrArgs()

	eClass := func(c interface {
		GetId() string
		GetAdmin() []byte
		GetMetadata() string
		GetCreditTypeAbbrev() string
	}) string {
		return kClass(c.GetId(), addrStr(c.GetAdmin()), c.GetMetadata(), c.GetCreditTypeAbbrev())
	}
	eProject := func(p interface {
		GetId() string
		GetAdmin() []byte
		GetClassKey() uint64
		GetJurisdiction() string
		GetMetadata() string
		GetReferenceId() string
	}) string {
		return kProject(p.GetId(), addrStr(p.GetAdmin()), r.classIDOfKey(p.GetClassKey()), p.GetJurisdiction(), p.GetMetadata(), p.GetReferenceId())
	}
	eBatch := func(b interface {
		GetIssuer() []byte
		GetProjectKey() uint64
		GetDenom() string
		GetMetadata() string
		GetStartDate() *timestamppb.Timestamp
		GetEndDate() *timestamppb.Timestamp
		GetIssuanceDate() *timestamppb.Timestamp
		GetOpen() bool
	}) string {
		return kBatch(addrStr(b.GetIssuer()), r.projectIDOfKey(b.GetProjectKey()), b.GetDenom(), b.GetMetadata(), tsP(b.GetStartDate()), tsP(b.GetEndDate()), tsP(b.GetIssuanceDate()), b.GetOpen())
	}
	eBal := func(b interface {
		GetAddress() []byte
		GetBatchKey() uint64
		GetTradableAmount() string
		GetRetiredAmount() string
		GetEscrowedAmount() string
	}) string {
		return kBal(addrStr(b.GetAddress()), denomOf(s, b.GetBatchKey()), b.GetTradableAmount(), b.GetRetiredAmount(), b.GetEscrowedAmount())
	}
	eOrder := func(o interface {
		GetId() uint64
		GetSeller() []byte
		GetBatchKey() uint64
		GetQuantity() string
		GetMarketId() uint64
		GetAskAmount() string
		GetDisableAutoRetire() bool
		GetExpiration() *timestamppb.Timestamp
	}) string {
		ask := fmt.Sprintf("<dangling market %d>", o.GetMarketId())
		if mk := s.Market(o.GetMarketId()); mk != nil {
			ask = mk.BankDenom
		}
		return kOrder(o.GetId(), addrStr(o.GetSeller()), denomOf(s, o.GetBatchKey()), o.GetQuantity(), ask, o.GetAskAmount(), o.GetDisableAutoRetire(), tsP(o.GetExpiration()))
	}
	classOfBatchKey := func(projectKey uint64) uint64 {
		if p := s.ProjectByKey(projectKey); p != nil {
			return p.ClassKey
		}
		return 0
	}
	iriOfID := func(id []byte) string {
		for _, d := range s.DataIDs {
			if string(d.Id) == string(id) {
				return d.Iri
			}
		}
		return fmt.Sprintf("<dangling data id %x>", id)
	}
	idOfIRI := func(iri string) ([]byte, bool) {
		for _, d := range s.DataIDs {
			if d.Iri == iri {
				return d.Id, true
			}
		}
		return nil, false
	}
	resolverByID := func(id uint64) string {
		for _, x := range s.Resolvers {
			if x.Id == id {
				return kResolver(x.Id, x.Url, addrStr(x.Manager))
			}
		}
		return fmt.Sprintf("<dangling resolver %d>", id)
	}
	hashOf := func(iri string) (*data.ContentHash, error) { return data.ParseIRI(iri) }

	var qs []*c17List
	add := func(q *c17List) { qs = append(qs, q) }

	// --- base ---
	add(&c17List{name: "Classes", deps: gClass, paged: true, args: none,
		expect: func(string) ([]string, bool) {
			var out []string
			for _, c := range s.Classes {
				out = append(out, eClass(c))
			}
			return out, false
		},
		call: func(_ string, pr *query.PageRequest) ([]string, *query.PageResponse, error) {
			res, err := r.base.Classes(ctx, &basetypes.QueryClassesRequest{Pagination: pr})
			if err != nil {
				return nil, nil, err
			}
			return mapS(res.Classes, r.gClassInfo), res.Pagination, nil
		}})
	add(&c17List{name: "ClassesByAdmin", deps: gClass, paged: true, args: addrs,
		expect: func(a string) ([]string, bool) {
			b, ok := validAddr(a)
			if !ok {
				return nil, true
			}
			var out []string
			for _, c := range s.Classes {
				if string(c.Admin) == string(b) {
					out = append(out, eClass(c))
				}
			}
			return out, false
		},
		call: func(a string, pr *query.PageRequest) ([]string, *query.PageResponse, error) {
			res, err := r.base.ClassesByAdmin(ctx, &basetypes.QueryClassesByAdminRequest{Admin: a, Pagination: pr})
			if err != nil {
				return nil, nil, err
			}
			return mapS(res.Classes, r.gClassInfo), res.Pagination, nil
		}})
	add(&c17List{name: "ClassIssuers", deps: gClass, paged: true, args: classes,
		expect: func(a string) ([]string, bool) {
			c := s.ClassByID(a)
			if c == nil {
				return nil, true
			}
			var out []string
			for _, x := range s.ClassIssuers {
				if x.ClassKey == c.Key {
					out = append(out, addrStr(x.Issuer))
				}
			}
			return out, false
		},
		call: func(a string, pr *query.PageRequest) ([]string, *query.PageResponse, error) {
			res, err := r.base.ClassIssuers(ctx, &basetypes.QueryClassIssuersRequest{ClassId: a, Pagination: pr})
			if err != nil {
				return nil, nil, err
			}
			return res.Issuers, res.Pagination, nil
		}})
	projectsWhere := func(f func(key, classKey uint64, admin []byte, refID string) bool) []string {
		var out []string
		for _, p := range s.Projects {
			if f(p.Key, p.ClassKey, p.Admin, p.ReferenceId) {
				out = append(out, eProject(p))
			}
		}
		return out
	}
	add(&c17List{name: "Projects", deps: gClass | gProject, paged: true, args: none,
		expect: func(string) ([]string, bool) {
			return projectsWhere(func(uint64, uint64, []byte, string) bool { return true }), false
		},
		call: func(_ string, pr *query.PageRequest) ([]string, *query.PageResponse, error) {
			res, err := r.base.Projects(ctx, &basetypes.QueryProjectsRequest{Pagination: pr})
			if err != nil {
				return nil, nil, err
			}
			return mapS(res.Projects, r.gProjectInfo), res.Pagination, nil
		}})
	add(&c17List{name: "ProjectsByClass", deps: gClass | gProject, paged: true, args: classes,
		expect: func(a string) ([]string, bool) {
			c := s.ClassByID(a)
			if c == nil {
				return nil, true
			}
			return projectsWhere(func(_, ck uint64, _ []byte, _ string) bool { return ck == c.Key }), false
		},
		call: func(a string, pr *query.PageRequest) ([]string, *query.PageResponse, error) {
			res, err := r.base.ProjectsByClass(ctx, &basetypes.QueryProjectsByClassRequest{ClassId: a, Pagination: pr})
			if err != nil {
				return nil, nil, err
			}
			return mapS(res.Projects, r.gProjectInfo), res.Pagination, nil
		}})
	add(&c17List{name: "ProjectsByReferenceId", deps: gClass | gProject, paged: true, args: r.refArgs(),
		expect: func(a string) ([]string, bool) {
			if a == "" {
				return nil, true // "no reference id" is not a reference id: the handler refuses it
			}
			return projectsWhere(func(_, _ uint64, _ []byte, ref string) bool { return ref == a }), false
		},
		call: func(a string, pr *query.PageRequest) ([]string, *query.PageResponse, error) {
			res, err := r.base.ProjectsByReferenceId(ctx, &basetypes.QueryProjectsByReferenceIdRequest{ReferenceId: a, Pagination: pr})
			if err != nil {
				return nil, nil, err
			}
			return mapS(res.Projects, r.gProjectInfo), res.Pagination, nil
		}})
	add(&c17List{name: "ProjectsByAdmin", deps: gClass | gProject, paged: true, args: addrs,
		expect: func(a string) ([]string, bool) {
			b, ok := validAddr(a)
			if !ok {
				return nil, true
			}
			return projectsWhere(func(_, _ uint64, adm []byte, _ string) bool { return string(adm) == string(b) }), false
		},
		call: func(a string, pr *query.PageRequest) ([]string, *query.PageResponse, error) {
			res, err := r.base.ProjectsByAdmin(ctx, &basetypes.QueryProjectsByAdminRequest{Admin: a, Pagination: pr})
			if err != nil {
				return nil, nil, err
			}
			return mapS(res.Projects, r.gProjectInfo), res.Pagination, nil
		}})
	batchesWhere := func(f func(projectKey uint64, issuer []byte) bool) []string {
		var out []string
		for _, b := range s.Batches {
			if f(b.ProjectKey, b.Issuer) {
				out = append(out, eBatch(b))
			}
		}
		return out
	}
	const dBatch = gClass | gProject | gBatch
	add(&c17List{name: "Batches", deps: dBatch, paged: true, args: none,
		expect: func(string) ([]string, bool) {
			return batchesWhere(func(uint64, []byte) bool { return true }), false
		},
		call: func(_ string, pr *query.PageRequest) ([]string, *query.PageResponse, error) {
			res, err := r.base.Batches(ctx, &basetypes.QueryBatchesRequest{Pagination: pr})
			if err != nil {
				return nil, nil, err
			}
			return mapS(res.Batches, r.gBatchInfo), res.Pagination, nil
		}})
	add(&c17List{name: "BatchesByIssuer", deps: dBatch, paged: true, args: addrs,
		expect: func(a string) ([]string, bool) {
			b, ok := validAddr(a)
			if !ok {
				return nil, true
			}
			return batchesWhere(func(_ uint64, iss []byte) bool { return string(iss) == string(b) }), false
		},
		call: func(a string, pr *query.PageRequest) ([]string, *query.PageResponse, error) {
			res, err := r.base.BatchesByIssuer(ctx, &basetypes.QueryBatchesByIssuerRequest{Issuer: a, Pagination: pr})
			if err != nil {
				return nil, nil, err
			}
			return mapS(res.Batches, r.gBatchInfo), res.Pagination, nil
		}})
	add(&c17List{name: "BatchesByClass", deps: dBatch, paged: true, args: classes,
		expect: func(a string) ([]string, bool) {
			c := s.ClassByID(a)
			if c == nil {
				return nil, true
			}
			// a batch belongs to the class of its project
			return batchesWhere(func(pk uint64, _ []byte) bool { return classOfBatchKey(pk) == c.Key }), false
		},
		call: func(a string, pr *query.PageRequest) ([]string, *query.PageResponse, error) {
			res, err := r.base.BatchesByClass(ctx, &basetypes.QueryBatchesByClassRequest{ClassId: a, Pagination: pr})
			if err != nil {
				return nil, nil, err
			}
			return mapS(res.Batches, r.gBatchInfo), res.Pagination, nil
		}})
	add(&c17List{name: "BatchesByProject", deps: dBatch, paged: true, args: projects,
		expect: func(a string) ([]string, bool) {
			p := s.ProjectByID(a)
			if p == nil {
				return nil, true
			}
			return batchesWhere(func(pk uint64, _ []byte) bool { return pk == p.Key }), false
		},
		call: func(a string, pr *query.PageRequest) ([]string, *query.PageResponse, error) {
			res, err := r.base.BatchesByProject(ctx, &basetypes.QueryBatchesByProjectRequest{ProjectId: a, Pagination: pr})
			if err != nil {
				return nil, nil, err
			}
			return mapS(res.Batches, r.gBatchInfo), res.Pagination, nil
		}})
	const dBal = gBatch | gBalance
	add(&c17List{name: "Balances", deps: dBal, paged: true, args: addrs,
		expect: func(a string) ([]string, bool) {
			b, ok := validAddr(a)
			if !ok {
				return nil, true
			}
			var out []string
			for _, x := range s.Balances {
				if string(x.Address) == string(b) {
					out = append(out, eBal(x))
				}
			}
			return out, false
		},
		call: func(a string, pr *query.PageRequest) ([]string, *query.PageResponse, error) {
			res, err := r.base.Balances(ctx, &basetypes.QueryBalancesRequest{Address: a, Pagination: pr})
			if err != nil {
				return nil, nil, err
			}
			return mapS(res.Balances, r.gBalInfo), res.Pagination, nil
		}})
	add(&c17List{name: "BalancesByBatch", deps: dBal, paged: true, args: denoms,
		expect: func(a string) ([]string, bool) {
			bt := s.BatchByDenom(a)
			if bt == nil {
				return nil, true
			}
			var out []string
			for _, x := range s.Balances {
				if x.BatchKey == bt.Key {
					out = append(out, eBal(x))
				}
			}
			return out, false
		},
		call: func(a string, pr *query.PageRequest) ([]string, *query.PageResponse, error) {
			res, err := r.base.BalancesByBatch(ctx, &basetypes.QueryBalancesByBatchRequest{BatchDenom: a, Pagination: pr})
			if err != nil {
				return nil, nil, err
			}
			return mapS(res.Balances, r.gBalInfo), res.Pagination, nil
		}})
	add(&c17List{name: "AllBalances", deps: dBal, paged: true, args: none,
		expect: func(string) ([]string, bool) {
			var out []string
			for _, x := range s.Balances {
				out = append(out, eBal(x))
			}
			return out, false
		},
		call: func(_ string, pr *query.PageRequest) ([]string, *query.PageResponse, error) {
			res, err := r.base.AllBalances(ctx, &basetypes.QueryAllBalancesRequest{Pagination: pr})
			if err != nil {
				return nil, nil, err
			}
			return mapS(res.Balances, r.gBalInfo), res.Pagination, nil
		}})
	add(&c17List{name: "AllowedClassCreators", deps: gParams, paged: true, args: none,
		expect: func(string) ([]string, bool) {
			var out []string
			for _, x := range s.AllowedCreators {
				out = append(out, addrStr(x.Address))
			}
			return out, false
		},
		call: func(_ string, pr *query.PageRequest) ([]string, *query.PageResponse, error) {
			res, err := r.base.AllowedClassCreators(ctx, &basetypes.QueryAllowedClassCreatorsRequest{Pagination: pr})
			if err != nil {
				return nil, nil, err
			}
			return res.ClassCreators, res.Pagination, nil
		}})
	add(&c17List{name: "AllowedBridgeChains", deps: gParams, paged: false, args: none,
		expect: func(string) ([]string, bool) {
			var out []string
			for _, x := range s.BridgeChains {
				out = append(out, x.ChainName)
			}
			return out, false
		},
		call: func(_ string, _ *query.PageRequest) ([]string, *query.PageResponse, error) {
			res, err := r.base.AllowedBridgeChains(ctx, &basetypes.QueryAllowedBridgeChainsRequest{})
			if err != nil {
				return nil, nil, err
			}
			return res.AllowedBridgeChains, nil, nil
		}})
	kCT := func(a, n, u string, p uint32) string {
		return fmt.Sprintf("credit-type{%s name=%q unit=%q precision=%d}", a, n, u, p)
	}
	add(&c17List{name: "CreditTypes", deps: gParams, paged: false, args: none,
		expect: func(string) ([]string, bool) {
			var out []string
			for _, x := range s.CreditTypes {
				out = append(out, kCT(x.Abbreviation, x.Name, x.Unit, x.Precision))
			}
			return out, false
		},
		call: func(_ string, _ *query.PageRequest) ([]string, *query.PageResponse, error) {
			res, err := r.base.CreditTypes(ctx, &basetypes.QueryCreditTypesRequest{})
			if err != nil {
				return nil, nil, err
			}
			return mapS(res.CreditTypes, func(x *basetypes.CreditType) string { return kCT(x.Abbreviation, x.Name, x.Unit, x.Precision) }), nil, nil
		}})

	// --- basket ---
	add(&c17List{name: "Baskets", deps: gBasket, paged: true, args: none,
		expect: func(string) ([]string, bool) {
			var out []string
			for _, b := range s.Baskets {
				out = append(out, kBasket(b.Id, b.BasketDenom, b.Name, b.DisableAutoRetire, b.CreditTypeAbbrev, critP(b.DateCriteria), b.Exponent, addrStr(b.Curator))+
					"+"+kBasketInfo(b.BasketDenom, b.Name, b.DisableAutoRetire, b.CreditTypeAbbrev, critP(b.DateCriteria), b.Exponent, addrStr(b.Curator)))
			}
			return out, false
		},
		call: func(_ string, pr *query.PageRequest) ([]string, *query.PageResponse, error) {
			res, err := r.bask.Baskets(ctx, &baskettypes.QueryBasketsRequest{Pagination: pr})
			if err != nil {
				return nil, nil, err
			}
			// the response carries two parallel lists; an element is the pair
			n := len(res.Baskets)
			if len(res.BasketsInfo) > n {
				n = len(res.BasketsInfo)
			}
			out := make([]string, n)
			for i := range out {
				a, b := "<missing>", "<missing>"
				if i < len(res.Baskets) && res.Baskets[i] != nil {
					x := res.Baskets[i]
					a = kBasket(x.Id, x.BasketDenom, x.Name, x.DisableAutoRetire, x.CreditTypeAbbrev, critG(x.DateCriteria), x.Exponent, addrStr(x.Curator))
				}
				if i < len(res.BasketsInfo) && res.BasketsInfo[i] != nil {
					x := res.BasketsInfo[i]
					b = kBasketInfo(x.BasketDenom, x.Name, x.DisableAutoRetire, x.CreditTypeAbbrev, critG(x.DateCriteria), x.Exponent, x.Curator)
				}
				out[i] = a + "+" + b
			}
			return out, res.Pagination, nil
		}})
	kBB := func(id uint64, denom, bal, start string) string {
		return fmt.Sprintf("basket-balance{basket=%d %s balance=%s start=%s}+info{%s balance=%s}", id, denom, bal, start, denom, bal)
	}
	add(&c17List{name: "BasketBalances", deps: gBasket | gBasketBal, paged: true, args: r.basketArgs(),
		expect: func(a string) ([]string, bool) {
			b := s.BasketByDenom(a)
			if b == nil {
				return nil, true
			}
			var out []string
			for _, x := range s.BasketBalances {
				if x.BasketId == b.Id {
					out = append(out, kBB(x.BasketId, x.BatchDenom, x.Balance, tsP(x.BatchStartDate)))
				}
			}
			return out, false
		},
		call: func(a string, pr *query.PageRequest) ([]string, *query.PageResponse, error) {
			res, err := r.bask.BasketBalances(ctx, &baskettypes.QueryBasketBalancesRequest{BasketDenom: a, Pagination: pr})
			if err != nil {
				return nil, nil, err
			}
			n := len(res.Balances)
			if len(res.BalancesInfo) > n {
				n = len(res.BalancesInfo)
			}
			out := make([]string, n)
			for i := range out {
				a, b := "<missing>", "<missing>"
				if i < len(res.Balances) && res.Balances[i] != nil {
					x := res.Balances[i]
					a = fmt.Sprintf("basket-balance{basket=%d %s balance=%s start=%s}", x.BasketId, x.BatchDenom, x.Balance, tsG(x.BatchStartDate))
				}
				if i < len(res.BalancesInfo) && res.BalancesInfo[i] != nil {
					x := res.BalancesInfo[i]
					b = fmt.Sprintf("info{%s balance=%s}", x.BatchDenom, x.Balance)
				}
				out[i] = a + "+" + b
			}
			return out, res.Pagination, nil
		}})

	// --- marketplace ---
	const dOrd = gOrders | gBatch
	ordersWhere := func(f func(batchKey uint64, seller []byte) bool) []string {
		var out []string
		for _, o := range s.SellOrders {
			if f(o.BatchKey, o.Seller) {
				out = append(out, eOrder(o))
			}
		}
		return out
	}
	add(&c17List{name: "SellOrders", deps: dOrd, paged: true, args: none,
		expect: func(string) ([]string, bool) {
			return ordersWhere(func(uint64, []byte) bool { return true }), false
		},
		call: func(_ string, pr *query.PageRequest) ([]string, *query.PageResponse, error) {
			res, err := r.mkt.SellOrders(ctx, &markettypes.QuerySellOrdersRequest{Pagination: pr})
			if err != nil {
				return nil, nil, err
			}
			return mapS(res.SellOrders, r.gOrderInfo), res.Pagination, nil
		}})
	add(&c17List{name: "SellOrdersByBatch", deps: dOrd, paged: true, args: denoms,
		expect: func(a string) ([]string, bool) {
			bt := s.BatchByDenom(a)
			if bt == nil {
				return nil, true
			}
			return ordersWhere(func(bk uint64, _ []byte) bool { return bk == bt.Key }), false
		},
		call: func(a string, pr *query.PageRequest) ([]string, *query.PageResponse, error) {
			res, err := r.mkt.SellOrdersByBatch(ctx, &markettypes.QuerySellOrdersByBatchRequest{BatchDenom: a, Pagination: pr})
			if err != nil {
				return nil, nil, err
			}
			return mapS(res.SellOrders, r.gOrderInfo), res.Pagination, nil
		}})
	add(&c17List{name: "SellOrdersBySeller", deps: dOrd, paged: true, args: addrs,
		expect: func(a string) ([]string, bool) {
			b, ok := validAddr(a)
			if !ok {
				return nil, true
			}
			return ordersWhere(func(_ uint64, sl []byte) bool { return string(sl) == string(b) }), false
		},
		call: func(a string, pr *query.PageRequest) ([]string, *query.PageResponse, error) {
			res, err := r.mkt.SellOrdersBySeller(ctx, &markettypes.QuerySellOrdersBySellerRequest{Seller: a, Pagination: pr})
			if err != nil {
				return nil, nil, err
			}
			return mapS(res.SellOrders, r.gOrderInfo), res.Pagination, nil
		}})
	kAD := func(b, d string, e uint32) string { return fmt.Sprintf("allowed-denom{%s display=%s exp=%d}", b, d, e) }
	add(&c17List{name: "AllowedDenoms", deps: gDenoms, paged: true, args: none,
		expect: func(string) ([]string, bool) {
			var out []string
			for _, x := range s.AllowedDenoms {
				out = append(out, kAD(x.BankDenom, x.DisplayDenom, x.Exponent))
			}
			return out, false
		},
		call: func(_ string, pr *query.PageRequest) ([]string, *query.PageResponse, error) {
			res, err := r.mkt.AllowedDenoms(ctx, &markettypes.QueryAllowedDenomsRequest{Pagination: pr})
			if err != nil {
				return nil, nil, err
			}
			return mapS(res.AllowedDenoms, func(x *markettypes.AllowedDenom) string { return kAD(x.BankDenom, x.DisplayDenom, x.Exponent) }), res.Pagination, nil
		}})

	// --- data ---
	iris := r.iriArgs()
	hashIris := r.hashQueryArgs(iris)
	add(&c17List{name: "AttestationsByAttestor", deps: gData, paged: true, args: addrs,
		expect: func(a string) ([]string, bool) {
			b, ok := validAddr(a)
			if !ok {
				return nil, true
			}
			var out []string
			for _, x := range s.DataAttestors {
				if string(x.Attestor) == string(b) {
					out = append(out, kAttest(iriOfID(x.Id), addrStr(x.Attestor), tsP(x.Timestamp)))
				}
			}
			return out, false
		},
		call: func(a string, pr *query.PageRequest) ([]string, *query.PageResponse, error) {
			res, err := r.dat.AttestationsByAttestor(ctx, &data.QueryAttestationsByAttestorRequest{Attestor: a, Pagination: pr})
			if err != nil {
				return nil, nil, err
			}
			return mapS(res.Attestations, r.gAttestInfo), res.Pagination, nil
		}})
	attByIRI := func(a string) ([]string, bool) {
		id, ok := idOfIRI(a)
		if !ok {
			return nil, true
		}
		var out []string
		for _, x := range s.DataAttestors {
			if string(x.Id) == string(id) {
				out = append(out, kAttest(a, addrStr(x.Attestor), tsP(x.Timestamp)))
			}
		}
		return out, false
	}
	resByIRI := func(a string) ([]string, bool) {
		id, ok := idOfIRI(a)
		if !ok {
			return nil, true
		}
		var out []string
		for _, x := range s.DataResolvers {
			if string(x.Id) == string(id) {
				out = append(out, resolverByID(x.ResolverId))
			}
		}
		return out, false
	}
	add(&c17List{name: "AttestationsByIRI", deps: gData, paged: true, args: iris, expect: attByIRI,
		call: func(a string, pr *query.PageRequest) ([]string, *query.PageResponse, error) {
			res, err := r.dat.AttestationsByIRI(ctx, &data.QueryAttestationsByIRIRequest{Iri: a, Pagination: pr})
			if err != nil {
				return nil, nil, err
			}
			return mapS(res.Attestations, r.gAttestInfo), res.Pagination, nil
		}})
	add(&c17List{name: "AttestationsByHash", deps: gData, paged: true, args: hashIris, expect: attByIRI,
		call: func(a string, pr *query.PageRequest) ([]string, *query.PageResponse, error) {
			h, err := hashOf(a)
			if err != nil {
				return nil, nil, fmt.Errorf("argument is not an IRI: %w", err)
			}
			res, err := r.dat.AttestationsByHash(ctx, &data.QueryAttestationsByHashRequest{ContentHash: h, Pagination: pr})
			if err != nil {
				return nil, nil, err
			}
			return mapS(res.Attestations, r.gAttestInfo), res.Pagination, nil
		}})
	add(&c17List{name: "ResolversByIRI", deps: gData, paged: true, args: iris, expect: resByIRI,
		call: func(a string, pr *query.PageRequest) ([]string, *query.PageResponse, error) {
			res, err := r.dat.ResolversByIRI(ctx, &data.QueryResolversByIRIRequest{Iri: a, Pagination: pr})
			if err != nil {
				return nil, nil, err
			}
			return mapS(res.Resolvers, r.gResolverInfo), res.Pagination, nil
		}})
	add(&c17List{name: "ResolversByHash", deps: gData, paged: true, args: hashIris, expect: resByIRI,
		call: func(a string, pr *query.PageRequest) ([]string, *query.PageResponse, error) {
			h, err := hashOf(a)
			if err != nil {
				return nil, nil, fmt.Errorf("argument is not an IRI: %w", err)
			}
			res, err := r.dat.ResolversByHash(ctx, &data.QueryResolversByHashRequest{ContentHash: h, Pagination: pr})
			if err != nil {
				return nil, nil, err
			}
			return mapS(res.Resolvers, r.gResolverInfo), res.Pagination, nil
		}})
	add(&c17List{name: "ResolversByURL", deps: gData, paged: true, args: r.urlArgs(),
		expect: func(a string) ([]string, bool) {
			if a == "" {
				return nil, true
			}
			var out []string
			for _, x := range s.Resolvers {
				if x.Url == a {
					out = append(out, kResolver(x.Id, x.Url, addrStr(x.Manager)))
				}
			}
			return out, false
		},
		call: func(a string, pr *query.PageRequest) ([]string, *query.PageResponse, error) {
			res, err := r.dat.ResolversByURL(ctx, &data.QueryResolversByURLRequest{Url: a, Pagination: pr})
			if err != nil {
				return nil, nil, err
			}
			return mapS(res.Resolvers, r.gResolverInfo), res.Pagination, nil
		}})
	return qs
}

/* ---------- single-entity queries ---------- */

const pairSep = "\x1f"

func pairArgs(as, bs []string) []string {
	var out []string
	for _, a := range as {
		for _, b := range bs {
			out = append(out, a+pairSep+b)
		}
	}
	return out
}

func firstN(xs []string, n int) []string {
	if len(xs) > n {
		return xs[:n]
	}
	return xs
}

func splitPair(p string) (string, string) {
	i := strings.Index(p, pairSep)
	return p[:i], p[i+1:]
}

// hashQueryArgs: the by-hash queries take a content hash, and a request whose content hash does not pass the
// stateless validation of content hashes (a 16-byte digest, a one-letter extension: rows that only a genesis
// document can contain) is a malformed request, which a handler may refuse. Such IRIs are asked by IRI only.
func (r *c17Run) hashQueryArgs(iris []string) []string {
	var out []string
	for _, a := range iris {
		h, err := data.ParseIRI(a)
		if err == nil && h.Validate() != nil {
			r.m.inc("obs_by_hash_queries_not_asked_for_a_content_hash_failing_stateless_validation")
			continue
		}
		out = append(out, a)
	}
	return out
}

func (r *c17Run) singles() []*c17One {
	s, ctx := r.s, r.gctx
	none := []string{"-"}
	var qs []*c17One
	add := func(q *c17One) { qs = append(qs, q) }

	add(&c17One{name: "Class", deps: gClass, args: r.classArgs(),
		call: func(a string) (string, error) {
			res, err := r.base.Class(ctx, &basetypes.QueryClassRequest{ClassId: a})
			if err != nil {
				return "", err
			}
			return r.gClassInfo(res.Class), nil
		},
		expect: func(a string) (string, bool, string) {
			c := s.ClassByID(a)
			if c == nil {
				return "", false, ""
			}
			return kClass(c.Id, addrStr(c.Admin), c.Metadata, c.CreditTypeAbbrev), true, ""
		}})
	add(&c17One{name: "Project", deps: gClass | gProject, args: r.projectArgs(),
		call: func(a string) (string, error) {
			res, err := r.base.Project(ctx, &basetypes.QueryProjectRequest{ProjectId: a})
			if err != nil {
				return "", err
			}
			return r.gProjectInfo(res.Project), nil
		},
		expect: func(a string) (string, bool, string) {
			p := s.ProjectByID(a)
			if p == nil {
				return "", false, ""
			}
			return kProject(p.Id, addrStr(p.Admin), r.classIDOfKey(p.ClassKey), p.Jurisdiction, p.Metadata, p.ReferenceId), true, ""
		}})
	denoms := r.denomArgs()
	add(&c17One{name: "Batch", deps: gClass | gProject | gBatch, args: denoms,
		call: func(a string) (string, error) {
			res, err := r.base.Batch(ctx, &basetypes.QueryBatchRequest{BatchDenom: a})
			if err != nil {
				return "", err
			}
			return r.gBatchInfo(res.Batch), nil
		},
		expect: func(a string) (string, bool, string) {
			b := s.BatchByDenom(a)
			if b == nil {
				return "", false, ""
			}
			return kBatch(addrStr(b.Issuer), r.projectIDOfKey(b.ProjectKey), b.Denom, b.Metadata, tsP(b.StartDate), tsP(b.EndDate), tsP(b.IssuanceDate), b.Open), true, ""
		}})
	kSup := func(t, rt, c string) string { return fmt.Sprintf("supply{t=%s r=%s c=%s}", t, rt, c) }
	add(&c17One{name: "Supply", deps: gBatch | gSupply, args: denoms,
		call: func(a string) (string, error) {
			res, err := r.base.Supply(ctx, &basetypes.QuerySupplyRequest{BatchDenom: a})
			if err != nil {
				return "", err
			}
			return kSup(res.TradableAmount, res.RetiredAmount, res.CancelledAmount), nil
		},
		expect: func(a string) (string, bool, string) {
			b := s.BatchByDenom(a)
			if b == nil {
				return "", false, ""
			}
			sp := s.SupplyOf(b.Key)
			if sp == nil {
				return "", false, ""
			}
			return kSup(sp.TradableAmount, sp.RetiredAmount, sp.CancelledAmount), true, ""
		}})
	// Balance(address, denom): addresses holding something + near misses, all denoms
	var holders []string
	for _, x := range s.Balances {
		holders = append(holders, addrStr(x.Address))
	}
	holders = dedupe(holders)
	nobody := make([]byte, 20)
	copy(nobody, "acct-nobody---------")
	nearAddrs := []string{addrStr(nobody), "notbech32"}
	if len(s.Balances) > 0 && len(s.Balances[0].Address) == 20 {
		a := s.Balances[0].Address
		nearAddrs = append(nearAddrs, addrStr(a[:19]), addrStr(append(append([]byte{}, a...), make([]byte, 12)...)))
	}
	balPairs := append(pairArgs(holders, denoms), pairArgs(nearAddrs, firstN(denoms, 2))...)
	add(&c17One{name: "Balance", deps: gBatch | gBalance, args: balPairs,
		call: func(p string) (string, error) {
			a, d := splitPair(p)
			res, err := r.base.Balance(ctx, &basetypes.QueryBalanceRequest{Address: a, BatchDenom: d})
			if err != nil {
				return "", err
			}
			return r.gBalInfo(res.Balance), nil
		},
		expect: func(p string) (string, bool, string) {
			a, d := splitPair(p)
			b := s.BatchByDenom(d)
			addr, ok := validAddr(a)
			if b == nil || !ok {
				return "", false, ""
			}
			if x := s.Balance(addr, b.Key); x != nil {
				return kBal(addrStr(x.Address), b.Denom, x.TradableAmount, x.RetiredAmount, x.EscrowedAmount), true, ""
			}
			// no row for an existing batch: the handler answers an all-zero balance
			return "", false, kBal(addrStr(addr), b.Denom, "0", "0", "0")
		}})
	var abbrevs []string
	for _, x := range s.CreditTypes {
		abbrevs = append(abbrevs, x.Abbreviation)
	}
	add(&c17One{name: "CreditType", deps: gParams, args: nearStrings(abbrevs, 3, "c", "CC", "X", ""),
		call: func(a string) (string, error) {
			res, err := r.base.CreditType(ctx, &basetypes.QueryCreditTypeRequest{Abbreviation: a})
			if err != nil {
				return "", err
			}
			if res.CreditType == nil {
				return "<nil>", nil
			}
			x := res.CreditType
			return fmt.Sprintf("credit-type{%s name=%q unit=%q precision=%d}", x.Abbreviation, x.Name, x.Unit, x.Precision), nil
		},
		expect: func(a string) (string, bool, string) {
			x := s.CreditType(a)
			if x == nil {
				return "", false, ""
			}
			return fmt.Sprintf("credit-type{%s name=%q unit=%q precision=%d}", x.Abbreviation, x.Name, x.Unit, x.Precision), true, ""
		}})
	add(&c17One{name: "ClassFee", deps: gParams, args: none,
		call: func(string) (string, error) {
			res, err := r.base.ClassFee(ctx, &basetypes.QueryClassFeeRequest{})
			if err != nil {
				return "", err
			}
			return kCoinG(res.Fee), nil
		},
		expect: func(string) (string, bool, string) {
			if s.ClassFee == nil {
				return kCoinP(nil), true, ""
			}
			return kCoinP(s.ClassFee.Fee), true, ""
		}})
	add(&c17One{name: "ClassCreatorAllowlist", deps: gParams, args: none,
		call: func(string) (string, error) {
			res, err := r.base.ClassCreatorAllowlist(ctx, &basetypes.QueryClassCreatorAllowlistRequest{})
			if err != nil {
				return "", err
			}
			return fmt.Sprint(res.Enabled), nil
		},
		expect: func(string) (string, bool, string) {
			return fmt.Sprint(s.Allowlist != nil && s.Allowlist.Enabled), true, ""
		}})

	// the deprecated aggregate Params query: every part equals the stored singleton / table
	kAD := func(b, d string, e uint32) string { return fmt.Sprintf("allowed-denom{%s display=%s exp=%d}", b, d, e) }
	kParams := func(creators []string, on bool, classFee, basketFee string, denoms, chains []string) string {
		return fmt.Sprintf("params{creators=%v allowlist=%v classFee=%s basketFee=%s denoms=%v chains=%v}",
			sortedCopy(creators), on, classFee, basketFee, sortedCopy(denoms), sortedCopy(chains))
	}
	kCoins := func(cs sdk.Coins) string {
		// the handler wraps the single stored coin; an unset fee may come back as an empty list or a zero coin
		var parts []string
		for i := range cs {
			if k := kCoinG(&cs[i]); k != "no-fee" && !(cs[i].Amount.IsNil() || cs[i].Amount.IsZero()) {
				parts = append(parts, k)
			}
		}
		if len(parts) == 0 {
			return "no-fee"
		}
		return strings.Join(parts, ",")
	}
	kFeeP := func(c *basev1beta1.Coin) string {
		if c == nil || c.Amount == "" || c.Amount == "0" {
			return "no-fee"
		}
		return kCoinP(c)
	}
	add(&c17One{name: "Params", deps: gParams | gBasket | gDenoms, args: none,
		call: func(string) (string, error) {
			res, err := r.base.Params(ctx, &basetypes.QueryParamsRequest{})
			if err != nil {
				return "", err
			}
			p := res.Params
			if p == nil {
				return "<nil>", nil
			}
			return kParams(p.AllowedClassCreators, p.AllowlistEnabled, kCoins(p.CreditClassFee), kCoins(p.BasketFee),
				mapS(p.AllowedDenoms, func(x *basetypes.AllowedDenom) string { return kAD(x.BankDenom, x.DisplayDenom, x.Exponent) }),
				p.AllowedBridgeChains), nil
		},
		expect: func(string) (string, bool, string) {
			var cf, bf *basev1beta1.Coin
			if s.ClassFee != nil {
				cf = s.ClassFee.Fee
			}
			if s.BasketFee != nil {
				bf = s.BasketFee.Fee
			}
			return kParams(mapS(s.AllowedCreators, func(x *baseapi.AllowedClassCreator) string { return addrStr(x.Address) }),
				s.Allowlist != nil && s.Allowlist.Enabled, kFeeP(cf), kFeeP(bf),
				mapS(s.AllowedDenoms, func(x *marketapi.AllowedDenom) string { return kAD(x.BankDenom, x.DisplayDenom, x.Exponent) }),
				mapS(s.BridgeChains, func(x *baseapi.AllowedBridgeChain) string { return x.ChainName })), true, ""
		}})

	// --- basket ---
	baskets := r.basketArgs()
	var presentBaskets []string
	for _, b := range s.Baskets {
		presentBaskets = append(presentBaskets, b.BasketDenom)
	}
	add(&c17One{name: "Basket", deps: gBasket, args: baskets,
		call: func(a string) (string, error) {
			res, err := r.bask.Basket(ctx, &baskettypes.QueryBasketRequest{BasketDenom: a})
			if err != nil {
				return "", err
			}
			x, y := "<nil>", "<nil>"
			if b := res.Basket; b != nil {
				x = kBasket(b.Id, b.BasketDenom, b.Name, b.DisableAutoRetire, b.CreditTypeAbbrev, critG(b.DateCriteria), b.Exponent, addrStr(b.Curator))
			}
			if b := res.BasketInfo; b != nil {
				y = kBasketInfo(b.BasketDenom, b.Name, b.DisableAutoRetire, b.CreditTypeAbbrev, critG(b.DateCriteria), b.Exponent, b.Curator)
			}
			return x + "+" + y + "+classes[" + strings.Join(sortedCopy(res.Classes), ",") + "]", nil
		},
		expect: func(a string) (string, bool, string) {
			b := s.BasketByDenom(a)
			if b == nil {
				return "", false, ""
			}
			var cl []string
			for _, x := range s.BasketClasses {
				if x.BasketId == b.Id {
					cl = append(cl, x.ClassId)
				}
			}
			sort.Strings(cl)
			return kBasket(b.Id, b.BasketDenom, b.Name, b.DisableAutoRetire, b.CreditTypeAbbrev, critP(b.DateCriteria), b.Exponent, addrStr(b.Curator)) + "+" +
				kBasketInfo(b.BasketDenom, b.Name, b.DisableAutoRetire, b.CreditTypeAbbrev, critP(b.DateCriteria), b.Exponent, addrStr(b.Curator)) +
				"+classes[" + strings.Join(cl, ",") + "]", true, ""
		}})
	add(&c17One{name: "BasketBalance", deps: gBasket | gBasketBal | gBatch, args: append(pairArgs(presentBaskets, denoms), pairArgs(baskets, firstN(denoms, 2))...),
		call: func(p string) (string, error) {
			a, d := splitPair(p)
			res, err := r.bask.BasketBalance(ctx, &baskettypes.QueryBasketBalanceRequest{BasketDenom: a, BatchDenom: d})
			if err != nil {
				return "", err
			}
			return res.Balance, nil
		},
		expect: func(p string) (string, bool, string) {
			a, d := splitPair(p)
			b := s.BasketByDenom(a)
			if b == nil || s.BatchByDenom(d) == nil {
				return "", false, ""
			}
			for _, x := range s.BasketBalances {
				if x.BasketId == b.Id && x.BatchDenom == d {
					return x.Balance, true, ""
				}
			}
			return "", false, "0"
		}})
	add(&c17One{name: "BasketFee", deps: gBasket, args: none,
		call: func(string) (string, error) {
			res, err := r.bask.BasketFee(ctx, &baskettypes.QueryBasketFeeRequest{})
			if err != nil {
				return "", err
			}
			return kCoinG(res.Fee), nil
		},
		expect: func(string) (string, bool, string) {
			if s.BasketFee == nil {
				return kCoinP(nil), true, ""
			}
			return kCoinP(s.BasketFee.Fee), true, ""
		}})

	// --- marketplace ---
	var ids []string
	var maxID uint64
	for _, o := range s.SellOrders {
		ids = append(ids, fmt.Sprint(o.Id))
		if o.Id > maxID {
			maxID = o.Id
		}
	}
	ids = append(ids, "0", fmt.Sprint(maxID+1), fmt.Sprint(maxID+256), "18446744073709551615")
	add(&c17One{name: "SellOrder", deps: gOrders | gBatch, args: ids,
		call: func(a string) (string, error) {
			var id uint64
			fmt.Sscan(a, &id)
			res, err := r.mkt.SellOrder(ctx, &markettypes.QuerySellOrderRequest{SellOrderId: id})
			if err != nil {
				return "", err
			}
			return r.gOrderInfo(res.SellOrder), nil
		},
		expect: func(a string) (string, bool, string) {
			var id uint64
			fmt.Sscan(a, &id)
			o := s.Order(id)
			if o == nil {
				return "", false, ""
			}
			ask := fmt.Sprintf("<dangling market %d>", o.MarketId)
			if mk := s.Market(o.MarketId); mk != nil {
				ask = mk.BankDenom
			}
			return kOrder(o.Id, addrStr(o.Seller), denomOf(s, o.BatchKey), o.Quantity, ask, o.AskAmount, o.DisableAutoRetire, tsP(o.Expiration)), true, ""
		}})

	// --- data ---
	kAnchor := func(iri, hash, ts string) string { return fmt.Sprintf("anchor{%s hash=%s at %s}", iri, hash, ts) }
	anchorOf := func(iri string) (string, bool) {
		for _, d := range s.DataIDs {
			if d.Iri == iri {
				for _, a := range s.DataAnchors {
					if string(a.Id) == string(d.Id) {
						return tsP(a.Timestamp), true
					}
				}
			}
		}
		return "", false
	}
	hashStr := func(iri string) string {
		h, err := data.ParseIRI(iri)
		if err != nil || h == nil {
			return "<unparseable>"
		}
		return h.String()
	}
	expAnchor := func(a string) (string, bool, string) {
		ts, ok := anchorOf(a)
		if !ok {
			return "", false, ""
		}
		return kAnchor(a, hashStr(a), ts), true, ""
	}
	gAnchor := func(x *data.AnchorInfo) string {
		if x == nil {
			return "<nil>"
		}
		h := "<nil>"
		if x.ContentHash != nil {
			h = x.ContentHash.String()
		}
		return kAnchor(x.Iri, h, tsG(x.Timestamp))
	}
	iris := r.iriArgs()
	hashIris := r.hashQueryArgs(iris)
	add(&c17One{name: "AnchorByIRI", deps: gData, args: iris, expect: expAnchor,
		call: func(a string) (string, error) {
			res, err := r.dat.AnchorByIRI(ctx, &data.QueryAnchorByIRIRequest{Iri: a})
			if err != nil {
				return "", err
			}
			return gAnchor(res.Anchor), nil
		}})
	add(&c17One{name: "AnchorByHash", deps: gData, args: hashIris, expect: expAnchor,
		call: func(a string) (string, error) {
			h, err := data.ParseIRI(a)
			if err != nil {
				return "", fmt.Errorf("argument is not an IRI: %w", err)
			}
			res, err := r.dat.AnchorByHash(ctx, &data.QueryAnchorByHashRequest{ContentHash: h})
			if err != nil {
				return "", err
			}
			return gAnchor(res.Anchor), nil
		}})
	var rids []string
	var maxR uint64
	for _, x := range s.Resolvers {
		rids = append(rids, fmt.Sprint(x.Id))
		if x.Id > maxR {
			maxR = x.Id
		}
	}
	rids = append(rids, "0", fmt.Sprint(maxR+1), fmt.Sprint(maxR+256))
	add(&c17One{name: "Resolver", deps: gData, args: rids,
		call: func(a string) (string, error) {
			var id uint64
			fmt.Sscan(a, &id)
			res, err := r.dat.Resolver(ctx, &data.QueryResolverRequest{Id: id})
			if err != nil {
				return "", err
			}
			return r.gResolverInfo(res.Resolver), nil
		},
		expect: func(a string) (string, bool, string) {
			var id uint64
			fmt.Sscan(a, &id)
			for _, x := range s.Resolvers {
				if x.Id == id {
					return kResolver(x.Id, x.Url, addrStr(x.Manager)), true, ""
				}
			}
			return "", false, ""
		}})
	return qs
}
