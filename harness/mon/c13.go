package mon

import (
	"encoding/json"
	"fmt"
	"math/big"
	"sort"
	"strings"

	abci "github.com/cometbft/cometbft/abci/types"
	sdk "github.com/cosmos/cosmos-sdk/types"

	basetypes "github.com/regen-network/regen-ledger/x/ecocredit/v3/base/types/v1"

	"verif/harness/chain"
	"verif/harness/explore"
	"verif/harness/ref"
)

// C13 — bridge safety.
type C13 struct{ counters }

func (*C13) Name() string { return "C13" }

type bridgeGhost struct {
	consumed map[string]string // classKey|id|source (literal) -> entry point that consumed it
	bound    map[string]string // classKey|contract -> batch denom
	chains   map[string]bool   // lower-cased chain names allowed by the accepted governance messages
}

func (g *bridgeGhost) Clone() explore.Ghost {
	n := &bridgeGhost{consumed: make(map[string]string, len(g.consumed)), bound: make(map[string]string, len(g.bound)), chains: make(map[string]bool, len(g.chains))}
	for k := range g.chains {
		n.chains[k] = true
	}
	for k, v := range g.consumed {
		n.consumed[k] = v
	}
	for k, v := range g.bound {
		n.bound[k] = v
	}
	return n
}

func (g *bridgeGhost) Digest() []byte {
	var ks []string
	for k, v := range g.consumed {
		ks = append(ks, "c:"+k+"="+v)
	}
	for k, v := range g.bound {
		ks = append(ks, "b:"+k+"="+v)
	}
	for k := range g.chains {
		ks = append(ks, "a:"+k)
	}
	sort.Strings(ks)
	return []byte(strings.Join(ks, ";"))
}

func classKeyOfBatch(s *chain.Snapshot, denom string) (uint64, bool) {
	b := s.BatchByDenom(denom)
	if b == nil {
		return 0, false
	}
	p := s.ProjectByKey(b.ProjectKey)
	if p == nil {
		return 0, false
	}
	return p.ClassKey, true
}

func (m *C13) NewGhost(_ *chain.Chain, _ sdk.Context, seed *chain.Snapshot) explore.Ghost {
	g := &bridgeGhost{consumed: map[string]string{}, bound: map[string]string{}, chains: map[string]bool{}}
	for _, c := range seed.BridgeChains {
		g.chains[c.ChainName] = true
	}
	for _, o := range seed.OriginTxs {
		g.consumed[fmt.Sprintf("%d|%s|%s", o.ClassKey, o.Id, o.Source)] = "seed"
	}
	for _, c := range seed.Contracts {
		g.bound[fmt.Sprintf("%d|%s", c.ClassKey, c.Contract)] = denomOf(seed, c.BatchKey)
	}
	return g
}

func chainAllowed(s *chain.Snapshot, name string) bool {
	for _, c := range s.BridgeChains {
		if c.ChainName == strings.ToLower(name) {
			return true
		}
	}
	return false
}

func evAttr(e abci.Event, key string) string {
	for _, a := range e.Attributes {
		if a.Key == key {
			var s string
			if json.Unmarshal([]byte(a.Value), &s) == nil {
				return s
			}
			return a.Value
		}
	}
	return ""
}

func (m *C13) consume(g *bridgeGhost, post *chain.Snapshot, denom string, o *basetypes.OriginTx, entry string, out *[]V) {
	if o == nil {
		return
	}
	ck, ok := classKeyOfBatch(post, denom)
	if !ok {
		return
	}
	k := fmt.Sprintf("%d|%s|%s", ck, o.Id, o.Source)
	if prev, dup := g.consumed[k]; dup {
		*out = append(*out, V{Kind: "C13/origin-tx-issued-twice/" + prev + "+" + entry,
			Detail: fmt.Sprintf("class key %d origin tx (%s, %s) issued credits through %s and again through %s", ck, o.Id, o.Source, prev, entry)})
	}
	for kk := range g.consumed {
		p := strings.SplitN(kk, "|", 3)
		if kk != k && p[0] == fmt.Sprint(ck) && p[1] == o.Id && strings.EqualFold(p[2], o.Source) {
			m.inc("info_case_variant_source_replays") // not a violation: identity is the literal (id, source) pair
		}
	}
	g.consumed[k] = entry
	m.inc("origin_txs_consumed." + entry)
}

func (m *C13) OnStep(gh explore.Ghost, st *explore.Step) []V {
	g := gh.(*bridgeGhost)
	var out []V
	pre, post := st.Pre, st.Post
	if st.Res.OK && st.Act.Kind == explore.ActMsg {
		switch msg := st.Res.Msg.(type) {
		case *basetypes.MsgCreateBatch:
			if r, ok := st.Res.Resp.(*basetypes.MsgCreateBatchResponse); ok {
				m.consume(g, post, r.BatchDenom, msg.OriginTx, "CreateBatch", &out)
			}
		case *basetypes.MsgMintBatchCredits:
			m.consume(g, post, msg.BatchDenom, msg.OriginTx, "Mint", &out)
		case *basetypes.MsgBridgeReceive:
			r, ok := st.Res.Resp.(*basetypes.MsgBridgeReceiveResponse)
			if !ok {
				out = append(out, V{Kind: "C13/bridge-receive-no-response", Detail: st.Act.Label})
				break
			}
			m.consume(g, post, r.BatchDenom, msg.OriginTx, "BridgeReceive", &out)
			if !chainAllowed(pre, msg.OriginTx.Source) || !g.chains[strings.ToLower(msg.OriginTx.Source)] {
				out = append(out, V{Kind: "C13/bridge-receive-from-disallowed-chain", Detail: st.Act.Label + " (allowed per accepted governance messages: " + fmt.Sprint(sortedKeys(g.chains)) + ")"})
			}
			cl := pre.ClassByID(msg.ClassId)
			if cl != nil {
				// the receipt lands in a batch of the class named by the message
				if ck, ok := classKeyOfBatch(post, r.BatchDenom); ok && ck != cl.Key {
					out = append(out, V{Kind: "C13/receipt-landed-in-another-class",
						Detail: fmt.Sprintf("%s names class %s (key %d) but minted into %s of class key %d", st.Act.Label, msg.ClassId, cl.Key, r.BatchDenom, ck)})
				}
				if bd, bound := g.bound[fmt.Sprintf("%d|%s", cl.Key, msg.OriginTx.Contract)]; bound {
					m.inc("receipts_for_bound_contract")
					if r.BatchDenom != bd {
						out = append(out, V{Kind: "C13/receipt-for-bound-contract-landed-elsewhere",
							Detail: fmt.Sprintf("contract %s is bound to %s but receipt went to %s", msg.OriginTx.Contract, bd, r.BatchDenom)})
					}
					if len(post.Batches) != len(pre.Batches) {
						out = append(out, V{Kind: "C13/receipt-for-bound-contract-created-batch", Detail: st.Act.Label})
					}
					if b := pre.BatchByDenom(bd); b != nil {
						inc := ref.Sub(trc(post, b.Key), trc(pre, b.Key))
						if inc.Cmp(rat(msg.Batch.Amount)) != 0 {
							out = append(out, V{Kind: "C13/receipt-amount-wrong", Detail: fmt.Sprintf("%s grew by %s, receipt %s", bd, inc.FloatString(6), msg.Batch.Amount)})
						}
					}
				} else {
					m.inc("receipts_creating_batch")
				}
			}
		case *basetypes.MsgAddAllowedBridgeChain:
			g.chains[strings.ToLower(msg.ChainName)] = true
		case *basetypes.MsgRemoveAllowedBridgeChain:
			delete(g.chains, strings.ToLower(msg.ChainName))
			m.inc("chain_removals")
		case *basetypes.MsgBridge:
			m.inc("bridge_outs")
			if !chainAllowed(pre, msg.Target) || !g.chains[strings.ToLower(msg.Target)] {
				out = append(out, V{Kind: "C13/bridge-to-disallowed-target", Detail: st.Act.Label + " (allowed per accepted governance messages: " + fmt.Sprint(sortedKeys(g.chains)) + ")"})
			}
			want := map[uint64]*big.Rat{}
			var evs []abci.Event
			for _, e := range st.Res.Events {
				if e.Type == "regen.ecocredit.v1.EventBridge" {
					evs = append(evs, e)
				}
			}
			if len(evs) != len(msg.Credits) {
				out = append(out, V{Kind: "C13/bridge-event-count", Detail: fmt.Sprintf("%d credits, %d EventBridge", len(msg.Credits), len(evs))})
			}
			for i, c := range msg.Credits {
				b := pre.BatchByDenom(c.BatchDenom)
				if b == nil {
					out = append(out, V{Kind: "C13/bridge-of-unknown-batch", Detail: c.BatchDenom})
					continue
				}
				contract := ""
				for _, bc := range pre.Contracts {
					if bc.BatchKey == b.Key {
						contract = bc.Contract
					}
				}
				if contract == "" {
					out = append(out, V{Kind: "C13/bridge-of-batch-without-contract", Detail: c.BatchDenom + " has no bound contract"})
				}
				if want[b.Key] == nil {
					want[b.Key] = ref.Zero()
				}
				want[b.Key] = ref.Add(want[b.Key], rat(c.Amount))
				if i < len(evs) {
					e := evs[i]
					if evAttr(e, "contract") != contract || evAttr(e, "amount") != c.Amount || evAttr(e, "recipient") != msg.Recipient ||
						evAttr(e, "batch_denom") != c.BatchDenom || evAttr(e, "target") != msg.Target || evAttr(e, "owner") != msg.Owner {
						out = append(out, V{Kind: "C13/bridge-event-content", Detail: fmt.Sprintf("credit %d of %s: event %v, expected contract %s amount %s recipient %s", i, st.Act.Label, e.Attributes, contract, c.Amount, msg.Recipient)})
					}
				}
			}
			// "cancelling exactly the bridged amounts": the owner's tradable balance drops by the bridged amounts
			// and nothing else of any balance row moves (retired and escrowed amounts in particular)
			for _, b := range pre.Balances {
				nb := post.Balance(b.Address, b.BatchKey)
				if nb == nil {
					out = append(out, V{Kind: "C13/bridge-deleted-a-balance-row", Detail: st.Act.Label})
					continue
				}
				w := ref.Zero()
				if addrStr(b.Address) == msg.Owner && want[b.BatchKey] != nil {
					w = want[b.BatchKey]
				}
				if ref.Sub(rat(b.TradableAmount), rat(nb.TradableAmount)).Cmp(w) != 0 || rat(b.RetiredAmount).Cmp(rat(nb.RetiredAmount)) != 0 || rat(b.EscrowedAmount).Cmp(rat(nb.EscrowedAmount)) != 0 {
					out = append(out, V{Kind: "C13/bridge-balance-change-is-not-exactly-the-bridged-amount",
						Detail: fmt.Sprintf("%s: %s in %s t/r/e %s/%s/%s -> %s/%s/%s, bridged %s", st.Act.Label, addrStr(b.Address), denomOf(pre, b.BatchKey),
							b.TradableAmount, b.RetiredAmount, b.EscrowedAmount, nb.TradableAmount, nb.RetiredAmount, nb.EscrowedAmount, w.FloatString(6))})
				}
			}
			for _, sp := range pre.Supplies {
				w := want[sp.BatchKey]
				if w == nil {
					w = ref.Zero()
				}
				ns := post.SupplyOf(sp.BatchKey)
				if ns == nil {
					continue
				}
				if ref.Sub(rat(ns.CancelledAmount), rat(sp.CancelledAmount)).Cmp(w) != 0 {
					out = append(out, V{Kind: "C13/bridge-cancelled-amount-wrong",
						Detail: fmt.Sprintf("%s cancelled %s -> %s, bridged %s", denomOf(pre, sp.BatchKey), sp.CancelledAmount, ns.CancelledAmount, w.FloatString(6))})
				}
			}
		}
	}
	// contract binding is a function that never changes or disappears
	seen := map[string]bool{}
	for _, c := range post.Contracts {
		k := fmt.Sprintf("%d|%s", c.ClassKey, c.Contract)
		d := denomOf(post, c.BatchKey)
		if seen[k] {
			out = append(out, V{Kind: "C13/contract-bound-to-two-batches", Detail: k})
		}
		seen[k] = true
		if old, ok := g.bound[k]; ok && old != d {
			out = append(out, V{Kind: "C13/contract-binding-changed", Detail: fmt.Sprintf("%s: %s -> %s", k, old, d)})
		}
		if ck, ok := classKeyOfBatch(post, d); ok && ck != c.ClassKey {
			out = append(out, V{Kind: "C13/contract-class-differs-from-batch-class", Detail: k})
		}
		g.bound[k] = d
	}
	for k := range g.bound {
		if !seen[k] {
			out = append(out, V{Kind: "C13/contract-binding-lost", Detail: k + " by " + st.Act.Label})
		}
	}
	return out
}

func (m *C13) OnState(gh explore.Ghost, _ *chain.Chain, _ sdk.Context, s *chain.Snapshot) []V {
	g := gh.(*bridgeGhost)
	var out []V
	// the stored index agrees with the ghost: nothing consumed is forgotten
	have := map[string]bool{}
	for _, o := range s.OriginTxs {
		have[fmt.Sprintf("%d|%s|%s", o.ClassKey, o.Id, o.Source)] = true
	}
	for k := range g.consumed {
		if !have[k] {
			out = append(out, V{Kind: "C13/consumed-origin-tx-forgotten", Detail: k})
		}
	}
	return out
}
