package mon

import (
	"fmt"
	"math/big"

	markettypes "github.com/regen-network/regen-ledger/x/ecocredit/v3/marketplace/types/v1"

	"verif/harness/chain"
	"verif/harness/explore"
	"verif/harness/ref"
)

// C07 — BuyDirect settles exactly. Checked on every successful BuyDirect from
// the pre-state orders, fee params and the request, in exact rationals.
type C07 struct {
	counters
	noGhost
	noState
	FeePool string
}

func (*C07) Name() string { return "C07" }

func feeRate(s string) *big.Rat {
	if s == "" {
		return ref.Zero()
	}
	return rat(s)
}

func absLT(a *big.Rat, bound int64) bool {
	x := new(big.Rat).Abs(a)
	return x.Cmp(new(big.Rat).SetInt64(bound)) < 0
}

func (m *C07) OnStep(_ explore.Ghost, st *explore.Step) []V {
	if st.Act.Kind != explore.ActMsg {
		return nil
	}
	for _, d := range feeParamsAsSet(st) {
		return []V{{Kind: "C07/fee-rates-differ-from-the-governance-message", Detail: d}}
	}
	// what a buyer settles against is the order as it was offered: Sell / UpdateSellOrders must store
	// the quantity, price, denomination and auto-retire flag of the seller's message
	if st.Res.OK {
		var ids []uint64
		switch msg := st.Res.Msg.(type) {
		case *markettypes.MsgSell:
			if r, ok := st.Res.Resp.(*markettypes.MsgSellResponse); ok {
				ids = r.SellOrderIds
			}
		case *markettypes.MsgUpdateSellOrders:
			for _, u := range msg.Updates {
				ids = append(ids, u.SellOrderId)
			}
		}
		if ids != nil {
			var out []V
			for _, d := range ordersAsRequested(st, ids) {
				out = append(out, V{Kind: "C07/order-differs-from-what-was-offered", Detail: d})
			}
			m.inc("offers_compared_with_request")
			return out
		}
	}
	bd, ok := st.Res.Msg.(*markettypes.MsgBuyDirect)
	if !ok {
		return nil
	}
	if !st.Res.OK {
		m.inc("failed_buys")
		if st.Res.Panic {
			m.inc("panicking_buys")
		}
		return nil
	}
	m.inc("successful_buys")
	var out []V
	bad := func(kind, detail string) {
		out = append(out, V{Kind: "C07/" + kind, Detail: detail + " [" + st.Act.Label + "]"})
	}
	pre, post := st.Pre, st.Post
	buyer := bd.Buyer
	rb, rs := ref.Zero(), ref.Zero()
	if pre.FeeParams != nil {
		rb, rs = feeRate(pre.FeeParams.BuyerPercentageFee), feeRate(pre.FeeParams.SellerPercentageFee)
	}
	if rb.Sign() > 0 || rs.Sign() > 0 {
		m.inc("buys_with_fees")
	}

	remaining := map[uint64]*big.Rat{}
	type cr struct{ t, r *big.Rat }
	buyerCredits := map[uint64]*cr{}              // batch key -> credits the buyer must receive
	sellerEscrow := map[abKey]*big.Rat{}          // (seller,batch) -> escrow decrease
	sellerPay := map[string]map[string]*big.Rat{} // seller -> denom -> exact payment
	sellerN := map[string]map[string]int64{}
	feeExact := map[string]*big.Rat{} // denom -> exact total fee
	feeN := map[string]int64{}
	capTotal := map[string]*big.Rat{} // denom -> Σ sub × (1+rb)
	retiredAdd := map[uint64]*big.Rat{}

	for i, o := range bd.Orders {
		so := pre.Order(o.SellOrderId)
		if so == nil {
			bad("bought-nonexistent-order", fmt.Sprintf("orders[%d] id %d", i, o.SellOrderId))
			continue
		}
		if remaining[so.Id] == nil {
			remaining[so.Id] = rat(so.Quantity)
		}
		qty := rat(o.Quantity)
		if qty.Sign() <= 0 {
			bad("non-positive-quantity-accepted", o.Quantity)
		}
		if p := precision(pre, so.BatchKey); p >= 0 {
			if d, err := ref.Parse(o.Quantity); err == nil && d.Places > p {
				bad("quantity-beyond-precision-accepted", o.Quantity)
			}
		}
		if qty.Cmp(remaining[so.Id]) > 0 {
			bad("bought-more-than-offered", fmt.Sprintf("order %d has %s, bought %s", so.Id, remaining[so.Id].FloatString(6), o.Quantity))
		}
		remaining[so.Id] = ref.Sub(remaining[so.Id], qty)
		mk := pre.Market(so.MarketId)
		if mk == nil {
			bad("order-without-market", fmt.Sprintf("order %d", so.Id))
			continue
		}
		den := mk.BankDenom
		ask, _ := new(big.Int).SetString(so.AskAmount, 10)
		if ask == nil {
			bad("unparseable-ask", so.AskAmount)
			continue
		}
		if o.BidPrice.Denom != den {
			bad("bid-denom-differs-from-ask-denom", fmt.Sprintf("bid %s ask denom %s", o.BidPrice, den))
		}
		if o.BidPrice.Amount.BigInt().Cmp(ask) < 0 {
			bad("bid-below-ask", fmt.Sprintf("bid %s ask %s", o.BidPrice.Amount, ask))
		}
		if o.DisableAutoRetire && !so.DisableAutoRetire {
			bad("auto-retire-disabled-against-order", fmt.Sprintf("order %d requires auto-retire", so.Id))
		}
		sub := ref.Mul(qty, ref.RatOfInt(ask))
		bf, sf := ref.Mul(sub, rb), ref.Mul(sub, rs)
		// max fee covers the buyer fee rounded down
		maxFee := new(big.Int)
		if o.MaxFeeAmount != nil {
			maxFee = o.MaxFeeAmount.Amount.BigInt()
			if o.MaxFeeAmount.Denom != den {
				bad("max-fee-in-other-denom-accepted", o.MaxFeeAmount.String())
			}
		}
		if maxFee.Cmp(ref.TruncInt(bf)) < 0 {
			bad("max-fee-below-buyer-fee", fmt.Sprintf("max fee %s, buyer fee %s", maxFee, bf.FloatString(6)))
		}
		if maxFee.Cmp(ref.TruncInt(bf)) == 0 && bf.Sign() > 0 {
			m.inc("buys_at_exact_max_fee")
		}
		c := buyerCredits[so.BatchKey]
		if c == nil {
			c = &cr{ref.Zero(), ref.Zero()}
			buyerCredits[so.BatchKey] = c
		}
		if o.DisableAutoRetire {
			c.t = ref.Add(c.t, qty)
		} else {
			c.r = ref.Add(c.r, qty)
			if retiredAdd[so.BatchKey] == nil {
				retiredAdd[so.BatchKey] = ref.Zero()
			}
			retiredAdd[so.BatchKey] = ref.Add(retiredAdd[so.BatchKey], qty)
			m.inc("auto_retired_fills")
		}
		k := abKey{addrStr(so.Seller), so.BatchKey}
		if sellerEscrow[k] == nil {
			sellerEscrow[k] = ref.Zero()
		}
		sellerEscrow[k] = ref.Add(sellerEscrow[k], qty)
		if sellerPay[k.addr] == nil {
			sellerPay[k.addr] = map[string]*big.Rat{}
			sellerN[k.addr] = map[string]int64{}
		}
		if sellerPay[k.addr][den] == nil {
			sellerPay[k.addr][den] = ref.Zero()
		}
		sellerPay[k.addr][den] = ref.Add(sellerPay[k.addr][den], ref.Sub(sub, sf))
		sellerN[k.addr][den]++
		if feeExact[den] == nil {
			feeExact[den], capTotal[den] = ref.Zero(), ref.Zero()
		}
		feeExact[den] = ref.Add(feeExact[den], ref.Add(bf, sf))
		feeN[den]++
		capTotal[den] = ref.Add(capTotal[den], ref.Add(sub, bf))
		if ref.MinPlaces(sub) != 0 {
			m.inc("fractional_subtotals")
		}
	}
	if len(bd.Orders) > 1 {
		m.inc("multi_order_buys")
	}

	// orders: shrink by exactly the purchased quantity, deleted at zero, nothing else changes
	for _, so := range pre.SellOrders {
		po := post.Order(so.Id)
		rem, touched := remaining[so.Id]
		if !touched {
			if po == nil || po.Quantity != so.Quantity {
				bad("unrelated-order-changed", fmt.Sprintf("order %d", so.Id))
			}
			continue
		}
		if rem.Sign() == 0 {
			if po != nil {
				bad("fully-filled-order-survives", fmt.Sprintf("order %d quantity %s", so.Id, po.Quantity))
			}
			m.inc("orders_fully_filled")
		} else {
			if po == nil {
				bad("partially-filled-order-deleted", fmt.Sprintf("order %d should keep %s", so.Id, rem.FloatString(6)))
			} else if rat(po.Quantity).Cmp(rem) != 0 {
				bad("order-quantity-wrong-after-fill", fmt.Sprintf("order %d has %s, expected %s", so.Id, po.Quantity, rem.FloatString(6)))
			}
			m.inc("orders_partially_filled")
		}
	}
	if len(post.SellOrders) > len(pre.SellOrders) {
		bad("order-created-by-buy", "")
	}

	// credits: every balance row
	buyerAddr := buyer
	checkRow := func(addr string, batch uint64, t0, r0, e0, t1, r1, e1 *big.Rat) {
		wantT, wantR, wantE := t0, r0, e0
		if addr == buyerAddr {
			if c := buyerCredits[batch]; c != nil {
				wantT, wantR = ref.Add(t0, c.t), ref.Add(r0, c.r)
			}
		}
		if d := sellerEscrow[abKey{addr, batch}]; d != nil {
			wantE = ref.Sub(e0, d)
		}
		if t1.Cmp(wantT) != 0 || r1.Cmp(wantR) != 0 || e1.Cmp(wantE) != 0 {
			who := "third-party"
			if addr == buyerAddr {
				who = "buyer"
			} else if sellerEscrow[abKey{addr, batch}] != nil {
				who = "seller"
			}
			bad("credit-balance-wrong/"+who, fmt.Sprintf("%s in %s: got t=%s r=%s e=%s, expected t=%s r=%s e=%s", addr, denomOf(pre, batch),
				t1.FloatString(6), r1.FloatString(6), e1.FloatString(6), wantT.FloatString(6), wantR.FloatString(6), wantE.FloatString(6)))
		}
	}
	seenRow := map[abKey]bool{}
	for _, b := range pre.Balances {
		k := abKey{addrStr(b.Address), b.BatchKey}
		seenRow[k] = true
		t1, r1, e1 := ref.Zero(), ref.Zero(), ref.Zero()
		if nb := post.Balance(b.Address, b.BatchKey); nb != nil {
			t1, r1, e1 = rat(nb.TradableAmount), rat(nb.RetiredAmount), rat(nb.EscrowedAmount)
		}
		checkRow(k.addr, k.batch, rat(b.TradableAmount), rat(b.RetiredAmount), rat(b.EscrowedAmount), t1, r1, e1)
	}
	for _, nb := range post.Balances {
		k := abKey{addrStr(nb.Address), nb.BatchKey}
		if !seenRow[k] {
			checkRow(k.addr, k.batch, ref.Zero(), ref.Zero(), ref.Zero(), rat(nb.TradableAmount), rat(nb.RetiredAmount), rat(nb.EscrowedAmount))
		}
	}
	// supply: auto-retired quantity moves tradable -> retired
	for _, sp := range pre.Supplies {
		ns := post.SupplyOf(sp.BatchKey)
		if ns == nil {
			bad("supply-row-deleted", denomOf(pre, sp.BatchKey))
			continue
		}
		add := retiredAdd[sp.BatchKey]
		if add == nil {
			add = ref.Zero()
		}
		if rat(ns.RetiredAmount).Cmp(ref.Add(rat(sp.RetiredAmount), add)) != 0 || rat(ns.TradableAmount).Cmp(ref.Sub(rat(sp.TradableAmount), add)) != 0 ||
			rat(ns.CancelledAmount).Cmp(rat(sp.CancelledAmount)) != 0 {
			bad("supply-wrong-after-buy", fmt.Sprintf("%s: %s/%s/%s -> %s/%s/%s with %s auto-retired", denomOf(pre, sp.BatchKey),
				sp.TradableAmount, sp.RetiredAmount, sp.CancelledAmount, ns.TradableAmount, ns.RetiredAmount, ns.CancelledAmount, add.FloatString(6)))
		}
	}

	// coins
	delta := func(addr, den string) *big.Int { return new(big.Int).Sub(post.Coin(addr, den), pre.Coin(addr, den)) }
	denoms := map[string]bool{}
	for _, s := range []*chain.Snapshot{pre, post} {
		for _, cs := range s.Coins {
			for d := range cs {
				denoms[d] = true
			}
		}
		for d := range s.Supply {
			denoms[d] = true
		}
	}
	addrs := map[string]bool{}
	for a := range pre.Coins {
		addrs[a] = true
	}
	for a := range post.Coins {
		addrs[a] = true
	}
	for den := range denoms {
		paidOut := new(big.Int) // Σ seller credits + pool credit / burn
		for a := range addrs {
			d := delta(a, den)
			switch {
			case a == buyerAddr:
			case sellerPay[a] != nil && sellerPay[a][den] != nil:
				exact := sellerPay[a][den]
				if !absLT(ref.Sub(ref.RatOfInt(d), exact), sellerN[a][den]) {
					bad("seller-payment-off", fmt.Sprintf("seller %s got %s %s, exact %s (%d fills)", a, d, den, exact.FloatString(6), sellerN[a][den]))
				}
				if d.Sign() < 0 {
					bad("seller-debited", fmt.Sprintf("seller %s %s %s", a, d, den))
				}
				paidOut.Add(paidOut, d)
			case a == m.FeePool:
				want := ref.Zero()
				if den != "uregen" && feeExact[den] != nil {
					want = feeExact[den]
				}
				if !absLT(ref.Sub(ref.RatOfInt(d), want), max64(feeN[den], 1)) {
					bad("fee-pool-credit-off", fmt.Sprintf("pool %s %s, exact %s", d, den, want.FloatString(6)))
				}
				paidOut.Add(paidOut, d)
				if d.Sign() > 0 {
					m.inc("pool_credits")
				}
			default:
				if d.Sign() != 0 {
					bad("third-party-coins-changed", fmt.Sprintf("%s %s %s", a, d, den))
				}
			}
		}
		ds := new(big.Int).Sub(post.TotalSupply(den), pre.TotalSupply(den))
		if den == "uregen" {
			want := ref.Zero()
			if feeExact[den] != nil {
				want = feeExact[den]
			}
			burnt := new(big.Int).Neg(ds)
			if !absLT(ref.Sub(ref.RatOfInt(burnt), want), max64(feeN[den], 1)) {
				bad("uregen-burn-off", fmt.Sprintf("supply changed by %s, exact fee %s", ds, want.FloatString(6)))
			}
			paidOut.Add(paidOut, burnt)
			if burnt.Sign() > 0 {
				m.inc("uregen_burns")
			}
		} else if ds.Sign() != 0 {
			bad("supply-changed", fmt.Sprintf("%s supply %s", den, ds))
		}
		debit := new(big.Int).Neg(delta(buyerAddr, den))
		if debit.Cmp(paidOut) != 0 {
			bad("buyer-debit-differs-from-payouts", fmt.Sprintf("buyer debited %s %s, sellers+fees received %s", debit, den, paidOut))
		}
		if cap := capTotal[den]; cap != nil {
			if ref.RatOfInt(debit).Cmp(cap) > 0 {
				bad("buyer-overcharged", fmt.Sprintf("buyer debited %s %s, exact total %s", debit, den, cap.FloatString(6)))
			}
		} else if debit.Sign() != 0 {
			bad("buyer-debited-in-unrelated-denom", fmt.Sprintf("%s %s", debit, den))
		}
	}
	return out
}

func max64(a, b int64) int64 {
	if a > b {
		return a
	}
	return b
}
