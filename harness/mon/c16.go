package mon

import (
	"bytes"
	"encoding/hex"
	"fmt"
	"golang.org/x/crypto/blake2b"
	"sort"
	"strings"
	"time"

	sdk "github.com/cosmos/cosmos-sdk/types"
	gogotypes "github.com/cosmos/gogoproto/types"

	"github.com/regen-network/regen-ledger/x/data/v3"

	"verif/harness/chain"
	"verif/harness/explore"
)

// C16 — anchors, attestations and registrations are permanent; ids are
// collision-proof; only the manager registers to a private resolver.
type C16 struct{ counters }

func (*C16) Name() string { return "C16" }

type dataGhost struct {
	production bool              // the module's own (production) ID hasher is in use
	id         map[string]string // iri -> id (hex) as first observed in state
	anchor     map[string]string // iri -> first anchor time (unix nanos)
	attest     map[string]string // iri|attestor -> first attestation time
	reg        map[string]bool   // resolver id|iri
	// byHash: canonical bytes of the content hash (not its IRI) -> first anchor time. "A piece of data" is its content
	// hash; if two content hashes are given one IRI, the second one's first anchoring is reported with the first one's
	// time, which this map exposes without relying on the implementation's naming function.
	byHash      map[string]string
	noHashGhost bool
}

func (g *dataGhost) Clone() explore.Ghost {
	n := &dataGhost{production: g.production, noHashGhost: g.noHashGhost, id: map[string]string{}, anchor: map[string]string{}, attest: map[string]string{}, reg: map[string]bool{}, byHash: map[string]string{}}
	for k, v := range g.byHash {
		n.byHash[k] = v
	}
	for k, v := range g.id {
		n.id[k] = v
	}
	for k, v := range g.anchor {
		n.anchor[k] = v
	}
	for k, v := range g.attest {
		n.attest[k] = v
	}
	for k := range g.reg {
		n.reg[k] = true
	}
	return n
}

func (g *dataGhost) Digest() []byte {
	var ks []string
	for k, v := range g.id {
		ks = append(ks, "i:"+k+"="+v)
	}
	for k, v := range g.anchor {
		ks = append(ks, fmt.Sprintf("a:%s=%s", k, v))
	}
	for k, v := range g.attest {
		ks = append(ks, fmt.Sprintf("t:%s=%s", k, v))
	}
	for k := range g.reg {
		ks = append(ks, "r:"+k)
	}
	for k, v := range g.byHash {
		ks = append(ks, fmt.Sprintf("h:%x=%s", k, v))
	}
	sort.Strings(ks)
	return []byte(strings.Join(ks, ";"))
}

func (m *C16) NewGhost(c *chain.Chain, _ sdk.Context, s *chain.Snapshot) explore.Ghost {
	g := &dataGhost{production: c != nil && c.Opts.Hasher == nil, id: map[string]string{}, anchor: map[string]string{}, attest: map[string]string{}, reg: map[string]bool{}, byHash: map[string]string{}}
	// a seed that already holds anchored data gives no content hashes for them: the content-hash ghost is then off
	g.noHashGhost = len(s.DataAnchors) > 0
	iriOf := map[string]string{}
	for _, d := range s.DataIDs {
		g.id[d.Iri] = hex.EncodeToString(d.Id)
		iriOf[string(d.Id)] = d.Iri
	}
	for _, a := range s.DataAnchors {
		g.anchor[iriOf[string(a.Id)]] = pbInstant(a.Timestamp)
	}
	for _, a := range s.DataAttestors {
		g.attest[iriOf[string(a.Id)]+"|"+addrStr(a.Attestor)] = pbInstant(a.Timestamp)
	}
	for _, r := range s.DataResolvers {
		g.reg[fmt.Sprintf("%d|%s", r.ResolverId, iriOf[string(r.Id)])] = true
	}
	return g
}

type irier interface{ ToIRI() (string, error) }

// Instants are kept as "seconds.nanoseconds" strings: int64 nanoseconds (time.UnixNano) wrap outside
// 1677..2262, which would make a wrapped stored timestamp look equal to the wrapped expectation.
// hashKey is the canonical identity of a content hash: its deterministic protobuf bytes (a graph hash handed over
// alone, as in MsgAttest, is wrapped so that it equals the same hash inside a ContentHash).
func hashKey(h irier) string {
	var ch *data.ContentHash
	switch x := h.(type) {
	case *data.ContentHash:
		ch = x
	case *data.ContentHash_Graph:
		ch = &data.ContentHash{Graph: x}
	case *data.ContentHash_Raw:
		ch = &data.ContentHash{Raw: x}
	}
	if ch == nil {
		return ""
	}
	bz, err := ch.Marshal()
	if err != nil {
		return ""
	}
	return string(bz)
}

func instant(t time.Time) string { return fmt.Sprintf("%d.%09d", t.Unix(), t.Nanosecond()) }

func pbInstant(t interface {
	GetSeconds() int64
	GetNanos() int32
}) string {
	return fmt.Sprintf("%d.%09d", t.GetSeconds(), t.GetNanos())
}

func gogoNanos(t *gogotypes.Timestamp) string {
	if t == nil {
		return "nil"
	}
	return fmt.Sprintf("%d.%09d", t.Seconds, t.Nanos)
}

func (m *C16) OnStep(gh explore.Ghost, st *explore.Step) []V {
	g := gh.(*dataGhost)
	if !st.Res.OK || st.Act.Kind != explore.ActMsg {
		return nil
	}
	var out []V
	now := instant(st.Pre.Time)
	bad := func(kind, detail string) {
		out = append(out, V{Kind: "C16/" + kind, Detail: detail + " [" + st.Act.Label + "]"})
	}
	// anchoring side effect shared by all three messages: first anchoring sets the time
	anchor := func(h irier) string {
		iri, err := h.ToIRI() // naming function only (C15 checks it); permanence is what is checked here
		if err != nil {
			return ""
		}
		if _, ok := g.anchor[iri]; !ok {
			g.anchor[iri] = now
			m.inc("first_anchors")
		} else {
			m.inc("repeated_anchors")
		}
		if k := hashKey(h); k != "" && !g.noHashGhost {
			if _, ok := g.byHash[k]; !ok {
				g.byHash[k] = now
			}
		}
		return iri
	}
	switch msg := st.Res.Msg.(type) {
	case *data.MsgAnchor:
		iri := anchor(msg.ContentHash)
		r, ok := st.Res.Resp.(*data.MsgAnchorResponse)
		if !ok {
			bad("anchor-no-response", "")
			break
		}
		if r.Iri != iri {
			bad("anchor-response-iri", fmt.Sprintf("response %q, content hash maps to %q", r.Iri, iri))
		}
		if gogoNanos(r.Timestamp) != g.anchor[iri] {
			bad("anchor-response-timestamp-not-first-anchor-time", fmt.Sprintf("response %s, first anchored %s", gogoNanos(r.Timestamp), g.anchor[iri]))
		}
		if k := hashKey(msg.ContentHash); k != "" && g.byHash[k] != "" && gogoNanos(r.Timestamp) != g.byHash[k] {
			bad("anchor-response-timestamp-is-another-content-hash's", fmt.Sprintf("response %s for IRI %q, but THIS content hash was first anchored %s (another content hash shares the IRI)", gogoNanos(r.Timestamp), r.Iri, g.byHash[k]))
		}
	case *data.MsgAttest:
		var newIRIs []string
		for _, ch := range msg.ContentHashes {
			iri := anchor(ch)
			k := iri + "|" + msg.Attestor
			if _, ok := g.attest[k]; !ok {
				g.attest[k] = now
				newIRIs = append(newIRIs, iri)
				m.inc("first_attestations")
			} else {
				m.inc("repeated_attestations")
			}
		}
		if r, ok := st.Res.Resp.(*data.MsgAttestResponse); ok {
			if strings.Join(r.Iris, ",") != strings.Join(newIRIs, ",") {
				bad("attest-response-iris", fmt.Sprintf("response %v, new attestations %v", r.Iris, newIRIs))
			}
			if gogoNanos(r.Timestamp) != now {
				bad("attest-response-timestamp", "")
			}
		}
	case *data.MsgRegisterResolver:
		signer, _ := sdk.AccAddressFromBech32(msg.Signer)
		authorised := false
		for _, r := range st.Pre.Resolvers {
			if r.Id == msg.ResolverId {
				authorised = len(r.Manager) == 0 || bytes.Equal(r.Manager, signer)
				if len(r.Manager) == 0 {
					m.inc("registrations_to_public_resolver")
				}
			}
		}
		if !authorised {
			bad("register-to-private-resolver-by-non-manager", msg.Signer)
		}
		for _, ch := range msg.ContentHashes {
			iri := anchor(ch)
			g.reg[fmt.Sprintf("%d|%s", msg.ResolverId, iri)] = true
		}
		m.inc("registrations")
	}
	return out
}

func (m *C16) OnState(gh explore.Ghost, _ *chain.Chain, _ sdk.Context, s *chain.Snapshot) []V {
	g := gh.(*dataGhost)
	var out []V
	bad := func(kind, detail string) { out = append(out, V{Kind: "C16/" + kind, Detail: detail}) }
	for _, d := range s.DataIDs {
		// the IRI under which data was anchored stays an IRI the chain accepts (every by-IRI query and the
		// genesis validation of the exported state parse it first)
		if _, err := data.ParseIRI(d.Iri); err != nil {
			bad("anchored-iri-rejected-by-the-chains-parser", fmt.Sprintf("%s: %v", d.Iri, err))
		}
		// under the production hasher (no collision among the handful of IRIs here) the compact ID is the
		// documented derivation that existing chains have in state: the first 4 bytes of the 64-bit
		// BLAKE2b of the IRI followed by the collision byte for 0 collisions (the hash's first byte)
		if g.production {
			h, _ := blake2b.New(8, nil)
			h.Write([]byte(d.Iri))
			sum := h.Sum(nil)
			want := append(append([]byte{}, sum[:4]...), sum[0])
			if !bytes.Equal(d.Id, want) {
				bad("id-differs-from-the-documented-derivation", fmt.Sprintf("%s has id %x, chains in production derive %x", d.Iri, d.Id, want))
			}
			m.inc("ids_compared_with_the_documented_derivation")
		}
	}
	iriOf := map[string]string{}
	idOf := map[string]string{}
	for _, d := range s.DataIDs {
		h := hex.EncodeToString(d.Id)
		if _, dup := idOf[d.Iri]; dup {
			bad("iri-has-two-ids", d.Iri)
		}
		if _, dup := iriOf[string(d.Id)]; dup {
			bad("id-shared-by-two-iris", h)
		}
		idOf[d.Iri] = h
		iriOf[string(d.Id)] = d.Iri
		if old, ok := g.id[d.Iri]; ok && old != h {
			bad("id-of-iri-changed", fmt.Sprintf("%s: %s -> %s", d.Iri, old, h))
		}
		g.id[d.Iri] = h     // ghost is cloned per transition; recording here keeps the first observed id
		if len(d.Id) >= 9 { // hash length of every injected digest is <= 8: longer ids carry the varint suffix
			m.inc("ids_in_varint_fallback")
		}
	}
	for iri := range g.anchor {
		if _, ok := idOf[iri]; !ok {
			bad("anchored-iri-has-no-id", iri)
		}
	}
	if len(idOf) != len(g.anchor) {
		bad("data-id-table-differs-from-anchored-set", fmt.Sprintf("%d ids, %d anchored iris", len(idOf), len(g.anchor)))
	}
	anchored := map[string]bool{}
	for _, a := range s.DataAnchors {
		iri := iriOf[string(a.Id)]
		anchored[iri] = true
		if want, ok := g.anchor[iri]; !ok {
			bad("anchor-without-anchoring-message", iri)
		} else if pbInstant(a.Timestamp) != want {
			bad("anchor-timestamp-changed", fmt.Sprintf("%s: stored %s, first anchored %s", iri, pbInstant(a.Timestamp), want))
		}
	}
	for iri := range g.anchor {
		if !anchored[iri] {
			bad("anchor-lost", iri)
		}
	}
	att := map[string]bool{}
	for _, a := range s.DataAttestors {
		k := iriOf[string(a.Id)] + "|" + addrStr(a.Attestor)
		att[k] = true
		if want, ok := g.attest[k]; !ok {
			bad("attestation-without-message", k)
		} else if pbInstant(a.Timestamp) != want {
			bad("attestation-timestamp-changed", k)
		}
	}
	for k := range g.attest {
		if !att[k] {
			bad("attestation-lost", k)
		}
	}
	reg := map[string]bool{}
	for _, r := range s.DataResolvers {
		reg[fmt.Sprintf("%d|%s", r.ResolverId, iriOf[string(r.Id)])] = true
	}
	for k := range g.reg {
		if !reg[k] {
			bad("registration-lost", k)
		}
	}
	for k := range reg {
		if !g.reg[k] {
			bad("registration-without-message", k)
		}
	}
	m.inc("states_checked")
	return out
}
