//go:build shim

package detc

import (
	"time"

	"github.com/regen-network/regen-ledger/types/v2/verifshim"
)

// ShimAvailable reports whether this binary was built with the map-order /
// clock overlay produced by /verif/tools/rewriter.
const ShimAvailable = true

func setShim(order func(site string, n int) []int, clock func() time.Time) {
	verifshim.Order = order
	verifshim.Clock = clock
}
