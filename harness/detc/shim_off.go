//go:build !shim

package detc

import "time"

// ShimAvailable reports whether this binary was built with the map-order /
// clock overlay produced by /verif/tools/rewriter.
const ShimAvailable = false

func setShim(func(site string, n int) []int, func() time.Time) {}
