// Package detc is Engine C: determinism, restart and map-order exploration of
// the composed application through its real ABCI entry points (InitChain,
// BeginBlock, DeliverTx, EndBlock, Commit).
package detc

import (
	"bytes"
	"crypto/sha256"
	"encoding/hex"
	"encoding/json"
	"fmt"
	"os"
	"time"

	dbm "github.com/cometbft/cometbft-db"
	abci "github.com/cometbft/cometbft/abci/types"
	tmproto "github.com/cometbft/cometbft/proto/tendermint/types"
	sdk "github.com/cosmos/cosmos-sdk/types"

	markettypes "github.com/regen-network/regen-ledger/x/ecocredit/v3/marketplace/types/v1"

	"verif/harness/chain"
	"verif/harness/explore"
	"verif/harness/scen"
)

// Block of a trace.
type Block struct {
	Dt   time.Duration
	Msgs []*explore.Action // ActMsg only
}

// Trace is a list of blocks.
type Trace []Block

func (t Trace) String() string {
	s := ""
	for i, b := range t {
		s += fmt.Sprintf("[block %d +%s:", i+1, b.Dt)
		for _, m := range b.Msgs {
			s += " " + m.Label + ";"
		}
		s += "] "
	}
	return s
}

// Env holds the committed seed database (prepared state imported through
// InitChain, then one empty block) that every run copies.
type Env struct {
	seed    *dbm.MemDB
	genesis []byte
	// SeedFailures are the seed messages that failed (none on a correct tree); Digest identifies the
	// genesis the seed construction produced.
	SeedFailures []string
	Digest       string
}

// NewEnv builds the seed: the prepared state is produced by real messages on
// a scratch chain, exported, and imported through the real InitChain.
func NewEnv() *Env { return NewEnvClock(0) }

// NewEnvClock builds the seed with the wall clock showing the given instant (shim builds only; a plain
// build sees the real clock). A seed message that fails is recorded, not fatal: whether the seed can be
// built must not depend on the environment either, and C10Shim compares the two constructions.
func NewEnvClock(clock int) *Env {
	if ShimAvailable {
		setShim(nil, func() time.Time { return clocks[clock%len(clocks)] })
		defer setShim(nil, nil)
	}
	scen.TolerateSeedFailures, scen.SeedFailures = true, nil
	defer func() { scen.TolerateSeedFailures = false }()
	sc := chain.New(chain.Options{})
	// two baskets and two batches in a basket, so that the map-range sites of
	// both registered invariants see more than one key
	sctx := scen.PreparedSeed("prepared",
		scen.Put(scen.B, scen.NCT, scen.BC(scen.B2, "1")),
		scen.Put(scen.C, scen.RCT, scen.BC(scen.B1, "1")),
		// a basket whose years-in-the-past boundary (1 January 2019 at the seed's block year 2024)
		// is exactly the start date of batch b2: admission depends on how that calendar date is built
		scen.YearsBasket("KYR", 5),
		// a buyer fee is in force, so that a purchase without a sufficient max fee is a message that FAILS in
		// the handler (not in stateless validation), as often as the traces repeat it
		scen.GovFeeParams(scen.G, "1", "0"), // 100%: a purchase of 0.5 x 3 owes a fee of 1
		// a second allowed denom without a market (stake is the first): one MsgSell can then open two markets
		scen.Msg("gov:allow-uusd", &markettypes.MsgAddAllowedDenom{Authority: scen.G.String(), BankDenom: "uusd", DisplayDenom: "usd", Exponent: 6}),
	).Build(sc)
	eco := sc.Eco.ExportGenesis(sctx, sc.Cdc)
	dat, err := sc.DataSrv.ExportGenesis(sctx, sc.Cdc)
	if err != nil {
		panic(err)
	}
	bal := map[string]sdk.Coins{}
	for a, cs := range sc.Snap(sctx).Coins {
		var coins sdk.Coins
		for d, v := range cs {
			if v.Sign() > 0 {
				coins = coins.Add(sdk.NewCoin(d, sdk.NewIntFromBigInt(v)))
			}
		}
		bal[a] = coins
	}
	g, err := json.Marshal(chain.Genesis{Ecocredit: eco, Data: dat, Balances: bal})
	if err != nil {
		panic(err)
	}
	db := dbm.NewMemDB()
	c := chain.New(chain.Options{DB: db})
	c.App.InitChain(abci.RequestInitChain{ChainId: "verif", Time: chain.T0, InitialHeight: 1, AppStateBytes: g})
	hdr := tmproto.Header{ChainID: "verif", Height: 1, Time: chain.T0}
	c.App.BeginBlock(abci.RequestBeginBlock{Header: hdr})
	c.App.EndBlock(abci.RequestEndBlock{Height: 1})
	c.App.Commit()
	return &Env{seed: db, genesis: g, SeedFailures: append([]string{}, scen.SeedFailures...), Digest: h(g)}
}

func copyDB(src *dbm.MemDB) *dbm.MemDB {
	dst := dbm.NewMemDB()
	it, err := src.Iterator(nil, nil)
	if err != nil {
		panic(err)
	}
	defer it.Close()
	for ; it.Valid(); it.Next() {
		if err := dst.Set(append([]byte{}, it.Key()...), append([]byte{}, it.Value()...)); err != nil {
			panic(err)
		}
	}
	return dst
}

// BlockObs is what validators compare and clients see of one block.
type BlockObs struct {
	AppHash    string   `json:"app_hash"`
	Begin      string   `json:"begin_block"` // hash of the marshalled ResponseBeginBlock
	Txs        []string `json:"txs"`         // per tx: code/codespace/gas/hash(full response)
	TxOK       []bool   `json:"tx_ok"`
	Invariants []string `json:"invariants"`
	Panic      string   `json:"panic,omitempty"`
}

func h(bz []byte) string {
	s := sha256.Sum256(bz)
	return hex.EncodeToString(s[:8])
}

// Variant of a run.
type Variant struct {
	Restarts uint32 // bit i: tear down and rebuild all application objects after trace block i
	// Order returns the permutation for the i-th dynamic map-range instance of
	// the run (nil => ascending). Only effective in a shim build.
	Order map[int][]int
	Clock int // which of the two fixed instants the wall clock shows
}

// RunInfo describes the dynamic map-range instances of a run.
type RunInfo struct {
	Instances []int // key count of each dynamic instance, in order
	Sites     []string
}

var clocks = []time.Time{time.Date(2030, 1, 1, 0, 0, 0, 0, time.UTC), time.Date(1999, 12, 31, 23, 59, 59, 999, time.UTC)}

// Run executes a trace under a variant and returns the observation.
// NOT safe for concurrent use in a shim build (the shim hooks are global).
func (e *Env) Run(tr Trace, v Variant) ([]BlockObs, RunInfo) {
	info := RunInfo{}
	if ShimAvailable {
		setShim(func(site string, n int) []int {
			i := len(info.Instances)
			info.Instances = append(info.Instances, n)
			info.Sites = append(info.Sites, site)
			return v.Order[i]
		}, func() time.Time { return clocks[v.Clock%len(clocks)] })
		defer setShim(nil, nil)
	}
	db := copyDB(e.seed)
	c := chain.New(chain.Options{DB: db})
	return runBlocks(c, db, tr, 1, chain.T0, v.Restarts), info
}

// runBlocks executes the blocks of a trace through ABCI starting after the
// committed block (height, now).
func runBlocks(c *chain.Chain, db dbm.DB, tr Trace, height int64, now time.Time, restarts uint32) []BlockObs {
	var out []BlockObs
	for i, b := range tr {
		height++
		now = now.Add(b.Dt)
		hdr := tmproto.Header{ChainID: "verif", Height: height, Time: now}
		ob := BlockObs{}
		func() {
			defer func() {
				if r := recover(); r != nil {
					ob.Panic = fmt.Sprint(r)
				}
			}()
			rb := c.App.BeginBlock(abci.RequestBeginBlock{Header: hdr})
			bz, _ := rb.Marshal()
			ob.Begin = h(bz)
			for _, m := range b.Msgs {
				txb, err := c.EncodeTx(m.Msg)
				if err != nil {
					ob.Txs = append(ob.Txs, "encode-error: "+err.Error())
					ob.TxOK = append(ob.TxOK, false)
					continue
				}
				r := c.App.DeliverTx(abci.RequestDeliverTx{Tx: txb})
				rbz, _ := r.Marshal()
				ob.Txs = append(ob.Txs, fmt.Sprintf("code=%d/%s gas=%d resp=%s", r.Code, r.Codespace, r.GasUsed, h(rbz)))
				ob.TxOK = append(ob.TxOK, r.Code == 0)
			}
			c.App.EndBlock(abci.RequestEndBlock{Height: height})
			cr := c.App.Commit()
			ob.AppHash = hex.EncodeToString(cr.Data)
		}()
		if ob.Panic != "" {
			out = append(out, ob)
			return out // the chain has halted
		}
		if restarts&(1<<uint(i)) != 0 {
			// drop the whole object graph and rebuild it over the same database
			c = chain.New(chain.Options{DB: db})
		}
		ictx := c.App.NewUncachedContext(false, hdr)
		msgs, broken := c.RunInvariants(ictx)
		for j := range msgs {
			ob.Invariants = append(ob.Invariants, fmt.Sprintf("%v:%s", broken[j], h([]byte(msgs[j]))))
		}
		out = append(out, ob)
	}
	return out
}

// Equal compares observations byte for byte.
func Equal(a, b []BlockObs) (bool, string) {
	if len(a) != len(b) {
		return false, fmt.Sprintf("%d blocks vs %d", len(a), len(b))
	}
	for i := range a {
		x, _ := json.Marshal(a[i])
		y, _ := json.Marshal(b[i])
		if !bytes.Equal(x, y) {
			what := "?"
			switch {
			case a[i].AppHash != b[i].AppHash:
				what = "app-hash"
			case a[i].Begin != b[i].Begin:
				what = "begin-block-events"
			case fmt.Sprint(a[i].Txs) != fmt.Sprint(b[i].Txs):
				what = "tx-result"
			case fmt.Sprint(a[i].Invariants) != fmt.Sprint(b[i].Invariants):
				what = "invariant-output"
			case a[i].Panic != b[i].Panic:
				what = "panic"
			}
			return false, fmt.Sprintf("%s differs in block %d: %s vs %s", what, i+1, x, y)
		}
	}
	return true, ""
}

// DiffKind names the first differing component (stable discriminator).
func DiffKind(a, b []BlockObs) string {
	for i := 0; i < len(a) && i < len(b); i++ {
		switch {
		case a[i].Panic != b[i].Panic:
			return "panic"
		case a[i].Begin != b[i].Begin:
			return "begin-block-events"
		case fmt.Sprint(a[i].Txs) != fmt.Sprint(b[i].Txs):
			return "tx-result"
		case a[i].AppHash != b[i].AppHash:
			return "app-hash"
		case fmt.Sprint(a[i].Invariants) != fmt.Sprint(b[i].Invariants):
			return "invariant-output"
		}
	}
	return "length"
}

// WithoutFailed returns the trace with its failed messages (per the
// reference observation) deleted, and the observation projected likewise.
func WithoutFailed(tr Trace, ref []BlockObs) (Trace, bool) {
	any := false
	var out Trace
	for i, b := range tr {
		nb := Block{Dt: b.Dt}
		for j, m := range b.Msgs {
			if i < len(ref) && j < len(ref[i].TxOK) && !ref[i].TxOK[j] {
				any = true
				continue
			}
			nb.Msgs = append(nb.Msgs, m)
		}
		out = append(out, nb)
	}
	return out, any
}

// Project removes the failed transactions from an observation.
func Project(ref []BlockObs) []BlockObs {
	var out []BlockObs
	for _, b := range ref {
		nb := BlockObs{AppHash: b.AppHash, Begin: b.Begin, Invariants: b.Invariants, Panic: b.Panic}
		for j, t := range b.Txs {
			if b.TxOK[j] {
				nb.Txs = append(nb.Txs, t)
				nb.TxOK = append(nb.TxOK, true)
			}
		}
		out = append(out, nb)
	}
	return out
}

/* ---------- cross-process restarts ---------- */

// DumpDB writes a MemDB to a file (length-prefixed key/value pairs).
func DumpDB(db *dbm.MemDB, path string) error {
	var buf bytes.Buffer
	it, err := db.Iterator(nil, nil)
	if err != nil {
		return err
	}
	defer it.Close()
	var lb [4]byte
	put := func(b []byte) {
		lb[0], lb[1], lb[2], lb[3] = byte(len(b)>>24), byte(len(b)>>16), byte(len(b)>>8), byte(len(b))
		buf.Write(lb[:])
		buf.Write(b)
	}
	for ; it.Valid(); it.Next() {
		put(it.Key())
		put(it.Value())
	}
	return os.WriteFile(path, buf.Bytes(), 0o644)
}

// LoadDB reads a dump written by DumpDB.
func LoadDB(path string) (*dbm.MemDB, error) {
	bz, err := os.ReadFile(path)
	if err != nil {
		return nil, err
	}
	db := dbm.NewMemDB()
	next := func() []byte {
		n := int(bz[0])<<24 | int(bz[1])<<16 | int(bz[2])<<8 | int(bz[3])
		b := bz[4 : 4+n]
		bz = bz[4+n:]
		return b
	}
	for len(bz) > 0 {
		k := next()
		v := next()
		if err := db.Set(k, v); err != nil {
			return nil, err
		}
	}
	return db, nil
}

// DumpSeed writes the committed seed database.
func (e *Env) DumpSeed(path string) error { return DumpDB(e.seed, path) }

// ChildJob is executed by a fresh process (`mc c10child`): it loads a
// database dump, executes the blocks through ABCI with freshly built
// application objects (and fresh package-level state: a new process), and
// optionally writes the resulting database.
type ChildJob struct {
	DBIn   string       `json:"db_in"`
	DBOut  string       `json:"db_out,omitempty"`
	Height int64        `json:"height"`  // height of the last committed block in DBIn
	TimeNs int64        `json:"time_ns"` // its block time
	Blocks []ChildBlock `json:"blocks"`
}

type ChildBlock struct {
	DtNs int64                `json:"dt_ns"`
	Msgs []explore.ActionJSON `json:"msgs"`
}

// EncodeBlocks serialises trace blocks for a child job.
func EncodeBlocks(c *chain.Chain, blocks []Block) []ChildBlock {
	var out []ChildBlock
	for _, b := range blocks {
		cb := ChildBlock{DtNs: int64(b.Dt)}
		for _, m := range b.Msgs {
			cb.Msgs = append(cb.Msgs, explore.EncodeAction(c, m))
		}
		out = append(out, cb)
	}
	return out
}

// RunChild executes a job in THIS process (the child side).
func RunChild(job ChildJob) ([]BlockObs, error) {
	db, err := LoadDB(job.DBIn)
	if err != nil {
		return nil, err
	}
	c := chain.New(chain.Options{DB: db})
	var tr Trace
	for _, cb := range job.Blocks {
		b := Block{Dt: time.Duration(cb.DtNs)}
		for _, mj := range cb.Msgs {
			a, err := explore.DecodeAction(c, mj)
			if err != nil {
				return nil, err
			}
			b.Msgs = append(b.Msgs, a)
		}
		tr = append(tr, b)
	}
	obs := runBlocks(c, db, tr, job.Height, time.Unix(0, job.TimeNs).UTC(), 0)
	if job.DBOut != "" {
		if err := DumpDB(db, job.DBOut); err != nil {
			return nil, err
		}
	}
	return obs, nil
}
