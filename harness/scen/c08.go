package scen

import (
	"bytes"
	"fmt"

	sdk "github.com/cosmos/cosmos-sdk/types"

	"github.com/regen-network/regen-ledger/x/data/v3"
	basetypes "github.com/regen-network/regen-ledger/x/ecocredit/v3/base/types/v1"
	baskettypes "github.com/regen-network/regen-ledger/x/ecocredit/v3/basket/types/v1"
	markettypes "github.com/regen-network/regen-ledger/x/ecocredit/v3/marketplace/types/v1"

	"verif/harness/chain"
	"verif/harness/explore"
)

// RawHash / GraphHash build content hashes with a recognisable first byte.
func RawHash(b byte) *data.ContentHash {
	h := make([]byte, 32)
	h[0] = b
	return &data.ContentHash{Raw: &data.ContentHash_Raw{Hash: h, DigestAlgorithm: 1, FileExtension: "csv"}}
}

func GraphHash(b byte) *data.ContentHash_Graph {
	h := make([]byte, 32)
	h[0] = b
	return &data.ContentHash_Graph{Hash: h, DigestAlgorithm: 1, CanonicalizationAlgorithm: 1}
}

// Roles scenario (C08): every message type of the three ecocredit services and
// the data service, each signed by every account of the scenario.
func Roles() Spec {
	signers := []sdk.AccAddress{A, A2, B, C, D, G}
	type tmpl func(s sdk.AccAddress) *explore.Action
	lbl := func(name string, s sdk.AccAddress) string { return fmt.Sprintf("%s[signer=%s]", name, n(s)) }
	ts := []tmpl{
		// base: entity roles
		func(s sdk.AccAddress) *explore.Action {
			return Msg(lbl("CreateClass", s), &basetypes.MsgCreateClass{Admin: s.String(), Issuers: []string{s.String()}, Metadata: "m", CreditTypeAbbrev: "C", Fee: pcoin("uregen", 20)})
		},
		func(s sdk.AccAddress) *explore.Action {
			// a second credit type (exists only after AddCreditType(BIO) by the authority)
			return Msg(lbl("CreateClass(BIO)", s), &basetypes.MsgCreateClass{Admin: s.String(), Issuers: []string{s.String(), B.String()}, Metadata: "m", CreditTypeAbbrev: "BIO", Fee: pcoin("uregen", 20)})
		},
		func(s sdk.AccAddress) *explore.Action {
			return Msg(lbl("CreateProject(C01)", s), &basetypes.MsgCreateProject{Admin: s.String(), ClassId: "C01", Metadata: "m", Jurisdiction: "US-WA"})
		},
		func(s sdk.AccAddress) *explore.Action {
			return Msg(lbl("CreateProject(C02)", s), &basetypes.MsgCreateProject{Admin: s.String(), ClassId: "C02", Metadata: "m", Jurisdiction: "US-WA"})
		},
		func(s sdk.AccAddress) *explore.Action {
			a := CreateBatch(s, "C01-001", date(2022, 1, 1), date(2023, 1, 1), true, nil, Iss(B, "1", "0"))
			a.Label = lbl("CreateBatch(C01-001)", s)
			return a
		},
		func(s sdk.AccAddress) *explore.Action {
			a := CreateBatch(s, "C02-001", date(2022, 1, 1), date(2023, 1, 1), true, nil, Iss(B, "1", "0"))
			a.Label = lbl("CreateBatch(C02-001)", s)
			return a
		},
		func(s sdk.AccAddress) *explore.Action {
			a := Mint(s, B1, C, "1", "0", &basetypes.OriginTx{Id: "mint-" + n(s), Source: "verra"})
			a.Label = lbl("Mint(b1 open)", s)
			return a
		},
		func(s sdk.AccAddress) *explore.Action {
			a := Mint(s, B2, C, "1", "0", &basetypes.OriginTx{Id: "mint2-" + n(s), Source: "verra"})
			a.Label = lbl("Mint(b2 sealed)", s)
			return a
		},
		func(s sdk.AccAddress) *explore.Action { a := Seal(s, B1); a.Label = lbl("Seal(b1)", s); return a },
		func(s sdk.AccAddress) *explore.Action { a := Seal(s, B3); a.Label = lbl("Seal(b3)", s); return a },
		func(s sdk.AccAddress) *explore.Action {
			return Msg(lbl("UpdateBatchMetadata(b1 open)", s), &basetypes.MsgUpdateBatchMetadata{Issuer: s.String(), BatchDenom: B1, NewMetadata: "new-" + n(s)})
		},
		func(s sdk.AccAddress) *explore.Action {
			return Msg(lbl("UpdateBatchMetadata(b2 sealed)", s), &basetypes.MsgUpdateBatchMetadata{Issuer: s.String(), BatchDenom: B2, NewMetadata: "new-" + n(s)})
		},
		func(s sdk.AccAddress) *explore.Action {
			a := BridgeReceive(s, "C01", "VCS-9", C, "1", date(2021, 1, 1), date(2022, 1, 1), &basetypes.OriginTx{Id: TxHash(50 + int(s[5])), Source: "polygon", Contract: Contract2})
			a.Label = lbl("BridgeReceive(new contract)", s)
			return a
		},
		func(s sdk.AccAddress) *explore.Action {
			a := BridgeReceive(s, "C01", "VCS-1", C, "1", date(2021, 1, 1), date(2022, 1, 1), &basetypes.OriginTx{Id: TxHash(90 + int(s[5])), Source: "polygon", Contract: Contract1})
			a.Label = lbl("BridgeReceive(bound contract)", s)
			return a
		},
		func(s sdk.AccAddress) *explore.Action {
			return Msg(lbl("UpdateClassAdmin(C01->B)", s), &basetypes.MsgUpdateClassAdmin{Admin: s.String(), ClassId: "C01", NewAdmin: B.String()})
		},
		func(s sdk.AccAddress) *explore.Action {
			return Msg(lbl("UpdateClassAdmin(C01->A)", s), &basetypes.MsgUpdateClassAdmin{Admin: s.String(), ClassId: "C01", NewAdmin: A.String()})
		},
		func(s sdk.AccAddress) *explore.Action {
			return Msg(lbl("UpdateClassIssuers(C01,+C,-A)", s), &basetypes.MsgUpdateClassIssuers{Admin: s.String(), ClassId: "C01", AddIssuers: []string{C.String()}, RemoveIssuers: []string{A.String()}})
		},
		func(s sdk.AccAddress) *explore.Action {
			return Msg(lbl("UpdateClassIssuers(C01,+A)", s), &basetypes.MsgUpdateClassIssuers{Admin: s.String(), ClassId: "C01", AddIssuers: []string{A.String()}})
		},
		func(s sdk.AccAddress) *explore.Action {
			return Msg(lbl("UpdateClassMetadata(C01)", s), &basetypes.MsgUpdateClassMetadata{Admin: s.String(), ClassId: "C01", NewMetadata: "cm-" + n(s)})
		},
		func(s sdk.AccAddress) *explore.Action {
			return Msg(lbl("UpdateProjectAdmin(C01-001->C)", s), &basetypes.MsgUpdateProjectAdmin{Admin: s.String(), ProjectId: "C01-001", NewAdmin: C.String()})
		},
		func(s sdk.AccAddress) *explore.Action {
			return Msg(lbl("UpdateProjectMetadata(C01-001)", s), &basetypes.MsgUpdateProjectMetadata{Admin: s.String(), ProjectId: "C01-001", NewMetadata: "pm-" + n(s)})
		},
		// base: unimplemented RPCs (must fail for everybody)
		func(s sdk.AccAddress) *explore.Action {
			return Msg(lbl("CreateUnregisteredProject", s), &basetypes.MsgCreateUnregisteredProject{Admin: s.String(), Metadata: "m", Jurisdiction: "US-WA"})
		},
		func(s sdk.AccAddress) *explore.Action {
			return Msg(lbl("CreateOrUpdateApplication", s), &basetypes.MsgCreateOrUpdateApplication{ProjectAdmin: s.String(), ProjectId: "C01-001", ClassId: "C02", Metadata: "m"})
		},
		func(s sdk.AccAddress) *explore.Action {
			return Msg(lbl("UpdateProjectEnrollment", s), &basetypes.MsgUpdateProjectEnrollment{Issuer: s.String(), ProjectId: "C01-001", ClassId: "C01", NewStatus: 1, Metadata: "m"})
		},
		func(s sdk.AccAddress) *explore.Action {
			return Msg(lbl("UpdateProjectFee", s), &basetypes.MsgUpdateProjectFee{Authority: s.String(), Fee: pcoin("uregen", 5)})
		},
		// base: governance
		func(s sdk.AccAddress) *explore.Action {
			return Msg(lbl("AddCreditType(BIO)", s), &basetypes.MsgAddCreditType{Authority: s.String(), CreditType: &basetypes.CreditType{Abbreviation: "BIO", Name: "bio", Unit: "ha", Precision: 6}})
		},
		func(s sdk.AccAddress) *explore.Action {
			return Msg(lbl("SetClassCreatorAllowlist(on)", s), &basetypes.MsgSetClassCreatorAllowlist{Authority: s.String(), Enabled: true})
		},
		func(s sdk.AccAddress) *explore.Action {
			return Msg(lbl("SetClassCreatorAllowlist(off)", s), &basetypes.MsgSetClassCreatorAllowlist{Authority: s.String(), Enabled: false})
		},
		func(s sdk.AccAddress) *explore.Action {
			return Msg(lbl("AddClassCreator(D)", s), &basetypes.MsgAddClassCreator{Authority: s.String(), Creator: D.String()})
		},
		func(s sdk.AccAddress) *explore.Action {
			return Msg(lbl("RemoveClassCreator(D)", s), &basetypes.MsgRemoveClassCreator{Authority: s.String(), Creator: D.String()})
		},
		func(s sdk.AccAddress) *explore.Action {
			return Msg(lbl("UpdateClassFee(7uregen)", s), &basetypes.MsgUpdateClassFee{Authority: s.String(), Fee: pcoin("uregen", 7)})
		},
		func(s sdk.AccAddress) *explore.Action {
			return Msg(lbl("AddAllowedBridgeChain(ethereum)", s), &basetypes.MsgAddAllowedBridgeChain{Authority: s.String(), ChainName: "ethereum"})
		},
		func(s sdk.AccAddress) *explore.Action {
			return Msg(lbl("RemoveAllowedBridgeChain(polygon)", s), &basetypes.MsgRemoveAllowedBridgeChain{Authority: s.String(), ChainName: "polygon"})
		},
		// basket
		func(s sdk.AccAddress) *explore.Action {
			return Msg(lbl("UpdateCurator(NCT->B)", s), &baskettypes.MsgUpdateCurator{Curator: s.String(), Denom: NCT, NewCurator: B.String()})
		},
		func(s sdk.AccAddress) *explore.Action {
			return Msg(lbl("UpdateCurator(NCT->A)", s), &baskettypes.MsgUpdateCurator{Curator: s.String(), Denom: NCT, NewCurator: A.String()})
		},
		func(s sdk.AccAddress) *explore.Action {
			return Msg(lbl("UpdateBasketFee(3uregen)", s), &baskettypes.MsgUpdateBasketFee{Authority: s.String(), Fee: pcoin("uregen", 3)})
		},
		func(s sdk.AccAddress) *explore.Action {
			return Msg(lbl("UpdateDateCriteria(NCT,years=5)", s), &baskettypes.MsgUpdateDateCriteria{Authority: s.String(), Denom: NCT, NewDateCriteria: &baskettypes.DateCriteria{YearsInThePast: 5}})
		},
		// marketplace
		func(s sdk.AccAddress) *explore.Action {
			ask := coin("uregen", 4)
			return Msg(lbl("UpdateSellOrders(#1 of B)", s), &markettypes.MsgUpdateSellOrders{Seller: s.String(), Updates: []*markettypes.MsgUpdateSellOrders_Update{{SellOrderId: 1, NewQuantity: "0.5", NewAskPrice: &ask, DisableAutoRetire: true}}})
		},
		func(s sdk.AccAddress) *explore.Action {
			return Msg(lbl("CancelSellOrder(#3 of C)", s), &markettypes.MsgCancelSellOrder{Seller: s.String(), SellOrderId: 3})
		},
		func(s sdk.AccAddress) *explore.Action {
			return Msg(lbl("AddAllowedDenom(stake2)", s), &markettypes.MsgAddAllowedDenom{Authority: s.String(), BankDenom: "stake2", DisplayDenom: "STAKE2", Exponent: 6})
		},
		func(s sdk.AccAddress) *explore.Action {
			return Msg(lbl("RemoveAllowedDenom(ibc)", s), &markettypes.MsgRemoveAllowedDenom{Authority: s.String(), Denom: IBC})
		},
		func(s sdk.AccAddress) *explore.Action {
			a := GovFeeParams(s, "0.02", "0.03")
			a.Label = lbl("GovSetFeeParams", s)
			return a
		},
		func(s sdk.AccAddress) *explore.Action {
			a := GovSendFromPool(s, D, coin(IBC, 1))
			a.Label = lbl("GovSendFromFeePool(1ibc->D)", s)
			return a
		},
		// data
		func(s sdk.AccAddress) *explore.Action {
			// anyone may define a resolver with the SAME URL as B's private resolver #1 (only (url, manager) is unique)
			return Msg(lbl("DefineResolver(url of #1,private)", s), &data.MsgDefineResolver{Definer: s.String(), ResolverUrl: "https://b.example", Public: false})
		},
		func(s sdk.AccAddress) *explore.Action {
			return Msg(lbl("RegisterResolver(#1 private of B)", s), &data.MsgRegisterResolver{Signer: s.String(), ResolverId: 1, ContentHashes: []*data.ContentHash{RawHash(byte(s[5]))}})
		},
		func(s sdk.AccAddress) *explore.Action {
			return Msg(lbl("RegisterResolver(#2 public)", s), &data.MsgRegisterResolver{Signer: s.String(), ResolverId: 2, ContentHashes: []*data.ContentHash{RawHash(byte(s[5]))}})
		},
	}
	var evs []E
	exp := map[string]bool{}
	for _, t := range ts {
		for _, s := range signers {
			a := t(s)
			evs = append(evs, fix(a))
			exp[a.Label] = true // most (message, signer) pairs must fail: that is the property
		}
	}
	seedActs := func() []*explore.Action {
		return []*explore.Action{
			GovFeeParams(G, "0.1", "0.1"),
			Sell(B, B1, "1", coin(IBC, 100), true, nil),
			mkBuy(D, buyOrder{4, "1", coin(IBC, 100), true}), // puts 20 ibc into the fee pool
			Msg("seed:resolver private B", &data.MsgDefineResolver{Definer: B.String(), ResolverUrl: "https://b.example", Public: false}),
			Msg("seed:resolver public B", &data.MsgDefineResolver{Definer: B.String(), ResolverUrl: "https://pub.example", Public: true}),
		}
	}
	// hand-overs to a 32-byte account (group policy / interchain account style address) by the role
	// holders, and an issuer removal whose list starts with an account that is no issuer
	x32 := sdk.AccAddress(bytes.Repeat([]byte{0x32}, 32))
	for _, a := range []*explore.Action{
		Msg("UpdateCurator(A,NCT->X32)", &baskettypes.MsgUpdateCurator{Curator: A.String(), Denom: NCT, NewCurator: x32.String()}),
		Msg("UpdateClassAdmin(A,C01->X32)", &basetypes.MsgUpdateClassAdmin{Admin: A.String(), ClassId: "C01", NewAdmin: x32.String()}),
		Msg("UpdateProjectAdmin(A,C01-001->X32)", &basetypes.MsgUpdateProjectAdmin{Admin: A.String(), ProjectId: "C01-001", NewAdmin: x32.String()}),
		Msg("UpdateClassIssuers(A,C01,-D,-A)", &basetypes.MsgUpdateClassIssuers{Admin: A.String(), ClassId: "C01", RemoveIssuers: []string{D.String(), A.String()}}),
		Msg("RemoveAllowedBridgeChain(G,Polygon-capitalised)", &basetypes.MsgRemoveAllowedBridgeChain{Authority: G.String(), ChainName: "Polygon"}),
		Msg("UpdateClassIssuers(A,C01,+X32,+C)", &basetypes.MsgUpdateClassIssuers{Admin: A.String(), ClassId: "C01", AddIssuers: []string{x32.String(), C.String()}}),
	} {
		evs = append(evs, fix(a))
		exp[a.Label] = true
	}
	plain := PreparedSeed("prepared+resolvers", seedActs()...)
	plain.Name = "prepared+resolvers"
	// the governance authority is an account like any other when it signs an ordinary message: it is funded, so
	// that nothing but the role it lacks can make such a message fail (e.g. CreateClass while the allowlist is on)
	fundG := func(build func(c *chain.Chain) sdk.Context) func(c *chain.Chain) sdk.Context {
		return func(c *chain.Chain) sdk.Context {
			ctx := build(c)
			c.Fund(ctx, G, sdk.NewCoins(coin("uregen", 1_000_000)))
			return ctx
		}
	}
	plain.Build = fundG(plain.Build)
	rot := append(seedActs(),
		Msg("rot:class admin A->B", &basetypes.MsgUpdateClassAdmin{Admin: A.String(), ClassId: "C01", NewAdmin: B.String()}),
		Msg("rot:issuers +C -A", &basetypes.MsgUpdateClassIssuers{Admin: B.String(), ClassId: "C01", AddIssuers: []string{C.String()}, RemoveIssuers: []string{A.String()}}),
		Msg("rot:project admin A->C", &basetypes.MsgUpdateProjectAdmin{Admin: A.String(), ProjectId: "C01-001", NewAdmin: C.String()}),
		Msg("rot:curator A->B", &baskettypes.MsgUpdateCurator{Curator: A.String(), Denom: NCT, NewCurator: B.String()}),
		Msg("rot:allowlist on", &basetypes.MsgSetClassCreatorAllowlist{Authority: G.String(), Enabled: true}),
		Msg("rot:creator D", &basetypes.MsgAddClassCreator{Authority: G.String(), Creator: D.String()}),
		// the authority account itself holds credits of b1 and has some of them on sale
		Send(B, G, B1, "3", "0"),
		Sell(G, B1, "2", coin("uregen", 9), true, nil),
	)
	rotated := explore.Seed{Name: "rotated-roles", Build: func(c *chain.Chain) sdk.Context {
		ctx := PreparedSeed("prepared").Build(c)
		return mustRun(c, ctx, rot...)
	}}
	rotated.Build = fundG(rotated.Build)
	return Spec{Name: "roles", Seeds: []explore.Seed{plain, rotated}, Events: evs, DepthQuick: 3, DepthThor: 4, ExpectFail: exp, MinStates: 50}
}
