package scen

import (
	"bytes"
	"fmt"
	"hash"
	"time"

	sdk "github.com/cosmos/cosmos-sdk/types"

	"github.com/regen-network/regen-ledger/x/data/v3"
	"github.com/regen-network/regen-ledger/x/data/v3/server/hasher"

	"verif/harness/chain"
	"verif/harness/explore"
)

// weakHash is a hash.Hash with a tiny image, used to force ID collisions. The
// real CreateID derivation (hasher.NewHasherWithOptions) stays under test.
type weakHash struct {
	outputs [][]byte
	sum     int
}

func (w *weakHash) Write(p []byte) (int, error) {
	for _, b := range p {
		w.sum += int(b)
	}
	return len(p), nil
}
func (w *weakHash) Sum(b []byte) []byte { return append(b, w.outputs[w.sum%len(w.outputs)]...) }
func (w *weakHash) Reset()              { w.sum = 0 }
func (w *weakHash) Size() int           { return len(w.outputs[0]) }
func (w *weakHash) BlockSize() int      { return 1 }

// WeakHasher builds a hasher.Hasher over a weak digest with the repository's
// own constructor.
func WeakHasher(minLen int, outputs ...[]byte) hasher.Hasher {
	h, err := hasher.NewHasherWithOptions(hasher.HashOptions{MinLength: minLen, NewHash: func() hash.Hash { return &weakHash{outputs: outputs} }})
	if err != nil {
		panic(err)
	}
	return h
}

type hasherCfg struct {
	name string
	h    func() hasher.Hasher
}

// Hashers of the C16 scenario.
func Hashers(thorough bool) []hasherCfg {
	asc := []byte{1, 2, 3, 4, 5, 6, 7, 8}
	rep := []byte{7, 7, 7, 7, 7, 7, 7, 7}
	alt := []byte{1, 2, 3, 4, 9, 9, 9, 9} // same 4-byte prefix as asc, different tail
	out := []hasherCfg{
		{"production-blake2b", func() hasher.Hasher { return nil }},
		{"constant(min=4)", func() hasher.Hasher { return WeakHasher(4, asc) }},
		{"constant-repeating-bytes(min=4)", func() hasher.Hasher { return WeakHasher(4, rep) }},
		{"two-outputs-shared-prefix(min=4)", func() hasher.Hasher { return WeakHasher(4, asc, alt) }},
		{"constant(min=8=hash length)", func() hasher.Hasher { return WeakHasher(8, asc) }},
		{"constant(min=1)", func() hasher.Hasher { return WeakHasher(1, asc) }},
	}
	if thorough {
		out = append(out,
			hasherCfg{"four-outputs(min=4)", func() hasher.Hasher {
				return WeakHasher(4, asc, alt, rep, []byte{1, 2, 3, 4, 1, 2, 3, 4})
			}},
			hasherCfg{"two-outputs(min=1)", func() hasher.Hasher { return WeakHasher(1, asc, rep) }},
			hasherCfg{"constant-2-byte-digest(min=1)", func() hasher.Hasher { return WeakHasher(1, []byte{5, 5}) }},
		)
	}
	return out
}

// G1m has the digest bytes of G1 and another merkle-tree identifier: a different content hash.
func G1m() *data.ContentHash_Graph {
	g := GraphHash(1)
	g.MerkleTree = 1
	return g
}

// R20 is a raw content hash with a 20-byte digest.
func R20() *data.ContentHash {
	return &data.ContentHash{Raw: &data.ContentHash_Raw{Hash: bytes.Repeat([]byte{0x20}, 20), DigestAlgorithm: 1, FileExtension: "bin"}}
}

// R1cs has the digest of R1 and the file extension "cs", a prefix of R1's "csv": the two IRIs are in a
// prefix relation.
func R1cs() *data.ContentHash {
	h := RawHash(1)
	h.Raw.FileExtension = "cs"
	return h
}

// DataUniverse are the content hashes of the data scenario plus two that no event ever names.
func DataUniverse() []*data.ContentHash {
	return []*data.ContentHash{RawHash(1), RawHash(2), RawHash(3), {Graph: GraphHash(1)}, {Graph: GraphHash(2)}, {Graph: GraphHash(3)},
		{Graph: G1m()}, R20(), R1cs(), RawHash(4), {Graph: GraphHash(4)}}
}

// DataSpec is the C16 scenario: one seed per injected hasher.
func DataSpec(thorough bool) Spec {
	var seeds []explore.Seed
	for _, hc := range Hashers(thorough) {
		hc := hc
		seeds = append(seeds, explore.Seed{Name: hc.name, Opts: chain.Options{Hasher: hc.h()}, Build: func(c *chain.Chain) sdk.Context {
			ctx := c.BaseContext(chain.T0, 1)
			c.InitGenesis(ctx, chain.Genesis{Balances: StdFunds()})
			return ctx
		}})
	}
	raw := func(i byte) *data.ContentHash { return RawHash(i) }
	gr := func(i byte) *data.ContentHash { return &data.ContentHash{Graph: GraphHash(i)} }
	hashes := []*data.ContentHash{raw(1), raw(2), raw(3), gr(1), gr(2), gr(3)}
	hn := []string{"R1", "R2", "R3", "G1", "G2", "G3"}
	var evs []E
	for _, s := range []sdk.AccAddress{B, C} {
		for i, h := range hashes {
			evs = append(evs, fix(Msg(fmt.Sprintf("Anchor(%s,%s)", n(s), hn[i]), &data.MsgAnchor{Sender: s.String(), ContentHash: h})))
		}
		for i := 3; i < 6; i++ {
			evs = append(evs, fix(Msg(fmt.Sprintf("Attest(%s,%s)", n(s), hn[i]), &data.MsgAttest{Attestor: s.String(), ContentHashes: []*data.ContentHash_Graph{hashes[i].Graph}})))
		}
	}
	evs = append(evs,
		fix(Msg("Attest(B,G1+G2)", &data.MsgAttest{Attestor: B.String(), ContentHashes: []*data.ContentHash_Graph{hashes[3].Graph, hashes[4].Graph}})),
		fix(Msg("Attest(C,G2+G2)", &data.MsgAttest{Attestor: C.String(), ContentHashes: []*data.ContentHash_Graph{hashes[4].Graph, hashes[4].Graph}})),
		fix(Msg("DefineResolver(B,url1,private)", &data.MsgDefineResolver{Definer: B.String(), ResolverUrl: "https://r1.example", Public: false})),
		fix(Msg("DefineResolver(B,url1,public)", &data.MsgDefineResolver{Definer: B.String(), ResolverUrl: "https://r1.example", Public: true})),
		fix(Msg("DefineResolver(C,url1,private)", &data.MsgDefineResolver{Definer: C.String(), ResolverUrl: "https://r1.example", Public: false})),
	)
	for _, s := range []sdk.AccAddress{B, C, D} {
		for _, rid := range []uint64{1, 2} {
			for _, hi := range []int{0, 3} {
				evs = append(evs, fix(Msg(fmt.Sprintf("RegisterResolver(%s,#%d,%s)", n(s), rid, hn[hi]), &data.MsgRegisterResolver{Signer: s.String(), ResolverId: rid, ContentHashes: []*data.ContentHash{hashes[hi]}})))
			}
		}
	}
	evs = append(evs,
		fix(Msg("RegisterResolver(B,#1,R2+R3)", &data.MsgRegisterResolver{Signer: B.String(), ResolverId: 1, ContentHashes: []*data.ContentHash{hashes[1], hashes[2]}})),
		fix(Msg("RegisterResolver(D,#2,R1+R2+R3)", &data.MsgRegisterResolver{Signer: D.String(), ResolverId: 2, ContentHashes: []*data.ContentHash{hashes[0], hashes[1], hashes[2]}})),
		fix(Msg("Attest(C,G1+G2+G3)", &data.MsgAttest{Attestor: C.String(), ContentHashes: []*data.ContentHash_Graph{hashes[3].Graph, hashes[4].Graph, hashes[5].Graph}})),
		// two content hashes with the same digest bytes in one message, and one of them alone
		fix(Msg("Attest(B,G1+G1m)", &data.MsgAttest{Attestor: B.String(), ContentHashes: []*data.ContentHash_Graph{hashes[3].Graph, G1m()}})),
		fix(Msg("Anchor(C,G1m)", &data.MsgAnchor{Sender: C.String(), ContentHash: &data.ContentHash{Graph: G1m()}})),
		// a 20-byte digest under digest algorithm 1 (message validation admits 20..64 bytes for every algorithm)
		fix(Msg("Anchor(B,R20)", &data.MsgAnchor{Sender: B.String(), ContentHash: R20()})),
		// an IRI that is a proper prefix of R1's (extension cs / csv), anchored and registered after or before it
		fix(Msg("Anchor(C,R1cs)", &data.MsgAnchor{Sender: C.String(), ContentHash: R1cs()})),
		fix(Msg("RegisterResolver(B,#1,R1cs)", &data.MsgRegisterResolver{Signer: B.String(), ResolverId: 1, ContentHashes: []*data.ContentHash{R1cs()}})),
		// a content hash with BOTH parts set is no content hash (message validation must refuse it)
		fix(Msg("RegisterResolver(B,#1,raw+graph)", &data.MsgRegisterResolver{Signer: B.String(), ResolverId: 1, ContentHashes: []*data.ContentHash{{Raw: RawHash(2).Raw, Graph: GraphHash(2)}}})),
		fix(Msg("Anchor(B,raw+graph)", &data.MsgAnchor{Sender: B.String(), ContentHash: &data.ContentHash{Raw: RawHash(2).Raw, Graph: GraphHash(2)}})),
		fix(Next(time.Second)), fix(Next(24*time.Hour)),
		fix(Next(250*365*24*time.Hour)), // a block time beyond 2262-04-11 (where int64 nanoseconds end)
	)
	exp := map[string]bool{}
	for _, e := range evs {
		exp[e.Name] = true
	}
	return Spec{Name: "data", Seeds: seeds, Events: evs, DepthQuick: 4, DepthThor: 5, ExpectFail: exp, MinStates: 500}
}

// Long content hashes: message validation admits digests of up to 64 bytes. Two graph hashes and two raw hashes of 64
// bytes that agree on their first 40 bytes (beyond any 32-byte buffer) and differ only in the last byte, and a 33-byte one.
func longHash(last byte, n int) []byte {
	h := bytes.Repeat([]byte{0xab}, n)
	h[n-1] = last
	return h
}

func LG(last byte) *data.ContentHash_Graph {
	return &data.ContentHash_Graph{Hash: longHash(last, 64), DigestAlgorithm: 1, CanonicalizationAlgorithm: 1}
}

func LR(last byte, n int) *data.ContentHash {
	return &data.ContentHash{Raw: &data.ContentHash_Raw{Hash: longHash(last, n), DigestAlgorithm: 1, FileExtension: "bin"}}
}

// DataLongUniverse: the content hashes of the long-hash scenario plus one never named.
func DataLongUniverse() []*data.ContentHash {
	return []*data.ContentHash{{Graph: LG(1)}, {Graph: LG(2)}, LR(1, 64), LR(2, 64), LR(1, 33), LR(2, 33), {Graph: LG(3)}, RawHash(1)}
}

// DataLong is a small data scenario over long digests (C16, C15): production hasher and one colliding hasher.
func DataLong() Spec {
	var seeds []explore.Seed
	for _, hc := range Hashers(false)[:2] {
		hc := hc
		seeds = append(seeds, explore.Seed{Name: "long/" + hc.name, Opts: chain.Options{Hasher: hc.h()}, Build: func(c *chain.Chain) sdk.Context {
			ctx := c.BaseContext(chain.T0, 1)
			c.InitGenesis(ctx, chain.Genesis{Balances: StdFunds()})
			return mustRun(c, ctx, Msg("seed:DefineResolver(B,url1,private)", &data.MsgDefineResolver{Definer: B.String(), ResolverUrl: "https://r1.example", Public: false}))
		}})
	}
	b, c := B.String(), C.String()
	evs := []E{
		fix(Msg("Anchor(B,LG1)", &data.MsgAnchor{Sender: b, ContentHash: &data.ContentHash{Graph: LG(1)}})),
		fix(Msg("Anchor(C,LG2)", &data.MsgAnchor{Sender: c, ContentHash: &data.ContentHash{Graph: LG(2)}})),
		fix(Msg("Anchor(B,LR1/64)", &data.MsgAnchor{Sender: b, ContentHash: LR(1, 64)})),
		fix(Msg("Anchor(C,LR2/64)", &data.MsgAnchor{Sender: c, ContentHash: LR(2, 64)})),
		fix(Msg("Anchor(B,LR1/33)", &data.MsgAnchor{Sender: b, ContentHash: LR(1, 33)})),
		fix(Msg("Anchor(C,LR2/33)", &data.MsgAnchor{Sender: c, ContentHash: LR(2, 33)})),
		fix(Msg("Attest(C,LG1)", &data.MsgAttest{Attestor: c, ContentHashes: []*data.ContentHash_Graph{LG(1)}})),
		fix(Msg("Attest(B,LG2)", &data.MsgAttest{Attestor: b, ContentHashes: []*data.ContentHash_Graph{LG(2)}})),
		fix(Msg("Attest(B,LG1+LG2)", &data.MsgAttest{Attestor: b, ContentHashes: []*data.ContentHash_Graph{LG(1), LG(2)}})),
		fix(Msg("RegisterResolver(B,#1,LR1/64)", &data.MsgRegisterResolver{Signer: b, ResolverId: 1, ContentHashes: []*data.ContentHash{LR(1, 64)}})),
		fix(Msg("RegisterResolver(B,#1,LR2/64+LG2)", &data.MsgRegisterResolver{Signer: b, ResolverId: 1, ContentHashes: []*data.ContentHash{LR(2, 64), {Graph: LG(2)}}})),
		fix(Next(time.Second)),
	}
	exp := map[string]bool{}
	for _, e := range evs {
		exp[e.Name] = true
	}
	return Spec{Name: "data-long", Seeds: seeds, Events: evs, DepthQuick: 3, DepthThor: 4, ExpectFail: exp, MinStates: 100}
}
