// Package scen builds seed states and event alphabets (scenarios) for Engine A.
package scen

import (
	"fmt"
	"time"

	sdk "github.com/cosmos/cosmos-sdk/types"
	authtypes "github.com/cosmos/cosmos-sdk/x/auth/types"
	govtypes "github.com/cosmos/cosmos-sdk/x/gov/types"

	"github.com/regen-network/regen-ledger/x/ecocredit/v3"
	basetypes "github.com/regen-network/regen-ledger/x/ecocredit/v3/base/types/v1"
	"github.com/regen-network/regen-ledger/x/ecocredit/v3/basket"
	baskettypes "github.com/regen-network/regen-ledger/x/ecocredit/v3/basket/types/v1"
	"github.com/regen-network/regen-ledger/x/ecocredit/v3/marketplace"
	markettypes "github.com/regen-network/regen-ledger/x/ecocredit/v3/marketplace/types/v1"

	"verif/harness/chain"
	"verif/harness/explore"
)

func acct(name string) sdk.AccAddress {
	b := make([]byte, 20)
	copy(b, []byte("acct-"+name+"--------------------"))
	return sdk.AccAddress(b)
}

// Accounts used by every scenario. Addresses are fixed byte strings so that
// runs are reproducible.
var (
	A  sdk.AccAddress // class admin + issuer of C01
	A2 sdk.AccAddress // admin/issuer of C02
	B  sdk.AccAddress // user
	C  sdk.AccAddress // user
	D  sdk.AccAddress // stranger: funded, holds no credits and no role
	G  sdk.AccAddress // governance authority
	L  = acct("L")    // an account whose coins are locked (market scenario)

	EcoMod, BasketMod, FeePool sdk.AccAddress
)

// IBC is a second (non-uregen) bank denom.
const IBC = "ibc/CDC4587874B85BEA4FCEC3CEA5A1195139799A1FEE711A07D972537E18FDA39D"

func init() {
	chain.InitSDKConfig()
	A, A2, B, C, D = acct("A"), acct("A2"), acct("B"), acct("C"), acct("D")
	G = authtypes.NewModuleAddress(govtypes.ModuleName)
	EcoMod = authtypes.NewModuleAddress(ecocredit.ModuleName)
	BasketMod = authtypes.NewModuleAddress(basket.BasketSubModuleName)
	FeePool = authtypes.NewModuleAddress(marketplace.FeePoolName)
}

// Name returns a short name for a known address.
func Name(a string) string {
	for n, x := range map[string]sdk.AccAddress{"A": A, "A2": A2, "B": B, "C": C, "D": D, "G": G, "ecocredit": EcoMod, "basket": BasketMod, "feepool": FeePool} {
		if x.String() == a {
			return n
		}
	}
	return a
}

func coin(d string, n int64) sdk.Coin { return sdk.NewInt64Coin(d, n) }

func pcoin(d string, n int64) *sdk.Coin { c := coin(d, n); return &c }

func ts(t time.Time) *time.Time { return &t }

func date(y, m, d int) time.Time { return time.Date(y, time.Month(m), d, 0, 0, 0, 0, time.UTC) }

// Msg wraps a message into an action.
func Msg(label string, m sdk.Msg) *explore.Action {
	return &explore.Action{Kind: explore.ActMsg, Label: label, Msg: m}
}

// Next is a block boundary advancing time by d.
func Next(d time.Duration) *explore.Action {
	return &explore.Action{Kind: explore.ActNextBlock, Label: "NextBlock(" + d.String() + ")", Dt: d}
}

// BankSend is an environment event standing for a bank MsgSend signed by from.
func BankSend(label string, from, to sdk.AccAddress, coins ...sdk.Coin) *explore.Action {
	return &explore.Action{Kind: explore.ActBankSend, Label: label, From: from, To: to, Coins: sdk.NewCoins(coins...)}
}

// mustRun delivers seed messages and panics if one fails: a seed that stops
// working must never silently shrink the explored space.
// TolerateSeedFailures makes seed construction skip (and record in SeedFailures) a step that fails
// instead of panicking. Only Engine C sets it, in its own process: there the construction of the seed is
// itself compared between environments (wall clock), so a step that fails is an observation.
var (
	TolerateSeedFailures bool
	SeedFailures         []string
)

func mustRun(c *chain.Chain, ctx sdk.Context, acts ...*explore.Action) sdk.Context {
	for _, a := range acts {
		post, w, res, _ := explore.Apply(c, ctx, a)
		if !res.OK && TolerateSeedFailures {
			SeedFailures = append(SeedFailures, fmt.Sprintf("%s: %s", a.Label, res.Err))
			continue
		}
		if !res.OK {
			panic(fmt.Sprintf("seed step %q failed: %s", a.Label, res.Err))
		}
		w()
		if a.Kind == explore.ActNextBlock {
			ctx = ctx.WithBlockHeader(post.BlockHeader())
		}
	}
	return ctx
}

// StdFunds are the bank balances of the user accounts in every seed.
func StdFunds() map[string]sdk.Coins {
	f := sdk.NewCoins(coin("uregen", 100_000_000), coin("stake", 100_000_000), coin(IBC, 100_000_000))
	return map[string]sdk.Coins{A.String(): f, A2.String(): f, B.String(): f, C.String(): f, D.String(): f}
}

// FreshSeed is a chain right after a default-like genesis: credit type C,
// no class/basket fee unless set by the scenario, allowed denoms uregen+ibc,
// funded accounts.
func FreshSeed(name string, extra ...*explore.Action) explore.Seed {
	return explore.Seed{Name: name, Build: func(c *chain.Chain) sdk.Context {
		ctx := c.BaseContext(chain.T0, 1)
		c.InitGenesis(ctx, chain.Genesis{Balances: StdFunds()})
		ctx = mustRun(c, ctx, GovBaseline()...)
		return mustRun(c, ctx, extra...)
	}}
}

// GovBaseline are governance messages that turn the module default genesis
// (fees in "stake", allowed denom "stake") into the baseline configuration.
func GovBaseline() []*explore.Action {
	g := G.String()
	return []*explore.Action{
		Msg("gov:class-fee=20uregen", &basetypes.MsgUpdateClassFee{Authority: g, Fee: pcoin("uregen", 20)}),
		Msg("gov:basket-fee=10uregen", &baskettypes.MsgUpdateBasketFee{Authority: g, Fee: pcoin("uregen", 10)}),
		Msg("gov:allow-uregen", &markettypes.MsgAddAllowedDenom{Authority: g, BankDenom: "uregen", DisplayDenom: "regen", Exponent: 6}),
		Msg("gov:allow-ibc", &markettypes.MsgAddAllowedDenom{Authority: g, BankDenom: IBC, DisplayDenom: "atom", Exponent: 6}),
		Msg("gov:bridge-chain=polygon", &basetypes.MsgAddAllowedBridgeChain{Authority: g, ChainName: "polygon"}),
	}
}

// TxHash returns a valid ethereum tx hash ending in n.
func TxHash(n int) string { return fmt.Sprintf("0x%064x", n) }

// Ethereum contract addresses used as bridge contracts.
const (
	Contract1 = "0x0E65079a29d7793ab5CA500c2d88e60EE99bA606"
	Contract2 = "0x1111111111111111111111111111111111111111"
	Contract3 = "0x2222222222222222222222222222222222222222"
)

// Denoms of the prepared seed.
const (
	B1  = "C01-001-20200101-20210101-001"
	B2  = "C01-001-20190101-20200101-002"
	B3  = "C01-002-20210101-20220101-001" // created by BridgeReceive (project C01-002)
	NCT = "eco.uC.NCT"
	RCT = "eco.uC.RCT"
)

// PreparedActions is the message prefix building the "prepared" seed of
// DESIGN Appendix B.
func PreparedActions() []*explore.Action {
	a, a2, b, c_ := A.String(), A2.String(), B.String(), C.String()
	exp10 := chain.T0.Add(10 * time.Second)
	acts := GovBaseline()
	acts = append(acts,
		Msg("seed:class C01", &basetypes.MsgCreateClass{Admin: a, Issuers: []string{a}, Metadata: "m", CreditTypeAbbrev: "C", Fee: pcoin("uregen", 20)}),
		Msg("seed:class C02", &basetypes.MsgCreateClass{Admin: a2, Issuers: []string{a2}, Metadata: "m", CreditTypeAbbrev: "C", Fee: pcoin("uregen", 20)}),
		Msg("seed:project C01-001", &basetypes.MsgCreateProject{Admin: a, ClassId: "C01", Metadata: "m", Jurisdiction: "US-WA", ReferenceId: "r1"}),
		Msg("seed:project C02-001", &basetypes.MsgCreateProject{Admin: a2, ClassId: "C02", Metadata: "m", Jurisdiction: "US-WA"}),
		Msg("seed:batch b1", &basetypes.MsgCreateBatch{Issuer: a, ProjectId: "C01-001", Metadata: "m", Open: true,
			StartDate: ts(date(2020, 1, 1)), EndDate: ts(date(2021, 1, 1)),
			Issuance: []*basetypes.BatchIssuance{
				{Recipient: b, TradableAmount: "10", RetiredAmount: "1", RetirementJurisdiction: "US-WA"},
				{Recipient: c_, TradableAmount: "5", RetiredAmount: "0.5", RetirementJurisdiction: "US-WA"},
			}}),
		Msg("seed:batch b2", &basetypes.MsgCreateBatch{Issuer: a, ProjectId: "C01-001", Metadata: "m", Open: false,
			StartDate: ts(date(2019, 1, 1)), EndDate: ts(date(2020, 1, 1)),
			Issuance: []*basetypes.BatchIssuance{
				{Recipient: b, TradableAmount: "3"},
				{Recipient: c_, TradableAmount: "2"},
			}}),
		Msg("seed:bridge-receive b3", &basetypes.MsgBridgeReceive{Issuer: a, ClassId: "C01",
			Project:  &basetypes.MsgBridgeReceive_Project{ReferenceId: "VCS-1", Jurisdiction: "KE", Metadata: "pm"},
			Batch:    &basetypes.MsgBridgeReceive_Batch{Recipient: b, Amount: "4", StartDate: ts(date(2021, 1, 1)), EndDate: ts(date(2022, 1, 1)), Metadata: "bm"},
			OriginTx: &basetypes.OriginTx{Id: TxHash(1), Source: "polygon", Contract: Contract1, Note: "n"}}),
		Msg("seed:cancel 1 b1 by B", &basetypes.MsgCancel{Owner: b, Credits: []*basetypes.Credits{{BatchDenom: B1, Amount: "1"}}, Reason: "r"}),
		Msg("seed:basket NCT", &baskettypes.MsgCreate{Curator: a, Name: "NCT", DisableAutoRetire: true, CreditTypeAbbrev: "C", AllowedClasses: []string{"C01"}, Fee: sdk.NewCoins(coin("uregen", 10))}),
		Msg("seed:basket RCT", &baskettypes.MsgCreate{Curator: a, Name: "RCT", DisableAutoRetire: false, CreditTypeAbbrev: "C", AllowedClasses: []string{"C01"}, Fee: sdk.NewCoins(coin("uregen", 10))}),
		Msg("seed:put 2 b1 NCT by B", &baskettypes.MsgPut{Owner: b, BasketDenom: NCT, Credits: []*baskettypes.BasketCredit{{BatchDenom: B1, Amount: "2"}}}),
		Msg("seed:sell B", &markettypes.MsgSell{Seller: b, Orders: []*markettypes.MsgSell_Order{
			{BatchDenom: B1, Quantity: "1", AskPrice: pcoin("uregen", 3), DisableAutoRetire: true},
			{BatchDenom: B1, Quantity: "1", AskPrice: pcoin(IBC, 7), DisableAutoRetire: false, Expiration: &exp10},
		}}),
		Msg("seed:sell C", &markettypes.MsgSell{Seller: c_, Orders: []*markettypes.MsgSell_Order{
			{BatchDenom: B1, Quantity: "1", AskPrice: pcoin("uregen", 3), DisableAutoRetire: true, Expiration: &exp10},
		}}),
	)
	return acts
}

// PreparedNoOrdersSeed is the prepared state without the two sell messages: a base whose construction
// does not itself depend on the marketplace parameters (C18 exercises those through its own operations).
func PreparedNoOrdersSeed(name string, extra ...*explore.Action) explore.Seed {
	return explore.Seed{Name: name, Build: func(c *chain.Chain) sdk.Context {
		ctx := c.BaseContext(chain.T0, 1)
		c.InitGenesis(ctx, chain.Genesis{Balances: StdFunds()})
		acts := PreparedActions()
		ctx = mustRun(c, ctx, acts[:len(acts)-2]...)
		return mustRun(c, ctx, extra...)
	}}
}

// BioBasket is the basket of the three-letter credit type BIO (its denom has a four-letter middle part).
const (
	BioBasket = "eco.uBIO.BNCT"
	BioBatch  = "BIO01-001-20200101-20210101-001"
)

// ThreeLetterTypeActions add the credit type BIO through governance and build a class, project, batch
// (issued to B) and basket of that type.
func ThreeLetterTypeActions() []*explore.Action {
	a := A.String()
	return []*explore.Action{
		Msg("gov:add-credit-type BIO", &basetypes.MsgAddCreditType{Authority: G.String(), CreditType: &basetypes.CreditType{Abbreviation: "BIO", Name: "biodiversity", Unit: "ha", Precision: 6}}),
		Msg("seed:class BIO01", &basetypes.MsgCreateClass{Admin: a, Issuers: []string{a}, Metadata: "m", CreditTypeAbbrev: "BIO", Fee: pcoin("uregen", 20)}),
		Msg("seed:project BIO01-001", &basetypes.MsgCreateProject{Admin: a, ClassId: "BIO01", Metadata: "m", Jurisdiction: "US-WA"}),
		CreateBatch(A, "BIO01-001", date(2020, 1, 1), date(2021, 1, 1), true, nil, Iss(B, "10", "0")),
		Msg("seed:basket BNCT", &baskettypes.MsgCreate{Curator: a, Name: "BNCT", DisableAutoRetire: true, CreditTypeAbbrev: "BIO", AllowedClasses: []string{"BIO01"}, Fee: sdk.NewCoins(coin("uregen", 10))}),
	}
}

// PreparedSeed builds the prepared state.
func PreparedSeed(name string, extra ...*explore.Action) explore.Seed {
	return explore.Seed{Name: name, Build: func(c *chain.Chain) sdk.Context {
		ctx := c.BaseContext(chain.T0, 1)
		c.InitGenesis(ctx, chain.Genesis{Balances: StdFunds()})
		ctx = mustRun(c, ctx, PreparedActions()...)
		return mustRun(c, ctx, extra...)
	}}
}
