package scen

import (
	"fmt"

	sdk "github.com/cosmos/cosmos-sdk/types"

	basetypes "github.com/regen-network/regen-ledger/x/ecocredit/v3/base/types/v1"
	baskettypes "github.com/regen-network/regen-ledger/x/ecocredit/v3/basket/types/v1"

	"verif/harness/chain"
	"verif/harness/explore"
)

func createClass(s sdk.AccAddress, abbrev string, fee int64) *explore.Action {
	return Msg(fmt.Sprintf("CreateClass(%s,%s,fee=%d)", n(s), abbrev, fee), &basetypes.MsgCreateClass{Admin: s.String(), Issuers: []string{s.String()}, Metadata: "m", CreditTypeAbbrev: abbrev, Fee: pcoin("uregen", fee)})
}

// kthClass picks the k-th class (by key; k<0 counts from the end) of the pre-state.
func kthClass(pre *chain.Snapshot, k int) string {
	if len(pre.Classes) == 0 {
		return ""
	}
	if k < 0 {
		k = len(pre.Classes) + k
	}
	if k < 0 || k >= len(pre.Classes) {
		return ""
	}
	return pre.Classes[k].Id
}

func kthProject(pre *chain.Snapshot, k int) string {
	if k < 0 {
		k = len(pre.Projects) + k
	}
	if k < 0 || k >= len(pre.Projects) {
		return ""
	}
	return pre.Projects[k].Id
}

// IDs scenario (C14): creations by right and wrong signers, failing creations
// interleaved, several credit types, sequence counters at the padding width.
func IDs() Spec {
	g := G.String()
	types := []*explore.Action{
		Msg("gov:add-credit-type BIO", &basetypes.MsgAddCreditType{Authority: g, CreditType: &basetypes.CreditType{Abbreviation: "BIO", Name: "biodiversity", Unit: "ha", Precision: 6}}),
		Msg("gov:add-credit-type KSH", &basetypes.MsgAddCreditType{Authority: g, CreditType: &basetypes.CreditType{Abbreviation: "KSH", Name: "kasigau", Unit: "t", Precision: 6}}),
	}
	fresh := FreshSeed("fresh+types", types...)
	fresh.Name = "fresh+types"
	base := append(append([]*explore.Action{}, GovBaseline()...), types...)
	base = append(base,
		createClass(A, "C", 20), createClass(A, "BIO", 20),
		Msg("seed:project", &basetypes.MsgCreateProject{Admin: A.String(), ClassId: "C01", Metadata: "m", Jurisdiction: "US-WA", ReferenceId: "ref-1"}),
		CreateBatch(A, "C01-001", date(2020, 1, 1), date(2021, 1, 1), true, nil, Iss(B, "10", "0")),
	)
	rollover := GenesisSeed("genesis-rollover", base, func(d GenDoc) {
		d.Set("regen.ecocredit.v1.ClassSequence", []map[string]string{
			{"credit_type_abbrev": "BIO", "next_sequence": "9"}, {"credit_type_abbrev": "C", "next_sequence": "99"}, {"credit_type_abbrev": "KSH", "next_sequence": "999"}})
		d.Set("regen.ecocredit.v1.ProjectSequence", []map[string]string{{"class_key": "1", "next_sequence": "999"}, {"class_key": "2", "next_sequence": "9"}})
		d.Set("regen.ecocredit.v1.BatchSequence", []map[string]string{{"project_key": "1", "next_sequence": "999"}})
	})
	evs := []E{
		fix(createClass(A, "C", 20)), fix(createClass(A, "BIO", 20)), fix(createClass(B, "KSH", 25)),
		fix(createClass(D, "C", 1)),   // fee below the class fee
		fix(createClass(A, "XX", 20)), // unknown credit type
		fix(Msg("gov:add-credit-type ZZ", &basetypes.MsgAddCreditType{Authority: g, CreditType: &basetypes.CreditType{Abbreviation: "ZZ", Name: "zz", Unit: "u", Precision: 6}})),
		fix(createClass(B, "ZZ", 20)), // a credit type added on chain: numbering starts at 1
	}
	proj := func(signer sdk.AccAddress, k int, refID string) E {
		name := fmt.Sprintf("CreateProject(%s,class#%d,ref=%q)", n(signer), k, refID)
		return E{Name: name, Make: func(pre *chain.Snapshot) *explore.Action {
			cid := kthClass(pre, k)
			if cid == "" {
				return nil
			}
			return Msg(name+"["+cid+"]", &basetypes.MsgCreateProject{Admin: signer.String(), ClassId: cid, Metadata: "m", Jurisdiction: "US-WA", ReferenceId: refID})
		}}
	}
	batch := func(signer sdk.AccAddress, k int, y int) E {
		name := fmt.Sprintf("CreateBatch(%s,project#%d,%d)", n(signer), k, y)
		return E{Name: name, Make: func(pre *chain.Snapshot) *explore.Action {
			pid := kthProject(pre, k)
			if pid == "" {
				return nil
			}
			a := CreateBatch(signer, pid, date(y, 1, 1), date(y+1, 1, 1), true, nil, Iss(B, "5", "0"))
			a.Label = name + "[" + pid + "]"
			return a
		}}
	}
	evs = append(evs,
		proj(A, 0, ""), proj(A, 0, "dup"), proj(A, -1, ""), proj(B, -1, "x"), proj(D, 0, ""),
		batch(A, 0, 2020), batch(A, 0, 1969), batch(A, -1, 2021), batch(B, -1, 2021), batch(D, 0, 2020),
		batch(A, 0, 999), batch(A, -1, 1), // years of fewer than four digits ("all valid dates")
	)
	evs = append(evs, E{Name: "BridgeReceive(A,class#0,new-contract)", Make: func(pre *chain.Snapshot) *explore.Action {
		cid := kthClass(pre, 0)
		if cid == "" {
			return nil
		}
		a := BridgeReceive(A, cid, "VCS-7", B, "2", date(2021, 1, 1), date(2022, 1, 1), &basetypes.OriginTx{Id: TxHash(100 + len(pre.OriginTxs)), Source: "polygon", Contract: Contract2})
		return a
	}})
	evs = append(evs, E{Name: "basket.Create(A,class#0)", Make: func(pre *chain.Snapshot) *explore.Action {
		cid := kthClass(pre, 0)
		if cid == "" {
			return nil
		}
		abbrev := pre.Classes[0].CreditTypeAbbrev
		return Msg("basket.Create(A,BSK,"+cid+")", &baskettypes.MsgCreate{Curator: A.String(), Name: "BSK", DisableAutoRetire: true, CreditTypeAbbrev: abbrev, AllowedClasses: []string{cid}, Fee: sdk.NewCoins(coin("uregen", 10))})
	}})
	evs = append(evs, E{Name: "Sell(B,batch#0)", Make: func(pre *chain.Snapshot) *explore.Action {
		if len(pre.Batches) == 0 {
			return nil
		}
		return Sell(B, pre.Batches[0].Denom, "1", coin("uregen", 2), true, nil)
	}})
	// one message selling the first and the last batch (possibly of different credit types) for the same denom
	evs = append(evs, E{Name: "Sell(B,batch#0+batch#-1,same-denom)", Make: func(pre *chain.Snapshot) *explore.Action {
		if len(pre.Batches) < 2 {
			return nil
		}
		return SellN(B, "batch#0+batch#-1", SO(pre.Batches[0].Denom, "1", coin("uregen", 2), true, nil), SO(pre.Batches[len(pre.Batches)-1].Denom, "0.5", coin("uregen", 3), true, nil))
	}})
	evs = append(evs, E{Name: "Put(B,basket#0,batch#0)", Make: func(pre *chain.Snapshot) *explore.Action {
		if len(pre.Batches) == 0 || len(pre.Baskets) == 0 {
			return nil
		}
		return Put(B, pre.Baskets[0].BasketDenom, BC(pre.Batches[0].Denom, "1"))
	}})
	exp := map[string]bool{}
	for _, e := range evs {
		exp[e.Name] = true
	}
	return Spec{Name: "ids", Seeds: []explore.Seed{fresh, rollover}, Events: evs, DepthQuick: 5, DepthThor: 6, ExpectFail: exp, MinStates: 500}
}
