package scen

import (
	gogotypes "github.com/cosmos/gogoproto/types"
	"strings"
	"time"

	sdk "github.com/cosmos/cosmos-sdk/types"

	"github.com/regen-network/regen-ledger/x/data/v3"
	basetypes "github.com/regen-network/regen-ledger/x/ecocredit/v3/base/types/v1"
	baskettypes "github.com/regen-network/regen-ledger/x/ecocredit/v3/basket/types/v1"
	markettypes "github.com/regen-network/regen-ledger/x/ecocredit/v3/marketplace/types/v1"

	"verif/harness/chain"
	"verif/harness/explore"
)

// Boundary scenario (C09): inputs at the edges of what message validation
// accepts, plus ordinary credit moves.
func Boundary() Spec {
	epoch := time.Unix(0, 0).UTC()
	e10 := chain.T0.Add(10 * time.Second)
	long := strings.Repeat("m", 256)
	ref32 := strings.Repeat("r", 32)
	g := G.String()
	// the k-th batch of the pre-state by key
	kb := func(pre *chain.Snapshot, k int) string {
		if k < 0 {
			k = len(pre.Batches) + k
		}
		if k < 0 || k >= len(pre.Batches) {
			return ""
		}
		return pre.Batches[k].Denom
	}
	lastBatch := func(name string, f func(denom string) *explore.Action) E {
		return E{Name: name, Make: func(pre *chain.Snapshot) *explore.Action {
			d := kb(pre, -1)
			if d == "" {
				return nil
			}
			a := f(d)
			a.Label = name + "[" + d + "]"
			return a
		}}
	}
	evs := []E{
		fix(CreateBatch(A, "C01-001", date(2022, 5, 5), date(2022, 5, 5), true, nil, Iss(B, "3", "0"))),                                                   // start = end
		fix(CreateBatch(A, "C01-001", epoch, date(1971, 1, 1), true, nil, Iss(B, "3", "0.5"))),                                                            // start at the Unix epoch
		fix(CreateBatch(A, "C01-001", date(1969, 7, 20), date(1969, 7, 21), false, nil, Iss(B, "3", "0"))),                                                // pre-1970, sealed
		fix(CreateBatch(A, "C01-001", date(2022, 1, 1), date(2023, 1, 1), true, &basetypes.OriginTx{Id: "serial-1", Source: "verra"}, Iss(C, "1e0", ""))), // origin tx without contract
		fix(CreateBatch(A, "C01-001", date(1, 1, 1), date(9999, 12, 31), true, &basetypes.OriginTx{Id: TxHash(7), Source: "polygon", Contract: Contract2, Note: strings.Repeat("n", 512)}, Iss(C, "1", "1"))),
		fix(Msg("CreateProject(A,C01,max-lengths)", &basetypes.MsgCreateProject{Admin: A.String(), ClassId: "C01", Metadata: long, Jurisdiction: "US-WA 98225", ReferenceId: ref32})),
		// multi-byte text at the length limits: 128 x "é" is exactly 256 bytes (admitted), 200 x "é" is 200
		// characters but 400 bytes (not admitted by the state validators, which count bytes)
		fix(Msg("UpdateBatchMetadata(A,b1,128xé)", &basetypes.MsgUpdateBatchMetadata{Issuer: A.String(), BatchDenom: B1, NewMetadata: strings.Repeat("é", 128)})),
		fix(Msg("UpdateBatchMetadata(A,b1,200xé)", &basetypes.MsgUpdateBatchMetadata{Issuer: A.String(), BatchDenom: B1, NewMetadata: strings.Repeat("é", 200)})),
		fix(Msg("UpdateProjectMetadata(A,C01-001,200xé)", &basetypes.MsgUpdateProjectMetadata{Admin: A.String(), ProjectId: "C01-001", NewMetadata: strings.Repeat("é", 200)})),
		fix(Msg("UpdateClassMetadata(A,C01,200xé)", &basetypes.MsgUpdateClassMetadata{Admin: A.String(), ClassId: "C01", NewMetadata: strings.Repeat("é", 200)})),
		fix(Msg("CreateProject(A,C01,metadata=200xé)", &basetypes.MsgCreateProject{Admin: A.String(), ClassId: "C01", Metadata: strings.Repeat("é", 200), Jurisdiction: "US-WA"})),
		// one decimal place more than the credit type's precision, through the minting entry point
		MintFresh(A, B1, B, "0.1234567", "0"),
		fix(Msg("CreateClass(A,max-metadata)", &basetypes.MsgCreateClass{Admin: A.String(), Issuers: []string{A.String(), B.String()}, Metadata: long, CreditTypeAbbrev: "C", Fee: pcoin("uregen", 20)})),
		lastBatch("Put(B,NCT,last-batch,1)", func(d string) *explore.Action { return Put(B, NCT, BC(d, "1")) }),
		E{Name: "Put(B,NCT,last-batch,ALL)", Make: func(pre *chain.Snapshot) *explore.Action {
			d := kb(pre, -1)
			if d == "" || tradable(pre, B, d).Sign() == 0 {
				return nil
			}
			a := Put(B, NCT, BC(d, fmtRat(tradable(pre, B, d)))) // the sole holder deposits everything: all balance rows of the batch become zero
			a.Label = "Put(B,NCT,last-batch,ALL)[" + d + "]"
			return a
		}},
		lastBatch("Cancel(B,last-batch,ALL-but-basket)", func(d string) *explore.Action { return Cancel(B, d, "3") }),
		lastBatch("Sell(B,last-batch,sci-notation,no-expiry)", func(d string) *explore.Action { return Sell(B, d, "1.5e0", coin("uregen", 1), true, nil) }),
		lastBatch("Sell(B,last-batch,expiry)", func(d string) *explore.Action { return Sell(B, d, Eps, coin(IBC, 9), false, &e10) }),
		lastBatch("Retire(B,last-batch,0.5)", func(d string) *explore.Action { return Retire(B, d, "0.5") }),
		lastBatch("Cancel(B,last-batch,0.25)", func(d string) *explore.Action { return Cancel(B, d, "0.25") }),
		lastBatch("Send(B->D,last-batch)", func(d string) *explore.Action { return Send(B, D, d, "0.75", "0.25") }),
		fix(Take(B, NCT, "1500000", false)),
		fix(Msg("DefineResolver(B,public)", &data.MsgDefineResolver{Definer: B.String(), ResolverUrl: "https://pub.example", Public: true})),
		fix(Msg("DefineResolver(C,private)", &data.MsgDefineResolver{Definer: C.String(), ResolverUrl: "https://priv.example", Public: false})),
		// the shortest URL the message validation accepts, and one with a trailing slash
		fix(Msg("DefineResolver(C,url=/)", &data.MsgDefineResolver{Definer: C.String(), ResolverUrl: "/", Public: false})),
		fix(Msg("DefineResolver(D,url=trailing-slash)", &data.MsgDefineResolver{Definer: D.String(), ResolverUrl: "https://priv.example/", Public: false})),
		fix(Msg("Anchor(B,R1)", &data.MsgAnchor{Sender: B.String(), ContentHash: RawHash(1)})),
		fix(Msg("Anchor(B,raw,digest-algorithm=2)", &data.MsgAnchor{Sender: B.String(), ContentHash: &data.ContentHash{Raw: &data.ContentHash_Raw{Hash: make([]byte, 32), DigestAlgorithm: 2, FileExtension: "bin"}}})),
		fix(Msg("Anchor(B,raw,64-byte-hash,digest-algorithm=255)", &data.MsgAnchor{Sender: B.String(), ContentHash: &data.ContentHash{Raw: &data.ContentHash_Raw{Hash: make([]byte, 64), DigestAlgorithm: 255, FileExtension: "a1"}}})),
		fix(Msg("Anchor(C,graph,20-byte-hash,c14n=255,merkle=255)", &data.MsgAnchor{Sender: C.String(), ContentHash: &data.ContentHash{Graph: &data.ContentHash_Graph{Hash: make([]byte, 20), DigestAlgorithm: 7, CanonicalizationAlgorithm: 255, MerkleTree: 255}}})),
		fix(Msg("Attest(C,G1)", &data.MsgAttest{Attestor: C.String(), ContentHashes: []*data.ContentHash_Graph{GraphHash(1)}})),
		fix(Msg("RegisterResolver(B,#1,R2)", &data.MsgRegisterResolver{Signer: B.String(), ResolverId: 1, ContentHashes: []*data.ContentHash{RawHash(2)}})),
		fix(Msg("UpdateClassFee(0uregen)", &basetypes.MsgUpdateClassFee{Authority: g, Fee: pcoin("uregen", 0)})),
		fix(Msg("UpdateClassFee(nil)", &basetypes.MsgUpdateClassFee{Authority: g})),
		fix(Msg("UpdateBasketFee(0uregen)", &baskettypes.MsgUpdateBasketFee{Authority: g, Fee: pcoin("uregen", 0)})),
		fix(GovFeeParams(G, "0", "0.0")),
		fix(GovFeeParams(G, "0.000000000000000001", "1")),
		fix(Msg("SetClassCreatorAllowlist(on)", &basetypes.MsgSetClassCreatorAllowlist{Authority: g, Enabled: true})),
		fix(Msg("RemoveAllowedDenom(uregen)", &markettypes.MsgRemoveAllowedDenom{Authority: g, Denom: "uregen"})),
		fix(Msg("RemoveAllowedBridgeChain(polygon)", &basetypes.MsgRemoveAllowedBridgeChain{Authority: g, ChainName: "polygon"})),
		fix(Msg("basket.Create(A,criteria=window)", &baskettypes.MsgCreate{Curator: A.String(), Name: "WIN", CreditTypeAbbrev: "C", AllowedClasses: []string{"C01", "C02"},
			DateCriteria: &baskettypes.DateCriteria{StartDateWindow: gdur(24 * time.Hour)}, Fee: sdk.NewCoins(coin("uregen", 10)), Description: strings.Repeat("d", 256)})),
		// timestamps / durations whose nanos field is outside 0..999999999 (not a valid protobuf value)
		fix(Msg("basket.Create(A,criteria=min-date-with-nanos-2e9)", &baskettypes.MsgCreate{Curator: A.String(), Name: "NAN", CreditTypeAbbrev: "C", AllowedClasses: []string{"C01"},
			DateCriteria: &baskettypes.DateCriteria{MinStartDate: &gogotypes.Timestamp{Seconds: 1577836800, Nanos: 2000000000}}, Fee: sdk.NewCoins(coin("uregen", 10))})),
		fix(Msg("UpdateDateCriteria(NCT,window-with-nanos-2e9)", &baskettypes.MsgUpdateDateCriteria{Authority: g, Denom: NCT, NewDateCriteria: &baskettypes.DateCriteria{StartDateWindow: &gogotypes.Duration{Seconds: 86400, Nanos: 2000000000}}})),
		fix(Msg("UpdateDateCriteria(NCT,min-date-with-negative-nanos)", &baskettypes.MsgUpdateDateCriteria{Authority: g, Denom: NCT, NewDateCriteria: &baskettypes.DateCriteria{MinStartDate: &gogotypes.Timestamp{Seconds: 1577836800, Nanos: -1}}})),
		fix(Msg("UpdateDateCriteria(NCT,min=1900-01-01)", &baskettypes.MsgUpdateDateCriteria{Authority: g, Denom: NCT, NewDateCriteria: &baskettypes.DateCriteria{MinStartDate: gts(date(1900, 1, 1))}})),
		fix(Msg("UpdateDateCriteria(NCT,years=100)", &baskettypes.MsgUpdateDateCriteria{Authority: g, Denom: NCT, NewDateCriteria: &baskettypes.DateCriteria{YearsInThePast: 100}})),
		fix(BridgeReceive(A, "C01", "VCS-1", C, "0.000001", epoch, epoch, &basetypes.OriginTx{Id: TxHash(3), Source: "Polygon", Contract: Contract1})),
		fix(Seal(A, B1)),
		fix(Next(11 * time.Second)),
	}
	exp := map[string]bool{}
	for _, e := range evs {
		exp[e.Name] = true
	}
	return Spec{Name: "boundary", Seeds: []explore.Seed{PreparedSeed("prepared"), FreshSeed("fresh")}, Events: evs, DepthQuick: 2, DepthThor: 3, ExpectFail: exp, MinStates: 300}
}
