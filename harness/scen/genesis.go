package scen

import (
	"encoding/json"
	"fmt"

	sdk "github.com/cosmos/cosmos-sdk/types"

	"verif/harness/chain"
	"verif/harness/explore"
)

// GenDoc is an ORM genesis document: table name -> JSON.
type GenDoc map[string]json.RawMessage

// ExportEco exports the ecocredit genesis of ctx as a patchable document.
func ExportEco(c *chain.Chain, ctx sdk.Context) GenDoc {
	var d GenDoc
	if err := json.Unmarshal(c.Eco.ExportGenesis(ctx, c.Cdc), &d); err != nil {
		panic(err)
	}
	return d
}

// Set replaces a table.
func (d GenDoc) Set(table string, v interface{}) {
	bz, err := json.Marshal(v)
	if err != nil {
		panic(err)
	}
	d[table] = bz
}

// JSON renders the document.
func (d GenDoc) JSON() json.RawMessage {
	bz, err := json.Marshal(d)
	if err != nil {
		panic(err)
	}
	return bz
}

// GenesisSeed builds a seed by (1) running builder messages on a scratch
// chain, (2) exporting ecocredit genesis, (3) patching it, (4) checking that
// the module's own ValidateGenesis accepts the document, and (5) importing it
// into the real (fresh) chain together with the bank balances of the scratch
// chain. Seeds of this kind are "hand-written valid genesis documents".
func GenesisSeed(name string, build []*explore.Action, patch func(d GenDoc)) explore.Seed {
	return GenesisSeedWithData(name, build, patch, nil)
}

// GenesisSeedWithData is GenesisSeed with a patch of the DATA module's genesis document as well (which must
// pass that module's own ValidateGenesis).
func GenesisSeedWithData(name string, build []*explore.Action, patch func(d GenDoc), patchData func(d GenDoc)) explore.Seed {
	return explore.Seed{Name: name, Build: func(c *chain.Chain) sdk.Context {
		sc := chain.New(chain.Options{})
		sctx := sc.BaseContext(chain.T0, 1)
		sc.InitGenesis(sctx, chain.Genesis{Balances: StdFunds()})
		sctx = mustRun(sc, sctx, build...)
		doc := ExportEco(sc, sctx)
		if patch != nil {
			patch(doc)
		}
		if err := c.Eco.ValidateGenesis(c.Cdc, nil, doc.JSON()); err != nil {
			panic(fmt.Sprintf("genesis seed %s is not valid: %v", name, err))
		}
		dataGen, err := sc.DataSrv.ExportGenesis(sctx, sc.Cdc)
		if err != nil {
			panic(err)
		}
		if patchData != nil {
			var dd GenDoc
			if err := json.Unmarshal(dataGen, &dd); err != nil {
				panic(err)
			}
			if dd == nil {
				dd = GenDoc{}
			}
			patchData(dd)
			dataGen = dd.JSON()
			if err := c.DataMod.ValidateGenesis(c.Cdc, nil, dataGen); err != nil {
				panic(fmt.Sprintf("genesis seed %s: data genesis is not valid: %v", name, err))
			}
		}
		// carry bank balances over (basket token supply must match basket balances)
		bal := map[string]sdk.Coins{}
		snap := sc.Snap(sctx)
		for a, cs := range snap.Coins {
			var coins sdk.Coins
			for d, v := range cs {
				coins = coins.Add(sdk.NewCoin(d, sdk.NewIntFromBigInt(v)))
			}
			bal[a] = coins
		}
		ctx := c.BaseContext(chain.T0, 1)
		c.InitGenesis(ctx, chain.Genesis{Ecocredit: doc.JSON(), Data: dataGen, Balances: bal})
		return ctx
	}}
}
