package scen

import (
	"fmt"
	"math/big"
	"strings"
	"time"

	sdk "github.com/cosmos/cosmos-sdk/types"

	basetypes "github.com/regen-network/regen-ledger/x/ecocredit/v3/base/types/v1"
	baskettypes "github.com/regen-network/regen-ledger/x/ecocredit/v3/basket/types/v1"
	markettypes "github.com/regen-network/regen-ledger/x/ecocredit/v3/marketplace/types/v1"

	"verif/harness/chain"
	"verif/harness/explore"
	"verif/harness/ref"
)

type E = explore.Event

func fix(a *explore.Action) E { return explore.Fixed(a) }

func n(a sdk.AccAddress) string { return Name(a.String()) }

// Big is the 34-significant-digit amount used where the property asks for
// "very large" values.
const Big = "9999999999999999999999999999.999999"

// Big35 needs 35 significant digits once multiplied by 10^6.
const Big35 = "12345678901234567890123456787.623456"

// Eps is the smallest credit unit at precision 6.
const Eps = "0.000001"

// Big35b has 35 significant digits and ends in a digit that rounding at 34 digits changes.
const Big35b = "12345678901234567890123456789.000003"

func fmtRat(r *big.Rat) string {
	s := r.FloatString(6)
	if strings.Contains(s, ".") {
		s = strings.TrimRight(strings.TrimRight(s, "0"), ".")
	}
	return s
}

// tradable balance of addr in denom in pre (0 if none).
func tradable(pre *chain.Snapshot, addr sdk.AccAddress, denom string) *big.Rat {
	b := pre.BatchByDenom(denom)
	if b == nil {
		return ref.Zero()
	}
	bal := pre.Balance(addr, b.Key)
	if bal == nil {
		return ref.Zero()
	}
	d, err := ref.Parse(bal.TradableAmount)
	if err != nil {
		return ref.Zero()
	}
	return d.R
}

/* ---------- base messages ---------- */

func Send(from, to sdk.AccAddress, denom, trad, ret string) *explore.Action {
	c := &basetypes.MsgSend_SendCredits{BatchDenom: denom, TradableAmount: trad, RetiredAmount: ret}
	if ret != "" && ret != "0" {
		c.RetirementJurisdiction = "US-WA"
	}
	return Msg(fmt.Sprintf("Send(%s->%s,%s,t=%s,r=%s)", n(from), n(to), denom, trad, ret),
		&basetypes.MsgSend{Sender: from.String(), Recipient: to.String(), Credits: []*basetypes.MsgSend_SendCredits{c}})
}

// SendSpelled is Send with the recipient given as a string (another valid spelling of an address, for
// example all upper-case bech32, denotes the same account).
func SendSpelled(from sdk.AccAddress, to, tag, denom, trad, ret string) *explore.Action {
	c := &basetypes.MsgSend_SendCredits{BatchDenom: denom, TradableAmount: trad, RetiredAmount: ret}
	if ret != "" && ret != "0" {
		c.RetirementJurisdiction = "US-WA"
	}
	return Msg(fmt.Sprintf("Send(%s->%s,%s,t=%s,r=%s)", n(from), tag, denom, trad, ret),
		&basetypes.MsgSend{Sender: from.String(), Recipient: to, Credits: []*basetypes.MsgSend_SendCredits{c}})
}

// SendAll sends the sender's whole tradable balance plus delta.
func SendAll(from, to sdk.AccAddress, denom string, delta string, retired bool) E {
	name := fmt.Sprintf("Send(%s->%s,%s,all+%s,retired=%v)", n(from), n(to), denom, delta, retired)
	return E{Name: name, Make: func(pre *chain.Snapshot) *explore.Action {
		amt := fmtRat(ref.Add(tradable(pre, from, denom), ref.MustRat(delta)))
		var a *explore.Action
		if retired {
			a = Send(from, to, denom, "0", amt)
		} else {
			a = Send(from, to, denom, amt, "0")
		}
		a.Label = name + "=" + amt
		return a
	}}
}

func Retire(owner sdk.AccAddress, denom, amt string) *explore.Action {
	return Msg(fmt.Sprintf("Retire(%s,%s,%s)", n(owner), denom, amt),
		&basetypes.MsgRetire{Owner: owner.String(), Jurisdiction: "US-WA", Reason: "r", Credits: []*basetypes.Credits{{BatchDenom: denom, Amount: amt}}})
}

func RetireAll(owner sdk.AccAddress, denom string) E {
	name := fmt.Sprintf("Retire(%s,%s,all)", n(owner), denom)
	return E{Name: name, Make: func(pre *chain.Snapshot) *explore.Action {
		a := Retire(owner, denom, fmtRat(tradable(pre, owner, denom)))
		a.Label = name + "=" + fmtRat(tradable(pre, owner, denom))
		return a
	}}
}

func Cancel(owner sdk.AccAddress, denom, amt string) *explore.Action {
	return Msg(fmt.Sprintf("Cancel(%s,%s,%s)", n(owner), denom, amt),
		&basetypes.MsgCancel{Owner: owner.String(), Reason: "r", Credits: []*basetypes.Credits{{BatchDenom: denom, Amount: amt}}})
}

func Mint(issuer sdk.AccAddress, denom string, to sdk.AccAddress, trad, ret string, origin *basetypes.OriginTx) *explore.Action {
	iss := &basetypes.BatchIssuance{Recipient: to.String(), TradableAmount: trad, RetiredAmount: ret}
	if ret != "" && ret != "0" {
		iss.RetirementJurisdiction = "US-WA"
	}
	lbl := fmt.Sprintf("Mint(%s,%s,to=%s,t=%s,r=%s", n(issuer), denom, n(to), trad, ret)
	if origin != nil {
		lbl += ",tx=" + short(origin.Id) + "@" + origin.Source
	}
	return Msg(lbl+")", &basetypes.MsgMintBatchCredits{Issuer: issuer.String(), BatchDenom: denom, Issuance: []*basetypes.BatchIssuance{iss}, OriginTx: origin})
}

// MintFresh mints with an origin tx id that has not been used yet in the
// pre-state (Mint requires an origin tx, and each can be used once per class).
func MintFresh(issuer sdk.AccAddress, denom string, to sdk.AccAddress, trad, ret string) E {
	name := fmt.Sprintf("Mint(%s,%s,to=%s,t=%s,r=%s,tx=fresh)", n(issuer), denom, n(to), trad, ret)
	return E{Name: name, Make: func(pre *chain.Snapshot) *explore.Action {
		a := Mint(issuer, denom, to, trad, ret, &basetypes.OriginTx{Id: fmt.Sprintf("verra-%d", len(pre.OriginTxs)+1), Source: "verra"})
		a.Label = fmt.Sprintf("%s#%d", name, len(pre.OriginTxs)+1)
		return a
	}}
}

func short(s string) string {
	if len(s) > 8 {
		return s[len(s)-4:]
	}
	return s
}

func CreateBatch(issuer sdk.AccAddress, project string, start, end time.Time, open bool, origin *basetypes.OriginTx, iss ...*basetypes.BatchIssuance) *explore.Action {
	lbl := fmt.Sprintf("CreateBatch(%s,%s,%s..%s,open=%v,n=%d", n(issuer), project, start.Format("20060102"), end.Format("20060102"), open, len(iss))
	if origin != nil {
		lbl += ",tx=" + short(origin.Id) + "@" + origin.Source + "/" + short(origin.Contract)
	}
	return Msg(lbl+")", &basetypes.MsgCreateBatch{Issuer: issuer.String(), ProjectId: project, Metadata: "m", Open: open,
		StartDate: &start, EndDate: &end, Issuance: iss, OriginTx: origin})
}

func Iss(to sdk.AccAddress, trad, ret string) *basetypes.BatchIssuance {
	i := &basetypes.BatchIssuance{Recipient: to.String(), TradableAmount: trad, RetiredAmount: ret}
	if ret != "" && ret != "0" {
		i.RetirementJurisdiction = "US-WA"
	}
	return i
}

func Seal(issuer sdk.AccAddress, denom string) *explore.Action {
	return Msg(fmt.Sprintf("Seal(%s,%s)", n(issuer), denom), &basetypes.MsgSealBatch{Issuer: issuer.String(), BatchDenom: denom})
}

func BridgeReceive(issuer sdk.AccAddress, class, refID string, to sdk.AccAddress, amt string, start, end time.Time, origin *basetypes.OriginTx) *explore.Action {
	return Msg(fmt.Sprintf("BridgeReceive(%s,%s,ref=%s,to=%s,%s,tx=%s@%s/%s)", n(issuer), class, refID, n(to), amt, short(origin.Id), origin.Source, short(origin.Contract)),
		&basetypes.MsgBridgeReceive{Issuer: issuer.String(), ClassId: class,
			Project:  &basetypes.MsgBridgeReceive_Project{ReferenceId: refID, Jurisdiction: "KE", Metadata: "pm"},
			Batch:    &basetypes.MsgBridgeReceive_Batch{Recipient: to.String(), Amount: amt, StartDate: &start, EndDate: &end, Metadata: "bm"},
			OriginTx: origin})
}

func Bridge(owner sdk.AccAddress, target string, credits ...*basetypes.Credits) *explore.Action {
	lbl := fmt.Sprintf("Bridge(%s,%s", n(owner), target)
	for _, c := range credits {
		lbl += "," + c.BatchDenom + ":" + c.Amount
	}
	return Msg(lbl+")", &basetypes.MsgBridge{Owner: owner.String(), Target: target, Recipient: "0x71C7656EC7ab88b098defB751B7401B5f6d8976F", Credits: credits})
}

func Cr(denom, amt string) *basetypes.Credits {
	return &basetypes.Credits{BatchDenom: denom, Amount: amt}
}

/* ---------- basket ---------- */

func Put(owner sdk.AccAddress, basket string, credits ...*baskettypes.BasketCredit) *explore.Action {
	lbl := fmt.Sprintf("Put(%s,%s", n(owner), basket)
	for _, c := range credits {
		lbl += "," + c.BatchDenom + ":" + c.Amount
	}
	return Msg(lbl+")", &baskettypes.MsgPut{Owner: owner.String(), BasketDenom: basket, Credits: credits})
}

func BC(denom, amt string) *baskettypes.BasketCredit {
	return &baskettypes.BasketCredit{BatchDenom: denom, Amount: amt}
}

func Take(owner sdk.AccAddress, basket, tokens string, retire bool) *explore.Action {
	m := &baskettypes.MsgTake{Owner: owner.String(), BasketDenom: basket, Amount: tokens, RetireOnTake: retire}
	if retire {
		m.RetirementJurisdiction = "US-WA"
		m.RetirementReason = "r"
	}
	return Msg(fmt.Sprintf("Take(%s,%s,%s,retire=%v)", n(owner), basket, tokens, retire), m)
}

// TakeAll takes the owner's whole token balance.
func TakeAll(owner sdk.AccAddress, basket string, retire bool) E {
	name := fmt.Sprintf("Take(%s,%s,all,retire=%v)", n(owner), basket, retire)
	return E{Name: name, Make: func(pre *chain.Snapshot) *explore.Action {
		amt := pre.Coin(owner.String(), basket)
		if amt.Sign() == 0 {
			return nil
		}
		a := Take(owner, basket, amt.String(), retire)
		a.Label = name + "=" + amt.String()
		return a
	}}
}

/* ---------- marketplace ---------- */

func Sell(seller sdk.AccAddress, denom, qty string, ask sdk.Coin, disableAutoRetire bool, exp *time.Time) *explore.Action {
	e := "none"
	if exp != nil {
		e = "T0+" + exp.Sub(chain.T0).String()
	}
	return Msg(fmt.Sprintf("Sell(%s,%s,q=%s,ask=%s,dar=%v,exp=%s)", n(seller), denom, qty, shortCoin(ask), disableAutoRetire, e),
		&markettypes.MsgSell{Seller: seller.String(), Orders: []*markettypes.MsgSell_Order{
			{BatchDenom: denom, Quantity: qty, AskPrice: &ask, DisableAutoRetire: disableAutoRetire, Expiration: exp}}})
}

func shortCoin(c sdk.Coin) string {
	d := c.Denom
	if strings.HasPrefix(d, "ibc/") {
		d = "ibc"
	}
	return c.Amount.String() + d
}

// OrderSel picks an order id from the pre-state: the k-th lowest open order id of seller.
func OrderSel(pre *chain.Snapshot, seller sdk.AccAddress, k int) (uint64, bool) {
	if k < 0 { // -1 = the seller's last order
		var ids []uint64
		for _, o := range pre.SellOrders {
			if string(o.Seller) == string(seller) {
				ids = append(ids, o.Id)
			}
		}
		if len(ids)+k < 0 {
			return 0, false
		}
		return ids[len(ids)+k], true
	}
	i := 0
	for _, o := range pre.SellOrders { // primary-key order == ascending id
		if string(o.Seller) == string(seller) {
			if i == k {
				return o.Id, true
			}
			i++
		}
	}
	return 0, false
}

// UpdateOrder updates the k-th open order of seller.
func UpdateOrder(signer, seller sdk.AccAddress, k int, newQty string, newAsk *sdk.Coin, dar bool, exp *time.Time) E {
	e := "none"
	if exp != nil {
		e = "T0+" + exp.Sub(chain.T0).String()
	}
	ask := "-"
	if newAsk != nil {
		ask = shortCoin(*newAsk)
	}
	name := fmt.Sprintf("UpdateSellOrder(%s,order#%d-of-%s,q=%s,ask=%s,dar=%v,exp=%s)", n(signer), k, n(seller), newQty, ask, dar, e)
	return E{Name: name, Make: func(pre *chain.Snapshot) *explore.Action {
		id, ok := OrderSel(pre, seller, k)
		if !ok {
			return nil
		}
		// the message requires both quantity and ask price: "" / nil mean "keep the current one"
		o := pre.Order(id)
		q, ap := newQty, newAsk
		if q == "" {
			q = o.Quantity
		}
		if ap == nil {
			amt, _ := sdk.NewIntFromString(o.AskAmount)
			den := "uregen"
			if mk := pre.Market(o.MarketId); mk != nil {
				den = mk.BankDenom
			}
			ap = &sdk.Coin{Denom: den, Amount: amt}
		}
		return Msg(fmt.Sprintf("%s[id=%d]", name, id), &markettypes.MsgUpdateSellOrders{Seller: signer.String(), Updates: []*markettypes.MsgUpdateSellOrders_Update{
			{SellOrderId: id, NewQuantity: q, NewAskPrice: ap, DisableAutoRetire: dar, NewExpiration: exp}}})
	}}
}

// CancelOrder cancels the k-th open order of seller, signed by signer.
func CancelOrder(signer, seller sdk.AccAddress, k int) E {
	name := fmt.Sprintf("CancelSellOrder(%s,order#%d-of-%s)", n(signer), k, n(seller))
	return E{Name: name, Make: func(pre *chain.Snapshot) *explore.Action {
		id, ok := OrderSel(pre, seller, k)
		if !ok {
			return nil
		}
		return Msg(fmt.Sprintf("%s[id=%d]", name, id), &markettypes.MsgCancelSellOrder{Seller: signer.String(), SellOrderId: id})
	}}
}

// BuySpec describes one order of a BuyDirect relative to the pre-state.
type BuySpec struct {
	Seller sdk.AccAddress
	K      int    // k-th open order of Seller
	Qty    string // "" => whole remaining quantity; "+eps" => whole + 0.000001
	BidAdj int64  // bid amount = ask + BidAdj
	BidDen string // "" => ask denom
	DAR    bool   // disable auto retire
	MaxFee *int64 // nil => absent (unless FeeMode is set)
	// FeeMode computes the max fee from the pre-state: "floor" = the buyer fee
	// rounded down, "floor-1", "zero", "large", "other-denom"; "" => use MaxFee.
	FeeMode string
}

// Buy builds a BuyDirect for one or more order specs.
func Buy(buyer sdk.AccAddress, tag string, specs ...BuySpec) E {
	name := fmt.Sprintf("BuyDirect(%s,%s)", n(buyer), tag)
	return E{Name: name, Make: func(pre *chain.Snapshot) *explore.Action {
		var orders []*markettypes.MsgBuyDirect_Order
		lbl := name + "["
		for _, sp := range specs {
			id, ok := OrderSel(pre, sp.Seller, sp.K)
			if !ok {
				return nil
			}
			o := pre.Order(id)
			mk := pre.Market(o.MarketId)
			den := sp.BidDen
			if den == "" && mk != nil {
				den = mk.BankDenom
			}
			ask, _ := new(big.Int).SetString(o.AskAmount, 10)
			if ask == nil {
				ask = new(big.Int)
			}
			bid := new(big.Int).Add(ask, big.NewInt(sp.BidAdj))
			if bid.Sign() <= 0 {
				bid = big.NewInt(1)
			}
			qty := sp.Qty
			// the stored quantity is read with the reference parser; if it is not a decimal numeral
			// (a violation the monitors report) the derived spellings are not applicable
			oq, oerr := ref.Parse(o.Quantity)
			if oerr != nil && (qty == "+eps" || qty == "=padded" || qty == "=sci") {
				return nil
			}
			switch qty {
			case "":
				qty = o.Quantity
			case "+eps":
				qty = fmtRat(ref.Add(oq.R, ref.MustRat(Eps)))
			case "=padded":
				// the whole remaining quantity, spelled with six decimal places (trailing zeros)
				qty = oq.R.FloatString(6)
			case "=sci":
				// the whole remaining quantity in scientific notation (value x 10 with exponent -1)
				qty = fmtRat(ref.Mul(oq.R, ref.MustRat("10"))) + "e-1"
			}
			bo := &markettypes.MsgBuyDirect_Order{SellOrderId: id, Quantity: qty,
				BidPrice: &sdk.Coin{Denom: den, Amount: sdk.NewIntFromBigInt(bid)}, DisableAutoRetire: sp.DAR}
			if !sp.DAR {
				bo.RetirementJurisdiction = "US-WA"
				bo.RetirementReason = "r"
			}
			if sp.MaxFee != nil {
				bo.MaxFeeAmount = &sdk.Coin{Denom: den, Amount: sdk.NewInt(*sp.MaxFee)}
			}
			if sp.FeeMode != "" {
				rb := ref.Zero()
				if pre.FeeParams != nil && pre.FeeParams.BuyerPercentageFee != "" {
					if d, err := ref.Parse(pre.FeeParams.BuyerPercentageFee); err == nil {
						rb = d.R
					}
				}
				q, err := ref.Parse(qty)
				fl := new(big.Int)
				if err == nil {
					fl = ref.TruncInt(ref.Mul(ref.Mul(q.R, ref.RatOfInt(ask)), rb))
				}
				switch sp.FeeMode {
				case "floor":
					bo.MaxFeeAmount = &sdk.Coin{Denom: den, Amount: sdk.NewIntFromBigInt(fl)}
				case "floor-1":
					if fl.Sign() <= 0 {
						return nil // no smaller non-negative fee exists
					}
					bo.MaxFeeAmount = &sdk.Coin{Denom: den, Amount: sdk.NewIntFromBigInt(new(big.Int).Sub(fl, big.NewInt(1)))}
				case "zero":
					bo.MaxFeeAmount = &sdk.Coin{Denom: den, Amount: sdk.NewInt(0)}
				case "large":
					bo.MaxFeeAmount = &sdk.Coin{Denom: den, Amount: sdk.NewInt(1_000_000_000)}
				case "other-denom":
					bo.MaxFeeAmount = &sdk.Coin{Denom: "stake", Amount: sdk.NewInt(1_000_000_000)}
				}
			}
			orders = append(orders, bo)
			lbl += fmt.Sprintf("id=%d,q=%s,bid=%s;", id, qty, bid)
		}
		return Msg(lbl+"]", &markettypes.MsgBuyDirect{Buyer: buyer.String(), Orders: orders})
	}}
}

func I64(v int64) *int64 { return &v }

/* ---------- governance ---------- */

func GovFeeParams(signer sdk.AccAddress, buyer, seller string) *explore.Action {
	return Msg(fmt.Sprintf("GovSetFeeParams(%s,b=%q,s=%q)", n(signer), buyer, seller),
		&markettypes.MsgGovSetFeeParams{Authority: signer.String(), Fees: &markettypes.FeeParams{BuyerPercentageFee: buyer, SellerPercentageFee: seller}})
}

func GovSendFromPool(signer, to sdk.AccAddress, coins ...sdk.Coin) *explore.Action {
	return Msg(fmt.Sprintf("GovSendFromFeePool(%s,to=%s,%s)", n(signer), n(to), sdk.NewCoins(coins...)),
		&markettypes.MsgGovSendFromFeePool{Authority: signer.String(), Recipient: to.String(), Coins: sdk.NewCoins(coins...)})
}

func BurnRegen(burner sdk.AccAddress, amt string) *explore.Action {
	return Msg(fmt.Sprintf("BurnRegen(%s,%s)", n(burner), amt), &basetypes.MsgBurnRegen{Burner: burner.String(), Amount: amt, Reason: "r"})
}

type buyOrder struct {
	id  uint64
	qty string
	bid sdk.Coin
	dar bool
}

// mkBuy is a BuyDirect with explicit order ids (for seeds).
func mkBuy(buyer sdk.AccAddress, os ...buyOrder) *explore.Action {
	var orders []*markettypes.MsgBuyDirect_Order
	for _, o := range os {
		bid := o.bid
		bo := &markettypes.MsgBuyDirect_Order{SellOrderId: o.id, Quantity: o.qty, BidPrice: &bid, DisableAutoRetire: o.dar,
			MaxFeeAmount: &sdk.Coin{Denom: bid.Denom, Amount: sdk.NewInt(1_000_000_000)}}
		if !o.dar {
			bo.RetirementJurisdiction = "US-WA"
		}
		orders = append(orders, bo)
	}
	return Msg(fmt.Sprintf("seed:buy(%s,%d orders)", n(buyer), len(os)), &markettypes.MsgBuyDirect{Buyer: buyer.String(), Orders: orders})
}

// mkUpdate is an UpdateSellOrders with an explicit id (for seeds).
func mkUpdate(seller sdk.AccAddress, id uint64, qty string, ask sdk.Coin, dar bool) *explore.Action {
	return Msg(fmt.Sprintf("seed:update(%d,q=%s,ask=%s)", id, qty, shortCoin(ask)), &markettypes.MsgUpdateSellOrders{Seller: seller.String(),
		Updates: []*markettypes.MsgUpdateSellOrders_Update{{SellOrderId: id, NewQuantity: qty, NewAskPrice: &ask, DisableAutoRetire: dar}}})
}

// MkBuyMsg is a single-order BuyDirect message with an explicit order id.
func MkBuyMsg(buyer sdk.AccAddress, id uint64, qty string, bid sdk.Coin, dar bool) sdk.Msg {
	return mkBuy(buyer, buyOrder{id, qty, bid, dar}).Msg
}

/* ---------- messages with several items (duplicates inside one message) ---------- */

// SendN sends several credit entries in one message.
func SendN(from, to sdk.AccAddress, credits ...*basetypes.MsgSend_SendCredits) *explore.Action {
	lbl := fmt.Sprintf("Send(%s->%s", n(from), n(to))
	for _, c := range credits {
		lbl += fmt.Sprintf(",%s:t=%s/r=%s", c.BatchDenom, c.TradableAmount, c.RetiredAmount)
		if c.RetiredAmount != "" && c.RetiredAmount != "0" {
			c.RetirementJurisdiction = "US-WA"
		}
	}
	return Msg(lbl+")", &basetypes.MsgSend{Sender: from.String(), Recipient: to.String(), Credits: credits})
}

func SC(denom, trad, ret string) *basetypes.MsgSend_SendCredits {
	return &basetypes.MsgSend_SendCredits{BatchDenom: denom, TradableAmount: trad, RetiredAmount: ret}
}

// RetireN / CancelN with several credit entries.
func RetireN(owner sdk.AccAddress, credits ...*basetypes.Credits) *explore.Action {
	lbl := fmt.Sprintf("Retire(%s", n(owner))
	for _, c := range credits {
		lbl += "," + c.BatchDenom + ":" + c.Amount
	}
	return Msg(lbl+")", &basetypes.MsgRetire{Owner: owner.String(), Jurisdiction: "US-WA", Reason: "r", Credits: credits})
}

func CancelN(owner sdk.AccAddress, credits ...*basetypes.Credits) *explore.Action {
	lbl := fmt.Sprintf("Cancel(%s", n(owner))
	for _, c := range credits {
		lbl += "," + c.BatchDenom + ":" + c.Amount
	}
	return Msg(lbl+")", &basetypes.MsgCancel{Owner: owner.String(), Reason: "r", Credits: credits})
}

// MintN mints several issuances with a fresh origin tx.
func MintN(issuer sdk.AccAddress, denom string, iss ...*basetypes.BatchIssuance) E {
	name := fmt.Sprintf("Mint(%s,%s,%d issuances,tx=fresh)", n(issuer), denom, len(iss))
	return E{Name: name, Make: func(pre *chain.Snapshot) *explore.Action {
		return Msg(fmt.Sprintf("%s#%d", name, len(pre.OriginTxs)+1), &basetypes.MsgMintBatchCredits{Issuer: issuer.String(), BatchDenom: denom, Issuance: iss,
			OriginTx: &basetypes.OriginTx{Id: fmt.Sprintf("verra-%d", len(pre.OriginTxs)+1), Source: "verra"}})
	}}
}

// SellN creates several orders in one message.
func SellN(seller sdk.AccAddress, tag string, orders ...*markettypes.MsgSell_Order) *explore.Action {
	return Msg(fmt.Sprintf("Sell(%s,%s,%d orders)", n(seller), tag, len(orders)), &markettypes.MsgSell{Seller: seller.String(), Orders: orders})
}

func SO(denom, qty string, ask sdk.Coin, dar bool, exp *time.Time) *markettypes.MsgSell_Order {
	return &markettypes.MsgSell_Order{BatchDenom: denom, Quantity: qty, AskPrice: &ask, DisableAutoRetire: dar, Expiration: exp}
}

// UpdateTwice updates the k-th order of seller twice in ONE message.
func UpdateTwice(seller sdk.AccAddress, k int, q1, q2 string) E {
	name := fmt.Sprintf("UpdateSellOrders(%s,order#%d twice,q=%s then %s)", n(seller), k, q1, q2)
	return E{Name: name, Make: func(pre *chain.Snapshot) *explore.Action {
		id, ok := OrderSel(pre, seller, k)
		if !ok {
			return nil
		}
		o := pre.Order(id)
		amt, _ := sdk.NewIntFromString(o.AskAmount)
		den := "uregen"
		if mk := pre.Market(o.MarketId); mk != nil {
			den = mk.BankDenom
		}
		mkU := func(q string) *markettypes.MsgUpdateSellOrders_Update {
			return &markettypes.MsgUpdateSellOrders_Update{SellOrderId: id, NewQuantity: q, NewAskPrice: &sdk.Coin{Denom: den, Amount: amt}, DisableAutoRetire: o.DisableAutoRetire}
		}
		return Msg(fmt.Sprintf("%s[id=%d]", name, id), &markettypes.MsgUpdateSellOrders{Seller: seller.String(), Updates: []*markettypes.MsgUpdateSellOrders_Update{mkU(q1), mkU(q2)}})
	}}
}

// UpdateTwiceThenForeign: one MsgUpdateSellOrders naming the signer's own k-th order twice and then the first
// order of ANOTHER seller (duplicates are admitted by the stateless validation; the foreign order must make the
// whole message fail).
func UpdateTwiceThenForeign(signer sdk.AccAddress, k int, victim sdk.AccAddress) E {
	name := fmt.Sprintf("UpdateSellOrders(%s,own order#%d twice then %s's first order)", n(signer), k, n(victim))
	return E{Name: name, Make: func(pre *chain.Snapshot) *explore.Action {
		id, ok := OrderSel(pre, signer, k)
		vid, vok := OrderSel(pre, victim, 0)
		if !ok || !vok {
			return nil
		}
		mkU := func(id uint64, q string, price int64) *markettypes.MsgUpdateSellOrders_Update {
			o := pre.Order(id)
			den := "uregen"
			if mk := pre.Market(o.MarketId); mk != nil {
				den = mk.BankDenom
			}
			amt, _ := sdk.NewIntFromString(o.AskAmount)
			if price > 0 {
				amt = sdk.NewInt(price)
			}
			if q == "" {
				q = o.Quantity
			}
			return &markettypes.MsgUpdateSellOrders_Update{SellOrderId: id, NewQuantity: q, NewAskPrice: &sdk.Coin{Denom: den, Amount: amt}, DisableAutoRetire: o.DisableAutoRetire}
		}
		return Msg(fmt.Sprintf("%s[own=%d,foreign=%d]", name, id, vid), &markettypes.MsgUpdateSellOrders{Seller: signer.String(),
			Updates: []*markettypes.MsgUpdateSellOrders_Update{mkU(id, "", 0), mkU(id, "", 0), mkU(vid, "", 1)}})
	}}
}
