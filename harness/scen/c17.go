package scen

import (
	"bytes"
	"encoding/base64"

	"github.com/cosmos/btcutil/base58"
	gogotypes "github.com/cosmos/gogoproto/types"
	"time"

	"encoding/json"
	"fmt"
	"strings"

	sdk "github.com/cosmos/cosmos-sdk/types"

	"github.com/regen-network/regen-ledger/x/data/v3"
	basetypes "github.com/regen-network/regen-ledger/x/ecocredit/v3/base/types/v1"
	baskettypes "github.com/regen-network/regen-ledger/x/ecocredit/v3/basket/types/v1"
	markettypes "github.com/regen-network/regen-ledger/x/ecocredit/v3/marketplace/types/v1"

	"verif/harness/chain"
	"verif/harness/explore"
)

// Queries scenario (C17): a "populate" alphabet that creates rows in every
// table the query servers read, from four seeds:
//
//	prepared        the prepared seed plus data-module rows
//	fresh           default-like genesis only
//	genesis-prefix  a module-validated genesis document whose ids are string
//	                prefixes of one another (C01/C011, C10/C100, C01-001/C01-0011,
//	                reference ids r/r1)
//	data-prefix-ids fresh chain with a weak hasher, so that data ids are byte
//	                prefixes of one another ([1], [1,2], [1,2,3] ...)
//
// The monitor (mon.C17) enumerates requests in every state; events only have
// to move rows in and out of the tables and their secondary indexes.

// Q17URL is the resolver URL shared by two resolvers; Q17URLx extends it.
const (
	Q17URL  = "https://r1.example"
	Q17URLx = "https://r1.example/x"
)

// Q17Long is a 32-byte address whose first 20 bytes equal B (module-account
// style length next to the 20-byte user addresses).
var Q17Long sdk.AccAddress

func init() {
	Q17Long = append(append(sdk.AccAddress{}, acct("B")...), []byte("-32-byte-tail")[:12]...)
}

func q17kthBatch(pre *chain.Snapshot, k int) string {
	if k < 0 {
		k = len(pre.Batches) + k
	}
	if k < 0 || k >= len(pre.Batches) {
		return ""
	}
	return pre.Batches[k].Denom
}

func q17kthBasket(pre *chain.Snapshot, k int) string {
	if k < 0 {
		k = len(pre.Baskets) + k
	}
	if k < 0 || k >= len(pre.Baskets) {
		return ""
	}
	return pre.Baskets[k].BasketDenom
}

// q17DataActions are data-module messages added to seeds: two anchors, three
// attestations, two private resolvers with the same URL, three registrations.
func q17DataActions() []*explore.Action {
	b, c := B.String(), C.String()
	return []*explore.Action{
		Msg("seed:Anchor(B,R1)", &data.MsgAnchor{Sender: b, ContentHash: RawHash(1)}),
		Msg("seed:Attest(B,G1)", &data.MsgAttest{Attestor: b, ContentHashes: []*data.ContentHash_Graph{GraphHash(1)}}),
		Msg("seed:Attest(C,G1)", &data.MsgAttest{Attestor: c, ContentHashes: []*data.ContentHash_Graph{GraphHash(1)}}),
		Msg("seed:Attest(C,G3)", &data.MsgAttest{Attestor: c, ContentHashes: []*data.ContentHash_Graph{GraphHash(3)}}),
		Msg("seed:DefineResolver(B,url1)", &data.MsgDefineResolver{Definer: b, ResolverUrl: Q17URL}),
		Msg("seed:DefineResolver(C,url1)", &data.MsgDefineResolver{Definer: c, ResolverUrl: Q17URL}),
		Msg("seed:Register(B,#1,R1)", &data.MsgRegisterResolver{Signer: b, ResolverId: 1, ContentHashes: []*data.ContentHash{RawHash(1)}}),
		Msg("seed:Register(C,#2,R1)", &data.MsgRegisterResolver{Signer: c, ResolverId: 2, ContentHashes: []*data.ContentHash{RawHash(1)}}),
		Msg("seed:Register(B,#1,G1)", &data.MsgRegisterResolver{Signer: b, ResolverId: 1, ContentHashes: []*data.ContentHash{{Graph: GraphHash(1)}}}),
		// hashes that are not 32 bytes long under digest algorithm 1 (message validation admits 20..64 bytes)
		Msg("seed:Anchor(B,raw-20-bytes)", &data.MsgAnchor{Sender: b, ContentHash: &data.ContentHash{Raw: &data.ContentHash_Raw{Hash: bytes.Repeat([]byte{0x20}, 20), DigestAlgorithm: 1, FileExtension: "bin"}}}),
		Msg("seed:Attest(C,graph-64-bytes)", &data.MsgAttest{Attestor: c, ContentHashes: []*data.ContentHash_Graph{{Hash: bytes.Repeat([]byte{0x64}, 64), DigestAlgorithm: 1, CanonicalizationAlgorithm: 1}}}),
		Msg("seed:Register(B,#1,raw-48-bytes)", &data.MsgRegisterResolver{Signer: b, ResolverId: 1, ContentHashes: []*data.ContentHash{{Raw: &data.ContentHash_Raw{Hash: bytes.Repeat([]byte{0x48}, 48), DigestAlgorithm: 1, FileExtension: "bin"}}}}),
	}
}

// q17GenesisBuild are the messages whose exported state is renamed into the
// prefix-related genesis document.
func q17GenesisBuild() []*explore.Action {
	a, a2, b := A.String(), A2.String(), B.String()
	class := func(s sdk.AccAddress, lbl string) *explore.Action {
		return Msg("seed:class "+lbl, &basetypes.MsgCreateClass{Admin: s.String(), Issuers: []string{s.String()}, Metadata: "m-" + lbl, CreditTypeAbbrev: "C", Fee: pcoin("uregen", 20)})
	}
	proj := func(s sdk.AccAddress, classID, refID string) *explore.Action {
		return Msg("seed:project "+classID+"/"+refID, &basetypes.MsgCreateProject{Admin: s.String(), ClassId: classID, Metadata: "m", Jurisdiction: "US-WA", ReferenceId: refID})
	}
	acts := GovBaseline()
	acts = append(acts,
		class(A, "C01"), class(A2, "C02"), class(B, "C03"), class(A, "C04"),
		Msg("seed:add-issuer C01<-A2", &basetypes.MsgUpdateClassIssuers{Admin: a, ClassId: "C01", AddIssuers: []string{a2}}),
		proj(A, "C01", "r1"),  // C01-001
		proj(A, "C01", "r"),   // C01-002 -> C01-0011
		proj(A2, "C02", "r"),  // C02-001 -> C011-001
		proj(B, "C03", ""),    // C03-001 -> C10-001
		proj(A, "C04", "r1"),  // C04-001 -> C100-001
		proj(A, "C04", "r1 "), // the same reference id with a trailing blank: another reference id
		proj(A2, "C02", " "),  // a reference id that is nothing but a blank
		CreateBatch(A, "C01-001", date(2020, 1, 1), date(2021, 1, 1), true, nil, Iss(B, "10", "1"), Iss(C, "5", "0.5")),
		CreateBatch(A2, "C01-001", date(2021, 1, 1), date(2022, 1, 1), false, nil, Iss(B, "3", "0")),
		CreateBatch(A, "C01-002", date(2020, 1, 1), date(2021, 1, 1), true, nil, Iss(B, "4", "0"), Iss(C, "2", "0")),
		CreateBatch(A2, "C02-001", date(2020, 1, 1), date(2021, 1, 1), true, nil, Iss(B, "6", "0"), Iss(C, "1", "0"), Iss(D, "2", "0")),
		CreateBatch(B, "C03-001", date(2020, 1, 1), date(2021, 1, 1), true, nil, Iss(C, "3", "0")),
		CreateBatch(A, "C04-001", date(2020, 1, 1), date(2021, 1, 1), true, nil, Iss(B, "2", "0")),
		// dates whose encoding is all zeros (the Unix epoch) or negative
		CreateBatch(A, "C04-001", time.Unix(0, 0).UTC(), date(1971, 1, 1), true, nil, Iss(B, "2", "0")),
		CreateBatch(A, "C04-001", date(1969, 7, 20), time.Unix(0, 0).UTC(), true, nil, Iss(C, "1", "0")),
		Msg("seed:add-class-creator B", &basetypes.MsgAddClassCreator{Authority: G.String(), Creator: b}),
		Msg("seed:basket NCT", &baskettypes.MsgCreate{Curator: a, Name: "NCT", DisableAutoRetire: true, CreditTypeAbbrev: "C", AllowedClasses: []string{"C01", "C02"}, Fee: sdk.NewCoins(coin("uregen", 10))}),
		Msg("seed:basket RCT", &baskettypes.MsgCreate{Curator: b, Name: "RCT", DisableAutoRetire: true, CreditTypeAbbrev: "C", AllowedClasses: []string{"C01"}, Fee: sdk.NewCoins(coin("uregen", 10))}),
		// a basket WITH date criteria, listed before the criteria-less baskets created during the exploration
		Msg("seed:basket ACT", &baskettypes.MsgCreate{Curator: a, Name: "ACT", DisableAutoRetire: true, CreditTypeAbbrev: "C", AllowedClasses: []string{"C01"},
			DateCriteria: &baskettypes.DateCriteria{MinStartDate: gts(date(2019, 6, 1))}, Fee: sdk.NewCoins(coin("uregen", 10))}),
		Msg("seed:basket EPO", &baskettypes.MsgCreate{Curator: b, Name: "EPO", DisableAutoRetire: true, CreditTypeAbbrev: "C", AllowedClasses: []string{"C04"},
			DateCriteria: &baskettypes.DateCriteria{MinStartDate: gts(time.Unix(0, 0).UTC())}, Fee: sdk.NewCoins(coin("uregen", 10))}),
		Put(B, "eco.uC.EPO", BC("C04-001-19700101-19710101-002", "1")),
		// a window longer than a Go time.Duration can hold (300 years), and one with a sub-second part
		Msg("seed:basket W300", &baskettypes.MsgCreate{Curator: a, Name: "W300", DisableAutoRetire: true, CreditTypeAbbrev: "C", AllowedClasses: []string{"C01"},
			DateCriteria: &baskettypes.DateCriteria{StartDateWindow: &gogotypes.Duration{Seconds: 300 * 365 * 86400}}, Fee: sdk.NewCoins(coin("uregen", 10))}),
		Msg("seed:basket WNS", &baskettypes.MsgCreate{Curator: b, Name: "WNS", DisableAutoRetire: true, CreditTypeAbbrev: "C", AllowedClasses: []string{"C01"},
			DateCriteria: &baskettypes.DateCriteria{StartDateWindow: &gogotypes.Duration{Seconds: 86400, Nanos: 5}}, Fee: sdk.NewCoins(coin("uregen", 10))}),
		Put(B, NCT, BC("C01-001-20200101-20210101-001", "2")),
		Put(B, NCT, BC("C02-001-20200101-20210101-001", "1")),
		Put(C, RCT, BC("C01-002-20200101-20210101-001", "1")),
		Sell(B, "C01-001-20200101-20210101-001", "1", coin("uregen", 3), true, nil),
		Sell(B, "C01-002-20200101-20210101-001", "1", coin(IBC, 7), true, nil),
		Sell(C, "C02-001-20200101-20210101-001", "0.5", coin("uregen", 3), true, nil),
		Sell(C, "C01-001-20200101-20210101-001", "1", coin("uregen", 4), false, nil),
		Sell(D, "C02-001-20200101-20210101-001", "1", coin(IBC, 2), true, nil),
	)
	return append(acts, q17DataActions()...)
}

// q17Renames map the ids produced by messages to prefix-related ids. A string
// value v of the document is renamed when v == old or v starts with old+"-"
// (class id -> project ids -> batch denoms, basket class and balance rows).
var q17Renames = [][2]string{
	{"C01-002", "C01-0011"},
	{"C02", "C011"},
	{"C03", "C10"},
	{"C04", "C100"},
}

func q17Rename(v string) string {
	for _, r := range q17Renames {
		if v == r[0] || strings.HasPrefix(v, r[0]+"-") {
			return r[1] + v[len(r[0]):]
		}
	}
	return v
}

func q17RenameJSON(v interface{}) interface{} {
	switch x := v.(type) {
	case string:
		return q17Rename(x)
	case []interface{}:
		for i := range x {
			x[i] = q17RenameJSON(x[i])
		}
	case map[string]interface{}:
		for k := range x {
			x[k] = q17RenameJSON(x[k])
		}
	}
	return v
}

// q17PrefixPatch renames ids in every table of the exported document. The
// rename is a bijection on ids, so supplies, balances, sequences and bank
// balances stay consistent; the module's ValidateGenesis decides (GenesisSeed
// panics if it rejects the document).
func q17PrefixPatch(d GenDoc) {
	for table, raw := range d {
		dec := json.NewDecoder(strings.NewReader(string(raw)))
		dec.UseNumber()
		var v interface{}
		if err := dec.Decode(&v); err != nil {
			panic(fmt.Sprintf("genesis table %s: %v", table, err))
		}
		d.Set(table, q17RenameJSON(v))
	}
}

// Queries is the C17 scenario.
func Queries() Spec {
	prepared := PreparedSeed("prepared", q17DataActions()...)
	fresh := FreshSeed("fresh")
	prefix := GenesisSeed("genesis-prefix", q17GenesisBuild(), q17PrefixPatch)
	// hasher.CreateID with min length 1 over the constant digest 1,0,0,0,0,0,0,0
	// yields the ids [1,1], [1,0], then (digest bytes exhausted) [1,0,0,0,0,0,0,0,7],
	// [1,0,0,0,0,0,0,0,8] ...: the second id is a byte prefix of all later ones.
	weak := FreshSeed("data-prefix-ids",
		Msg("seed:Anchor(B,R1)", &data.MsgAnchor{Sender: B.String(), ContentHash: RawHash(1)}),                                  // [1,1]
		Msg("seed:Attest(C,G1)", &data.MsgAttest{Attestor: C.String(), ContentHashes: []*data.ContentHash_Graph{GraphHash(1)}}), // [1,0]
		Msg("seed:Attest(B,G3)", &data.MsgAttest{Attestor: B.String(), ContentHashes: []*data.ContentHash_Graph{GraphHash(3)}}), // [1,0,...,7]
		Msg("seed:Attest(C,G3)", &data.MsgAttest{Attestor: C.String(), ContentHashes: []*data.ContentHash_Graph{GraphHash(3)}}),
		Msg("seed:DefineResolver(B,url1)", &data.MsgDefineResolver{Definer: B.String(), ResolverUrl: Q17URL}),
		Msg("seed:Register(B,#1,G1)", &data.MsgRegisterResolver{Signer: B.String(), ResolverId: 1, ContentHashes: []*data.ContentHash{{Graph: GraphHash(1)}}}),
		Msg("seed:Register(B,#1,R2)", &data.MsgRegisterResolver{Signer: B.String(), ResolverId: 1, ContentHashes: []*data.ContentHash{RawHash(2)}}), // [1,0,...,8]
	)
	weak.Opts = chain.Options{Hasher: WeakHasher(1, []byte{1, 0, 0, 0, 0, 0, 0, 0})}

	adminOf := func(pre *chain.Snapshot, classID string) sdk.AccAddress {
		if c := pre.ClassByID(classID); c != nil {
			return sdk.AccAddress(c.Admin)
		}
		return nil
	}
	var evs []E
	add := func(e ...E) { evs = append(evs, e...) }

	// --- base: classes by several admins, issuers, projects, batches
	add(fix(createClass(A, "C", 20)), fix(createClass(B, "C", 20)))
	add(E{Name: "AddIssuer(class#0,A2)", Make: func(pre *chain.Snapshot) *explore.Action {
		cid := kthClass(pre, 0)
		if cid == "" {
			return nil
		}
		return Msg("AddIssuer("+cid+",A2)", &basetypes.MsgUpdateClassIssuers{Admin: adminOf(pre, cid).String(), ClassId: cid, AddIssuers: []string{A2.String()}})
	}})
	proj := func(k int, refID string) E {
		name := fmt.Sprintf("CreateProject(admin-of-class#%d,ref=%q)", k, refID)
		return E{Name: name, Make: func(pre *chain.Snapshot) *explore.Action {
			cid := kthClass(pre, k)
			if cid == "" {
				return nil
			}
			return Msg(name+"["+cid+"]", &basetypes.MsgCreateProject{Admin: adminOf(pre, cid).String(), ClassId: cid, Metadata: "m", Jurisdiction: "US-WA", ReferenceId: refID})
		}}
	}
	add(proj(0, "r"), proj(0, "r1"), proj(-1, "r"))
	batch := func(k int, issuer sdk.AccAddress, y int, iss ...*basetypes.BatchIssuance) E {
		who := "class-admin"
		if issuer != nil {
			who = n(issuer)
		}
		name := fmt.Sprintf("CreateBatch(%s,project#%d,%d)", who, k, y)
		return E{Name: name, Make: func(pre *chain.Snapshot) *explore.Action {
			pid := kthProject(pre, k)
			if pid == "" {
				return nil
			}
			signer := issuer
			if signer == nil {
				p := pre.ProjectByID(pid)
				if c := pre.ClassByKey(p.ClassKey); c != nil {
					signer = sdk.AccAddress(c.Admin)
				}
			}
			a := CreateBatch(signer, pid, date(y, 1, 1), date(y+1, 1, 1), true, nil, iss...)
			a.Label = name + "[" + pid + "]"
			return a
		}}
	}
	add(batch(0, nil, 2020, Iss(B, "10", "1"), Iss(C, "5", "0")),
		batch(0, A2, 2021, Iss(B, "5", "0")),
		batch(-1, nil, 2022, Iss(C, "5", "0"), Iss(B, "2", "0")))
	send := func(from, to sdk.AccAddress, k int, trad, ret string) E {
		name := fmt.Sprintf("Send(%s->%s,batch#%d,t=%s,r=%s)", n(from), n(to), k, trad, ret)
		return E{Name: name, Make: func(pre *chain.Snapshot) *explore.Action {
			d := q17kthBatch(pre, k)
			if d == "" {
				return nil
			}
			a := Send(from, to, d, trad, ret)
			a.Label = name + "[" + d + "]"
			return a
		}}
	}
	add(send(B, C, 0, "1", "0"), send(B, D, -1, "1", "0.5"), send(B, Q17Long, 0, "1", "0"))
	// rows whose three amounts are all zero: an empty send creates one for its recipient
	add(send(B, D, 0, "0", "0"), send(C, D, -1, "0", "0"))
	// ... and a holder sending away everything it has of a batch leaves one behind (rows are never deleted)
	sendEverything := func(from, to sdk.AccAddress) E {
		name := fmt.Sprintf("SendEverythingOfOneBatch(%s->%s)", n(from), n(to))
		return E{Name: name, Make: func(pre *chain.Snapshot) *explore.Action {
			for _, b := range pre.Balances {
				if !bytes.Equal(b.Address, from) {
					continue
				}
				zero := func(x string) bool { return x == "" || x == "0" }
				if !zero(b.TradableAmount) && zero(b.RetiredAmount) && zero(b.EscrowedAmount) {
					if batch := pre.BatchByKey(b.BatchKey); batch != nil {
						a := Send(from, to, batch.Denom, b.TradableAmount, "0")
						a.Label = name + "[" + batch.Denom + "]"
						return a
					}
				}
			}
			return nil
		}}
	}
	add(sendEverything(B, C), sendEverything(C, B), sendEverything(D, B))
	add(fix(Msg("gov:add-class-creator(B)", &basetypes.MsgAddClassCreator{Authority: G.String(), Creator: B.String()})))
	// parameters read by the single-entity parameter queries and the deprecated aggregate Params query
	add(
		fix(Msg("gov:class-fee=none", &basetypes.MsgUpdateClassFee{Authority: G.String()})),
		fix(Msg("gov:class-fee=7uregen", &basetypes.MsgUpdateClassFee{Authority: G.String(), Fee: pcoin("uregen", 7)})),
		fix(Msg("gov:basket-fee=none", &baskettypes.MsgUpdateBasketFee{Authority: G.String()})),
		fix(Msg("gov:allowlist-on", &basetypes.MsgSetClassCreatorAllowlist{Authority: G.String(), Enabled: true})),
		fix(Msg("gov:bridge-chain=ethereum", &basetypes.MsgAddAllowedBridgeChain{Authority: G.String(), ChainName: "ethereum"})),
		fix(Msg("gov:remove-allowed-denom(uregen)", &markettypes.MsgRemoveAllowedDenom{Authority: G.String(), Denom: "uregen"})),
	)

	// --- marketplace: two sellers, two batches, two ask denoms, one removal
	sell := func(s sdk.AccAddress, k int, ask sdk.Coin) E {
		name := fmt.Sprintf("Sell(%s,batch#%d,ask=%s)", n(s), k, shortCoin(ask))
		return E{Name: name, Make: func(pre *chain.Snapshot) *explore.Action {
			d := q17kthBatch(pre, k)
			if d == "" {
				return nil
			}
			a := Sell(s, d, "0.5", ask, true, nil)
			a.Label = name + "[" + d + "]"
			return a
		}}
	}
	add(sell(B, 0, coin("uregen", 3)), sell(C, 0, coin(IBC, 7)), sell(B, -1, coin("uregen", 2)), sell(C, -1, coin("uregen", 5)))
	add(CancelOrder(B, B, 0))

	// --- baskets and puts
	bsk := func(s sdk.AccAddress, name string) E {
		en := fmt.Sprintf("basket.Create(%s,%s,class#0)", n(s), name)
		return E{Name: en, Make: func(pre *chain.Snapshot) *explore.Action {
			cid := kthClass(pre, 0)
			if cid == "" {
				return nil
			}
			return Msg(en+"["+cid+"]", &baskettypes.MsgCreate{Curator: s.String(), Name: name, DisableAutoRetire: true, CreditTypeAbbrev: pre.Classes[0].CreditTypeAbbrev, AllowedClasses: []string{cid}, Fee: sdk.NewCoins(coin("uregen", 10))})
		}}
	}
	add(bsk(A, "BSK"), bsk(B, "BSK2"))
	// criteria set on / cleared from the FIRST basket of the listing (its neighbours have none)
	add(E{Name: "UpdateDateCriteria(G,basket#0,window=400d)", Make: func(pre *chain.Snapshot) *explore.Action {
		bd := q17kthBasket(pre, 0)
		if bd == "" {
			return nil
		}
		return dateCrit("window=400d", bd, G, &baskettypes.DateCriteria{StartDateWindow: gdur(400 * 24 * time.Hour)})
	}}, E{Name: "UpdateDateCriteria(G,basket#-1,none)", Make: func(pre *chain.Snapshot) *explore.Action {
		bd := q17kthBasket(pre, -1)
		if bd == "" {
			return nil
		}
		return dateCrit("none", bd, G, nil)
	}})
	put := func(s sdk.AccAddress, bk, k int) E {
		name := fmt.Sprintf("Put(%s,basket#%d,batch#%d)", n(s), bk, k)
		return E{Name: name, Make: func(pre *chain.Snapshot) *explore.Action {
			bd, d := q17kthBasket(pre, bk), q17kthBatch(pre, k)
			if bd == "" || d == "" {
				return nil
			}
			return Put(s, bd, BC(d, "1"))
		}}
	}
	add(put(B, 0, 0), put(C, -1, 0))

	// --- data: anchors, attestations, resolvers (two with the same URL, one
	// whose URL extends it), registrations
	b, c := B.String(), C.String()
	add(
		fix(Msg("Anchor(B,R2)", &data.MsgAnchor{Sender: b, ContentHash: RawHash(2)})),
		fix(Msg("Attest(B,G1)", &data.MsgAttest{Attestor: b, ContentHashes: []*data.ContentHash_Graph{GraphHash(1)}})),
		fix(Msg("Attest(C,G1)", &data.MsgAttest{Attestor: c, ContentHashes: []*data.ContentHash_Graph{GraphHash(1)}})),
		fix(Msg("Attest(C,G2)", &data.MsgAttest{Attestor: c, ContentHashes: []*data.ContentHash_Graph{GraphHash(2)}})),
		fix(Msg("DefineResolver(B,url1,private)", &data.MsgDefineResolver{Definer: b, ResolverUrl: Q17URL})),
		fix(Msg("DefineResolver(C,url1,private)", &data.MsgDefineResolver{Definer: c, ResolverUrl: Q17URL})),
		fix(Msg("DefineResolver(B,url1/x,public)", &data.MsgDefineResolver{Definer: b, ResolverUrl: Q17URLx, Public: true})),
	)
	reg := func(k int, h *data.ContentHash, hn string) E {
		name := fmt.Sprintf("RegisterResolver(manager,resolver#%d,%s)", k, hn)
		return E{Name: name, Make: func(pre *chain.Snapshot) *explore.Action {
			i := k
			if i < 0 {
				i = len(pre.Resolvers) + i
			}
			if i < 0 || i >= len(pre.Resolvers) {
				return nil
			}
			r := pre.Resolvers[i]
			signer := B
			if len(r.Manager) > 0 {
				signer = sdk.AccAddress(r.Manager)
			}
			return Msg(fmt.Sprintf("%s[id=%d,signer=%s]", name, r.Id, n(signer)), &data.MsgRegisterResolver{Signer: signer.String(), ResolverId: r.Id, ContentHashes: []*data.ContentHash{h}})
		}}
	}
	add(reg(0, RawHash(2), "R2"), reg(-1, RawHash(2), "R2"), reg(-1, &data.ContentHash{Graph: GraphHash(1)}, "G1"))

	exp := map[string]bool{}
	for _, e := range evs {
		exp[e.Name] = true
	}
	// rows as a hand-written genesis may spell them: zero amounts absent (a retirement without any cancellation
	// leaves the cancelled amount absent next to a present retired amount)
	// ... a project whose id is not the prefix of its batches' denoms (the validation checks formats and keys only; the
	// repository's own genesis test imports such rows), and DATA rows no message could write today: an anchored and
	// attested IRI with a 16-byte digest, one with a one-letter extension (ParseIRI accepts both)
	legacy := func(payload []byte, ext string) string {
		return "regen:" + base58.CheckEncode(payload, 0) + "." + ext
	}
	iri16 := legacy(append([]byte{data.IriPrefixRaw, 1}, bytes.Repeat([]byte{0x5a}, 16)...), "bin")
	iri1 := legacy(append([]byte{data.IriPrefixRaw, 1}, bytes.Repeat([]byte{0x5b}, 32)...), "z")
	sparse := GenesisSeedWithData("genesis-with-absent-zero-amounts+renamed-project+legacy-data", append(PreparedActions(), Retire(C, B2, "0.5")), func(d GenDoc) {
		DropZeroAmounts(d)
		lead, rows := genRows(d, "regen.ecocredit.v1.Project")
		for _, r := range rows {
			if r["id"] == "C01-001" {
				r["id"] = "C01-077"
			}
		}
		genStore(d, "regen.ecocredit.v1.Project", lead, rows)
	}, func(d GenDoc) {
		b64 := base64.StdEncoding.EncodeToString
		d.Set("regen.data.v1.DataID", []map[string]string{{"id": b64([]byte{0xde, 0xad, 1}), "iri": iri16}, {"id": b64([]byte{0xde, 0xad, 2}), "iri": iri1}})
		d.Set("regen.data.v1.DataAnchor", []map[string]string{{"id": b64([]byte{0xde, 0xad, 1}), "timestamp": "2021-05-06T07:08:09Z"}, {"id": b64([]byte{0xde, 0xad, 2}), "timestamp": "2021-05-06T07:08:10Z"}})
		d.Set("regen.data.v1.DataAttestor", []map[string]string{{"id": b64([]byte{0xde, 0xad, 1}), "attestor": b64(B), "timestamp": "2021-06-07T08:09:10Z"}})
	})
	return Spec{Name: "queries", Seeds: []explore.Seed{prepared, fresh, prefix, weak, sparse}, Events: evs,
		DepthQuick: 3, DepthThor: 4, ExpectFail: exp, MinStates: 40}
}

// QueriesMany (C17): sub-lists with more than 100 elements — the default page limit of an un-paginated ORM listing —
// inside answers that carry NO pagination: the allowed classes of one basket (Query/Basket), the allowed class
// creators / denoms / bridge chains of the aggregate Params query and of the un-paginated AllowedBridgeChains query, the issuers of one class. 101 of each.
func QueriesMany() Spec {
	seed := explore.Seed{Name: "101-classes-in-a-basket,101-creators,101-issuers", Build: func(c *chain.Chain) sdk.Context {
		ctx := c.BaseContext(chain.T0, 1)
		c.InitGenesis(ctx, chain.Genesis{Balances: StdFunds()})
		acts := GovBaseline()
		var classes, many []string
		for i := 0; i < 101; i++ {
			classes = append(classes, fmt.Sprintf("C%02d", i+1))
			a := make([]byte, 20)
			copy(a, fmt.Sprintf("many-%03d------------", i))
			many = append(many, sdk.AccAddress(a).String())
		}
		for range classes {
			acts = append(acts, Msg("seed:class", &basetypes.MsgCreateClass{Admin: A.String(), Issuers: []string{A.String()}, Metadata: "m", CreditTypeAbbrev: "C", Fee: pcoin("uregen", 20)}))
		}
		acts = append(acts,
			Msg("seed:basket BIG (101 classes)", &baskettypes.MsgCreate{Curator: A.String(), Name: "BIG", DisableAutoRetire: true, CreditTypeAbbrev: "C", AllowedClasses: classes, Fee: sdk.NewCoins(coin("uregen", 10))}),
			Msg("seed:101 issuers of C01", &basetypes.MsgUpdateClassIssuers{Admin: A.String(), ClassId: "C01", AddIssuers: many}),
		)
		for i, m := range many {
			acts = append(acts, Msg("seed:creator", &basetypes.MsgAddClassCreator{Authority: G.String(), Creator: m}),
				Msg("seed:bridge-chain", &basetypes.MsgAddAllowedBridgeChain{Authority: G.String(), ChainName: fmt.Sprintf("chain%03d", i)}),
				Msg("seed:allowed-denom", &markettypes.MsgAddAllowedDenom{Authority: G.String(), BankDenom: fmt.Sprintf("udenom%03d", i), DisplayDenom: fmt.Sprintf("denom%03d", i), Exponent: 6}))
		}
		return mustRun(c, ctx, acts...)
	}}
	evs := []E{
		fix(Msg("gov:allowlist-on", &basetypes.MsgSetClassCreatorAllowlist{Authority: G.String(), Enabled: true})),
		fix(Msg("basket.Create(A,SMALL,[C01,C101])", &baskettypes.MsgCreate{Curator: A.String(), Name: "SMALL", DisableAutoRetire: true, CreditTypeAbbrev: "C", AllowedClasses: []string{"C01", "C101"}, Fee: sdk.NewCoins(coin("uregen", 10))})),
	}
	return Spec{Name: "queries-many", Seeds: []explore.Seed{seed}, Events: evs, DepthQuick: 1, DepthThor: 2, MinStates: 2}
}
