package scen

import (
	"fmt"
	"time"

	sdk "github.com/cosmos/cosmos-sdk/types"
	gogotypes "github.com/cosmos/gogoproto/types"

	basetypes "github.com/regen-network/regen-ledger/x/ecocredit/v3/base/types/v1"
	baskettypes "github.com/regen-network/regen-ledger/x/ecocredit/v3/basket/types/v1"

	"verif/harness/chain"
	"verif/harness/explore"
)

func gts(t time.Time) *gogotypes.Timestamp {
	return &gogotypes.Timestamp{Seconds: t.Unix(), Nanos: int32(t.Nanosecond())}
}

func gdur(d time.Duration) *gogotypes.Duration {
	return &gogotypes.Duration{Seconds: int64(d / time.Second), Nanos: int32(d % time.Second)}
}

func mkBasket(name string, dar bool, dc *baskettypes.DateCriteria, classes ...string) *explore.Action {
	return Msg("seed:basket "+name, &baskettypes.MsgCreate{Curator: A.String(), Name: name, DisableAutoRetire: dar, CreditTypeAbbrev: "C",
		AllowedClasses: classes, DateCriteria: dc, Fee: sdk.NewCoins(coin("uregen", 10))})
}

func dateCrit(tag string, denom string, signer sdk.AccAddress, dc *baskettypes.DateCriteria) *explore.Action {
	return Msg(fmt.Sprintf("UpdateDateCriteria(%s,%s,%s)", n(signer), denom, tag), &baskettypes.MsgUpdateDateCriteria{Authority: signer.String(), Denom: denom, NewDateCriteria: dc})
}

// KYR is the years-in-the-past basket of the C10 seed.
const KYR = "eco.uC.KYR"

// YearsBasket creates a basket admitting class C01 with a years-in-the-past criterion.
func YearsBasket(name string, years uint32) *explore.Action {
	return mkBasket(name, true, &baskettypes.DateCriteria{YearsInThePast: years}, "C01")
}

// C11 batch start dates, chosen on / just before / after every criterion
// boundary at the scenario's block times. Creation order is deliberately not
// date order, so denom order (sequence numbers) differs from date order.
var c11Starts = []time.Time{
	time.Date(2023, 1, 1, 0, 0, 0, 0, time.UTC),              // 001: boundary of window-365d and years-1 at T0
	time.Date(2020, 1, 1, 0, 0, 0, 0, time.UTC),              // 002: boundary of min date
	time.Date(2019, 12, 31, 23, 59, 59, 999999999, time.UTC), // 003: 1 ns before it
	time.Date(2022, 12, 31, 23, 59, 59, 0, time.UTC),         // 004: 1 s before 2023
	time.Date(1970, 1, 1, 0, 0, 0, 0, time.UTC),              // 005: the epoch
	time.Date(1969, 12, 31, 0, 0, 0, 0, time.UTC),            // 006: pre-1970
	time.Date(2020, 1, 1, 0, 0, 0, 0, time.UTC),              // 007: tie with 002
	time.Date(2023, 12, 31, 0, 0, 1, 0, time.UTC),            // 008: 1 s inside the 1-day window at T0
	time.Date(2019, 12, 31, 0, 0, 0, 0, time.UTC),            // 009: the same DAY as 003 but earlier: denom order (…-003 < …-009) is not date order
	time.Date(1730, 1, 1, 0, 0, 0, 0, time.UTC),              // 010: inside a 300-year window at T0 (cut-off 1724) but beyond what a Go time.Duration can express (about 292 years: 1731)
}

// Batches of other projects / classes whose denoms sort AFTER every C01-001 denom although their start
// dates lie in the middle of the range (a listing by denom would release them in the wrong order).
const (
	C11OtherProject = "C01-002-20210101-20991231-001"
	C11OtherClass   = "C02-001-20180601-20991231-002"
)

// c11End is the end date of the i-th batch: the LATER a batch starts, the EARLIER it ends (nested
// vintages), so that no ordering by end date coincides with the ordering by start date.
func c11End(i int) time.Time {
	later := 0
	for _, s := range c11Starts {
		if s.After(c11Starts[i]) {
			later++
		}
	}
	return time.Date(2099, 1, 1, 0, 0, 0, 0, time.UTC).AddDate(0, 0, later)
}

// C11Denoms returns the batch denoms of the criteria scenario (class C01).
func C11Denoms() []string {
	var out []string
	for i, s := range c11Starts {
		out = append(out, fmt.Sprintf("C01-001-%s-%s-%03d", s.Format("20060102"), c11End(i).Format("20060102"), i+1))
	}
	return out
}

// Baskets of the criteria scenario.
const (
	K0 = "eco.uC.KNONE" // no criteria, auto-retire disabled
	KM = "eco.uC.KMIN"  // min start date 2020-01-01, auto-retire ENABLED
	KW = "eco.uC.KWIN"  // window 365 days
	KD = "eco.uC.KDAY"  // window 1 day, auto-retire ENABLED
	KY = "eco.uC.KYEAR" // 1 year in the past
	KE = "eco.uC.KEPO"  // min start date = the Unix epoch
	K2 = "eco.uC.KTWO"  // no criteria, classes C01 and C02, auto-retire disabled
)

// Criteria scenario (C11).
func Criteria() Spec {
	end := time.Date(2099, 12, 31, 0, 0, 0, 0, time.UTC)
	seed := explore.Seed{Name: "criteria", Build: func(c *chain.Chain) sdk.Context {
		ctx := c.BaseContext(chain.T0, 1)
		c.InitGenesis(ctx, chain.Genesis{Balances: StdFunds()})
		a, a2, g := A.String(), A2.String(), G.String()
		acts := GovBaseline()
		acts = append(acts,
			Msg("gov:add-credit-type BIO", &basetypes.MsgAddCreditType{Authority: g, CreditType: &basetypes.CreditType{Abbreviation: "BIO", Name: "biodiversity", Unit: "ha", Precision: 6}}),
			Msg("seed:class C01", &basetypes.MsgCreateClass{Admin: a, Issuers: []string{a}, Metadata: "m", CreditTypeAbbrev: "C", Fee: pcoin("uregen", 20)}),
			Msg("seed:class C02", &basetypes.MsgCreateClass{Admin: a2, Issuers: []string{a2}, Metadata: "m", CreditTypeAbbrev: "C", Fee: pcoin("uregen", 20)}),
			Msg("seed:class BIO01", &basetypes.MsgCreateClass{Admin: a, Issuers: []string{a}, Metadata: "m", CreditTypeAbbrev: "BIO", Fee: pcoin("uregen", 20)}),
			Msg("seed:project C01-001", &basetypes.MsgCreateProject{Admin: a, ClassId: "C01", Metadata: "m", Jurisdiction: "US-WA"}),
			Msg("seed:project C02-001", &basetypes.MsgCreateProject{Admin: a2, ClassId: "C02", Metadata: "m", Jurisdiction: "US-WA"}),
			Msg("seed:project C01-002", &basetypes.MsgCreateProject{Admin: a, ClassId: "C01", Metadata: "m", Jurisdiction: "US-OR"}),
			Msg("seed:project BIO01-001", &basetypes.MsgCreateProject{Admin: a, ClassId: "BIO01", Metadata: "m", Jurisdiction: "US-WA"}),
		)
		for i, s := range c11Starts {
			acts = append(acts, CreateBatch(A, "C01-001", s, c11End(i), true, nil, Iss(B, "10", "0"), Iss(C, "2", "0")))
		}
		acts = append(acts,
			CreateBatch(A2, "C02-001", date(2023, 6, 1), end, true, nil, Iss(B, "10", "0")),  // class not allowed
			CreateBatch(A, "BIO01-001", date(2023, 6, 1), end, true, nil, Iss(B, "10", "0")), // other credit type (basket creation refuses to list such a class)
			CreateBatch(A, "C01-002", date(2021, 1, 1), end, true, nil, Iss(B, "10", "0")),
			CreateBatch(A2, "C02-001", date(2018, 6, 1), end, true, nil, Iss(B, "10", "0")),
			mkBasket("KTWO", true, nil, "C01", "C02"),
			mkBasket("KNONE", true, nil, "C01"),
			mkBasket("KMIN", false, &baskettypes.DateCriteria{MinStartDate: gts(date(2020, 1, 1))}, "C01"),
			mkBasket("KWIN", true, &baskettypes.DateCriteria{StartDateWindow: gdur(365 * 24 * time.Hour)}, "C01"),
			mkBasket("KDAY", false, &baskettypes.DateCriteria{StartDateWindow: gdur(24 * time.Hour)}, "C01"),
			mkBasket("KYEAR", true, &baskettypes.DateCriteria{YearsInThePast: 1}, "C01"),
			mkBasket("KEPO", true, &baskettypes.DateCriteria{MinStartDate: gts(time.Unix(0, 0).UTC())}, "C01"),
		)
		return mustRun(c, ctx, acts...)
	}}
	den := C11Denoms()
	c02 := "C02-001-20230601-20991231-001"
	bio := "BIO01-001-20230601-20991231-001"
	baskets := []string{K0, KM, KW, KD, KY, KE}
	var evs []E
	for _, k := range baskets {
		for _, d := range den {
			evs = append(evs, fix(Put(B, k, BC(d, "1"))))
		}
		evs = append(evs, fix(Put(B, k, BC(c02, "1"))), fix(Put(B, k, BC(bio, "1"))))
		evs = append(evs,
			fix(Take(B, k, "1", true)), fix(Take(B, k, "1", false)),
			fix(Take(B, k, "1000000", true)), fix(Take(B, k, "1500000", false)),
			TakeAll(B, k, true), TakeAll(B, k, false))
	}
	// the two-class basket: batches of two classes and two projects, whose denom order is not their date order
	for _, d := range []string{den[0], den[2], den[8], C11OtherProject, C11OtherClass, c02} {
		evs = append(evs, fix(Put(B, K2, BC(d, "1"))))
	}
	evs = append(evs,
		fix(Put(B, K2, BC(den[0], "1"), BC(C11OtherProject, "1"), BC(C11OtherClass, "1"), BC(den[8], "1"), BC(den[2], "1"))),
		fix(Take(B, K2, "1000000", false)), fix(Take(B, K2, "2500000", false)), TakeAll(B, K2, false),
		fix(Put(B, KM, BC(C11OtherProject, "1"))), fix(Put(B, K0, BC(C11OtherProject, "1"))))
	evs = append(evs,
		fix(Put(B, K0, BC(den[0], "0.5"), BC(den[5], "1.5"), BC(den[0], Eps))), // several credits, same batch twice
		fix(Put(C, K0, BC(den[1], "2"), BC(den[6], "2"))),
		// several batches of one class in one message: an admissible one first, then one that is too old
		fix(Put(B, KM, BC(den[1], "1"), BC(den[2], "1"))),
		fix(Put(B, KY, BC(den[0], "1"), BC(den[3], "1"))),
		fix(Put(B, KM, BC(den[1], "0.5"), BC(den[6], "0.5"))), // both admissible (the tie pair)                      // the tie pair, by another depositor
		fix(Put(C, K0, BC(den[1], "2.000001"))),               // more than held
		fix(Put(D, K0, BC(den[1], "1"))),                      // holds nothing
		fix(Put(B, KM, BC(den[1], "10"))),                     // whole balance
		fix(Put(B, K0, BC(den[2], "1e-6"))),                   // scientific notation, smallest unit
		fix(BankSend("BankSend(B->D,1500000 KNONE)", B, D, coin(K0, 1500000))),
		TakeAll(D, K0, false),
		// a basket created during the exploration (its criterion is checked against the request), then used
		fix(Msg("basket.Create(A,KNEW,years=1)", &baskettypes.MsgCreate{Curator: A.String(), Name: "KNEW", DisableAutoRetire: true, CreditTypeAbbrev: "C",
			AllowedClasses: []string{"C01"}, DateCriteria: &baskettypes.DateCriteria{YearsInThePast: 1}, Fee: sdk.NewCoins(coin("uregen", 10))})),
		fix(Put(B, "eco.uC.KNEW", BC(den[0], "1"))),
		fix(Put(B, "eco.uC.KNEW", BC(den[3], "1"))),
		fix(dateCrit("min=2019-12-31T23:59:59.999999999", KM, G, &baskettypes.DateCriteria{MinStartDate: gts(c11Starts[2])})),
		fix(dateCrit("years=1", K0, G, &baskettypes.DateCriteria{YearsInThePast: 1})),
		fix(dateCrit("none", KY, G, nil)),
		fix(dateCrit("years=1", KM, G, &baskettypes.DateCriteria{YearsInThePast: 1})),                          // min date -> years (another variant)
		fix(dateCrit("years=10", KW, G, &baskettypes.DateCriteria{YearsInThePast: 10})),                        // window -> years
		fix(dateCrit("min=epoch", KM, G, &baskettypes.DateCriteria{MinStartDate: gts(time.Unix(0, 0).UTC())})), // min date relaxed to the epoch (all-zero timestamp)
		fix(dateCrit("window=1d", KE, G, &baskettypes.DateCriteria{StartDateWindow: gdur(24 * time.Hour)})),    // min date -> window
		fix(dateCrit("present-but-empty", KM, G, &baskettypes.DateCriteria{})),                                 // {}: nothing set = no restriction
		// windows longer than a Go time.Duration can hold (about 292 years): 300 and 1000 years
		fix(dateCrit("window=300y", KW, G, &baskettypes.DateCriteria{StartDateWindow: &gogotypes.Duration{Seconds: 300 * 365 * 86400}})),
		fix(dateCrit("window=1000y", KD, G, &baskettypes.DateCriteria{StartDateWindow: &gogotypes.Duration{Seconds: 1000 * 365 * 86400}})),
		fix(dateCrit("years=1", KM, A, &baskettypes.DateCriteria{YearsInThePast: 1})), // curator is not the authority
		fix(Next(time.Second)),
		fix(Next(24*time.Hour)),
		fix(Next(366*24*time.Hour)),             // 2024 is a leap year: lands on 2025-01-01
		fix(Next(366*24*time.Hour-time.Second)), // 2024-12-31T23:59:59 from T0: the last second of the year
	)
	exp := map[string]bool{}
	for _, e := range evs {
		exp[e.Name] = true // admission failures are the point; vacuity is judged on monitor counters
	}
	return Spec{Name: "criteria", Seeds: []explore.Seed{seed}, Events: evs, DepthQuick: 3, DepthThor: 4, ExpectFail: exp, MinStates: 1000}
}
