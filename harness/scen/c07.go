package scen

import (
	"fmt"

	sdk "github.com/cosmos/cosmos-sdk/types"

	"verif/harness/chain"
	"verif/harness/explore"
)

// P is a poorly funded buyer (C07): 2 uregen and 10 of the IBC denom.
var P = acct("P")

// BuyerFeeRates / SellerFeeRates under which BuyDirect is exercised by C07.
// "0" is deliberately absent: whether BuyDirect works under every ACCEPTED
// rate is C18's question; C07 checks the arithmetic where buys succeed.
var (
	BuyerFeeRates  = []string{"", "0.01", "0.333333", "1", "0.123456789012345678"}
	SellerFeeRates = []string{"", "0.01", "0.333333", "1", "0.5"}
)

// C07Spec: many seeds (fee-rate pair x order history) x a wide one-step
// alphabet of BuyDirect messages.
func C07Spec(quick bool) Spec {
	var seeds []explore.Seed
	histories := []struct {
		name string
		acts func() []*explore.Action
	}{
		{"fresh", func() []*explore.Action { return nil }},
		{"after-partial-fill", func() []*explore.Action {
			return []*explore.Action{mkBuy(D, buyOrder{4, "0.5", coin("uregen", 3), true}, buyOrder{5, "0.5", coin(IBC, 7), true})}
		}},
		{"after-update-qty-down", func() []*explore.Action {
			return []*explore.Action{mkUpdate(B, 4, "1.25", coin("uregen", 3), true)}
		}},
		{"after-denom-change", func() []*explore.Action {
			return []*explore.Action{mkUpdate(B, 4, "2", coin(IBC, 5), true)}
		}},
	}
	brs, srs := BuyerFeeRates, SellerFeeRates
	if quick {
		brs, srs = []string{"", "0.01", "0.333333"}, []string{"", "0.333333", "1"}
	}
	for _, rb := range brs {
		for _, rs := range srs {
			for _, h := range histories {
				rb, rs, h := rb, rs, h
				name := fmt.Sprintf("fees(b=%q,s=%q)/%s", rb, rs, h.name)
				seeds = append(seeds, explore.Seed{Name: name, Build: func(c *chain.Chain) sdk.Context {
					ctx := PreparedSeed("prepared").Build(c)
					c.Fund(ctx, P, sdk.NewCoins(coin("uregen", 2), coin(IBC, 10)))
					// D can afford an order priced at 10^20 base units (an 18-decimals denom at a round price)
					c.Fund(ctx, D, sdk.NewCoins(sdk.NewCoin(IBC, sdk.NewIntFromUint64(1000000000000).MulRaw(1000000000000))))
					acts := []*explore.Action{
						Sell(B, B1, "2", coin("uregen", 3), true, nil),                                                       // order 4
						Sell(C, B1, "1.5", coin(IBC, 7), true, nil),                                                          // order 5
						Sell(C, B2, Eps, coin("uregen", 1000003), true, nil),                                                 // order 6
						Sell(B, B2, "2", coin("uregen", 1), false, nil),                                                      // order 7: auto-retire forced
						Sell(C, B1, "1", sdk.NewCoin(IBC, sdk.NewIntFromUint64(10000000000).MulRaw(10000000000)), true, nil), // order 8: ask 10^20
					}
					if rb != "" || rs != "" {
						acts = append(acts, GovFeeParams(G, rb, rs))
					}
					acts = append(acts, h.acts()...)
					return mustRun(c, ctx, acts...)
				}})
			}
		}
	}

	var evs []E
	// orders are addressed as "k-th open order of seller": B has 1,2,4,7 (k=2 -> 4, k=3 -> 7); C has 3,5,6 (k=1 -> 5, k=2 -> 6)
	type osel struct {
		seller sdk.AccAddress
		k      int
		dar    bool // whether the order allows disabling auto-retire
		tag    string
	}
	orders := []osel{{B, 2, true, "o4"}, {C, 1, true, "o5"}, {C, 2, true, "o6"}, {B, 3, false, "o7"}}
	// order 8 (C's third open order after the histories: 3,5,6,8 -> k=3) is bought whole and in part
	for _, q := range []string{"", "0.5", "0.01"} {
		evs = append(evs, Buy(D, fmt.Sprintf("o8-ask-1e20,q=%s", qn(q)), BuySpec{Seller: C, K: 3, Qty: q, DAR: true, FeeMode: "floor"}))
		evs = append(evs, Buy(D, fmt.Sprintf("o8-ask-1e20,q=%s,fee=floor-1", qn(q)), BuySpec{Seller: C, K: 3, Qty: q, DAR: true, FeeMode: "floor-1"}))
	}
	qtys := []string{Eps, "0.5", "1.5", "", "+eps", "=padded", "=sci"}
	fees := []string{"absent", "zero", "floor", "large"} // "floor-1" needs a buyer fee of at least one unit: order 8 below
	for _, o := range orders {
		for _, q := range qtys {
			for _, f := range fees {
				for _, dar := range []bool{true, false} {
					sp := BuySpec{Seller: o.seller, K: o.k, Qty: q, DAR: dar, FeeMode: f}
					if f == "absent" {
						sp.FeeMode = ""
					}
					evs = append(evs, Buy(D, fmt.Sprintf("%s,q=%s,fee=%s,dar=%v", o.tag, qn(q), f, dar), sp))
				}
			}
		}
		for _, adj := range []int64{-1, 1} {
			evs = append(evs, Buy(D, fmt.Sprintf("%s,bid%+d", o.tag, adj), BuySpec{Seller: o.seller, K: o.k, Qty: "0.5", BidAdj: adj, DAR: o.dar, FeeMode: "large"}))
		}
		evs = append(evs, Buy(D, o.tag+",bid-other-denom", BuySpec{Seller: o.seller, K: o.k, Qty: "0.5", BidDen: "stake", DAR: o.dar, FeeMode: "large"}))
		evs = append(evs, Buy(D, o.tag+",fee-other-denom", BuySpec{Seller: o.seller, K: o.k, Qty: "0.5", DAR: o.dar, FeeMode: "other-denom"}))
		for _, q := range []string{"0.5", ""} {
			evs = append(evs, Buy(P, fmt.Sprintf("%s,q=%s,poor-buyer", o.tag, qn(q)), BuySpec{Seller: o.seller, K: o.k, Qty: q, DAR: o.dar, FeeMode: "large"}))
		}
		evs = append(evs, Buy(o.seller, o.tag+",self", BuySpec{Seller: o.seller, K: o.k, Qty: "0.5", DAR: o.dar, FeeMode: "large"}))
	}
	pairs := [][2]int{{0, 1}, {0, 2}, {0, 3}, {2, 3}, {0, 0}, {1, 1}, {3, 3}}
	for _, pr := range pairs {
		for _, q := range []string{"0.5", "", "0.333333"} {
			a, b := orders[pr[0]], orders[pr[1]]
			if q == "" && pr[0] == pr[1] {
				continue // buying the whole order twice must fail; covered by "+eps"
			}
			evs = append(evs, Buy(D, fmt.Sprintf("%s+%s,q=%s", a.tag, b.tag, qn(q)),
				BuySpec{Seller: a.seller, K: a.k, Qty: q, DAR: a.dar, FeeMode: "large"},
				BuySpec{Seller: b.seller, K: b.k, Qty: q, DAR: false, FeeMode: "floor"}))
		}
	}
	// orders of one batch in different markets (o4 uregen, o5 ibc), the second bid in the first order's denom
	evs = append(evs, Buy(D, "o4+o5,second-bid-in-first-denom",
		BuySpec{Seller: B, K: 2, Qty: "0.5", DAR: true, FeeMode: "large"},
		BuySpec{Seller: C, K: 1, Qty: "0.5", DAR: true, BidDen: "uregen", BidAdj: 100, FeeMode: "large"}))
	exp := map[string]bool{}
	for _, e := range evs {
		exp[e.Name] = true // any single buy may legitimately fail in some configuration; vacuity is judged on monitor counters instead
	}
	return Spec{Name: "buydirect", Seeds: seeds, Events: evs, DepthQuick: 1, DepthThor: 2, ExpectFail: exp}
}

func qn(q string) string {
	if q == "" {
		return "whole"
	}
	return q
}
