package scen

import (
	"encoding/json"
	"fmt"
	authtypes "github.com/cosmos/cosmos-sdk/x/auth/types"
	vestingtypes "github.com/cosmos/cosmos-sdk/x/auth/vesting/types"
	baskettypes "github.com/regen-network/regen-ledger/x/ecocredit/v3/basket/types/v1"

	"strings"
	"time"

	sdk "github.com/cosmos/cosmos-sdk/types"

	basetypes "github.com/regen-network/regen-ledger/x/ecocredit/v3/base/types/v1"
	markettypes "github.com/regen-network/regen-ledger/x/ecocredit/v3/marketplace/types/v1"

	"verif/harness/chain"
	"verif/harness/explore"
)

// Spec is a scenario without monitors: the property checks attach theirs.
type Spec struct {
	Name       string
	Seeds      []explore.Seed
	Events     []E
	DepthQuick int
	DepthThor  int
	ExpectFail map[string]bool
	MinStates  int
}

func expectFail(names ...string) map[string]bool {
	m := map[string]bool{}
	for _, n := range names {
		m[n] = true
	}
	return m
}

func names(es ...E) []string {
	var out []string
	for _, e := range es {
		out = append(out, e.Name)
	}
	return out
}

// Core: issuance, send, retire, cancel, seal with right/wrong signers and the
// amount alphabet.
func Core() Spec {
	bad := []E{
		fix(CreateBatch(D, "C01-001", date(2022, 1, 1), date(2023, 1, 1), true, nil, Iss(D, "5", "0"))), // D is no issuer
		MintFresh(A, B2, B, "1", "0"),         // sealed
		MintFresh(B, B1, B, "1", "0"),         // not the issuer
		fix(Send(B, C, B1, "0.0000001", "0")), // 7 decimal places
		MintFresh(A, B1, B, "0.0000001", "0"), // 7 decimal places through minting
		MintFresh(A, B1, B, "1", "0.1234567"),
		SendAll(B, C, B1, Eps, false),   // overdraw by the smallest unit
		SendAll(C, B, B2, Eps, true),    // overdraw, retired leg
		fix(Retire(D, B1, "1")),         // no balance
		fix(Seal(B, B1)),                // not the issuer
		fix(Cancel(C, B2, "2.000001")),  // more than held
		fix(Send(B, C, B1, "-1", "0")),  // negative
		fix(Send(B, B, B1, "1", "0.5")), // self send
		// values just outside what the stateless validation admits
		// a sign after a leading decimal point: not a decimal numeral
		fix(Send(B, C, B1, "0", ".-5")),
		fix(Send(B, C, B1, ".-5", "0")),
		fix(Send(B, C, B1, "+.-5", "0")), // the same with a sign in front of the point as well
		fix(Send(B, C, B1, "0", "+.-5")),
		fix(Retire(B, B1, "+.-5")),
		fix(Cancel(C, B1, "+.-25")),
		fix(Retire(B, B1, ".-5")),
		fix(Cancel(C, B1, ".-25")),
		MintFresh(A, B1, B, ".-5", "0"),
		fix(Send(B, C, B1, "0", "0")),  // nothing to send
		fix(Send(B, C, B1, "0", "-1")), // negative retired leg
		fix(Retire(B, B1, "0")),        // zero
		fix(Retire(B, B1, "-1")),       // negative
		fix(Cancel(B, B1, "0")),        // zero
		fix(Cancel(B, B1, "-0.5")),     // negative
		MintFresh(A, B1, B, "-1", "0"), // negative issuance
		MintFresh(A, B1, B, "1", "-0.5"),
		fix(CreateBatch(A, "C01-001", date(2022, 1, 1), date(2023, 1, 1), true, nil, Iss(B, "-2", "0"))),
		fix(CreateBatch(A, "C01-001", date(2023, 1, 1), date(2022, 1, 1), true, nil, Iss(B, "2", "0"))), // end before start
	}
	good := []E{
		fix(CreateBatch(A, "C01-001", date(2022, 1, 1), date(2023, 1, 1), true, nil, Iss(B, "2", "1.5"), Iss(B, "0.000001", "0"), Iss(D, "0", "0"))),
		MintFresh(A, B1, B, "1.5", "0"),
		MintFresh(A, B1, C, "0", Eps),
		MintFresh(A, B1, D, "1e1", "0.5"),
		fix(Send(B, C, B1, "1.5", "0")),
		fix(Send(B, C, B1, "0", Eps)),
		fix(Send(B, D, B1, "1e0", "0.5")),
		fix(Send(C, B, B1, "2", "0")),
		fix(Send(C, D, B2, Eps, "0")),
		SendAll(B, C, B1, "0", false),
		SendAll(C, D, B2, "0", true),
		fix(Retire(B, B1, "1.5")),
		RetireAll(C, B1),
		fix(Retire(B, B2, Eps)),
		fix(Cancel(B, B1, Eps)),
		fix(Cancel(C, B2, "2")),
		fix(Cancel(B, B3, "1")),
		fix(Seal(A, B1)),
		// the recipient in the all-upper-case bech32 spelling: another account, and the sender's own
		fix(SendSpelled(B, strings.ToUpper(C.String()), "C-UPPERCASE", B1, "1", "0.5")),
		fix(SendSpelled(B, strings.ToUpper(B.String()), "B-UPPERCASE(self)", B1, "1", "0.5")),
		// several entries in one message, the same batch twice
		fix(SendN(B, C, SC(B1, "1", "0"), SC(B1, "0.5", "0.25"))),
		fix(SendN(C, D, SC(B1, "0.5", "0"), SC(B2, "0.5", "0"))),
		fix(RetireN(B, Cr(B1, "1"), Cr(B1, "0.5"))),
		fix(CancelN(C, Cr(B1, "0.5"), Cr(B2, "0.5"))),
		MintN(A, B1, Iss(B, "1", "0.5"), Iss(B, "0.25", "0"), Iss(C, "0", "1")),
		fix(CreateBatch(A, "C01-001", date(2025, 1, 1), date(2026, 1, 1), true, nil, Iss(D, "0", "0"), Iss(B, "2", "0.5"))), // an all-zero entry FIRST
		MintN(A, B1, Iss(D, "0", "0"), Iss(C, "0.5", "0")),
		// a batch opened with nothing but a zero issuance (the usual way to prepare a batch for later minting)
		fix(CreateBatch(A, "C01-001", date(2023, 1, 1), date(2024, 1, 1), true, nil, Iss(D, "0", "0"))),
		fix(CreateBatch(A, "C01-001", date(2024, 1, 1), date(2025, 1, 1), true, nil, Iss(D, "0", ""), Iss(C, "", "0"))),
	}
	return Spec{Name: "core", Seeds: []explore.Seed{PreparedSeed("prepared"), FreshCoreSeed()},
		Events: append(good, bad...), DepthQuick: 5, DepthThor: 6, ExpectFail: expectFail(names(bad...)...), MinStates: 500}
}

// FreshCoreSeed: a fresh chain with only a class, a project and one open batch
// issued entirely to B — the "from (almost) the initial state" seed.
func FreshCoreSeed() explore.Seed {
	a := A.String()
	return FreshSeed("fresh+b1",
		Msg("seed:class C01", &basetypes.MsgCreateClass{Admin: a, Issuers: []string{a}, Metadata: "m", CreditTypeAbbrev: "C", Fee: pcoin("uregen", 20)}),
		Msg("seed:project C01-001", &basetypes.MsgCreateProject{Admin: a, ClassId: "C01", Metadata: "m", Jurisdiction: "US-WA"}),
		CreateBatch(A, "C01-001", date(2020, 1, 1), date(2021, 1, 1), true, nil, Iss(B, "10", "0"), Iss(C, "3", "0")),
		CreateBatch(A, "C01-001", date(2019, 1, 1), date(2020, 1, 1), true, nil, Iss(C, "5", "0"), Iss(B, "0", "1")),
		BridgeReceive(A, "C01", "VCS-1", B, "4", date(2021, 1, 1), date(2022, 1, 1), &basetypes.OriginTx{Id: TxHash(1), Source: "polygon", Contract: Contract1}),
	)
}

// Basket: put/take/transfer of basket tokens interleaved with credit moves.
func Basket() Spec {
	bad := []E{
		fix(Put(D, NCT, BC(B1, "1"))),           // no credits
		fix(Put(B, NCT, BC(B1, "0.0000001"))),   // 7 places
		fix(Take(D, NCT, "1000000", false)),     // no tokens (unless received)
		fix(Take(B, RCT, "1", false)),           // auto-retire basket, retire_on_take=false
		fix(Put(C, "eco.uC.NOPE", BC(B1, "1"))), // unknown basket
		fix(Take(B, NCT, "2000001", false)),     // more than the basket holds in the seed
		// values just outside what the stateless validation admits
		fix(Put(B, NCT, BC(B1, "0"))),
		fix(Put(B, NCT, BC(B1, "-1"))),
		fix(Put(B, NCT, BC(B1, "1"), BC(B2, "-0.5"))),
		fix(Put(B, NCT, BC(B1, ".-5"))), // a sign after a leading decimal point
		fix(Take(B, NCT, "0", false)),
		fix(Take(B, NCT, "-5", false)),
	}
	good := []E{
		fix(Put(B, NCT, BC(B1, "1.5"))),
		fix(Put(B, NCT, BC(B1, Eps), BC(B2, "1"))),
		fix(Put(C, NCT, BC(B2, "2"))),
		fix(Put(C, RCT, BC(B1, "1e0"))),
		fix(Put(B, NCT, BC(B1, "0.5"), BC(B1, "0.25"))), // the same batch twice in one message
		fix(Put(B, RCT, BC(B3, "4"))),
		fix(Take(B, NCT, "1", false)),
		fix(Take(B, NCT, "1500000", true)),
		fix(Take(B, NCT, "2000000", false)),
		fix(Take(B, NCT, "010", false)), // numeral spellings the integer parser accepts
		fix(Take(B, NCT, "0x10", false)),
		fix(Take(B, NCT, "1_0", true)),
		fix(Take(B, NCT, "+12", false)),
		TakeAll(C, NCT, false),
		TakeAll(C, RCT, true),
		TakeAll(D, NCT, true),
		TakeAll(B, RCT, true),
		fix(BankSend("BankSend(B->D,1000000NCT)", B, D, coin(NCT, 1000000))),
		fix(BankSend("BankSend(B->C,1NCT)", B, C, coin(NCT, 1))),
		fix(BankSend("BankSend(C->D,500000RCT)", C, D, coin(RCT, 500000))),
		fix(Send(B, C, B1, "1.5", "0")),
		fix(Retire(C, B1, "1")),
		fix(Cancel(B, B2, "1")),
		MintFresh(A, B1, C, "2", "0"),
		// a sibling batch with EXACTLY the start date of b1 (2020-01-01), deposited next to it
		fix(CreateBatch(A, "C01-001", date(2020, 1, 1), date(2021, 6, 1), true, nil, Iss(B, "3", "0"))),
		fix(Put(B, NCT, BC("C01-001-20200101-20210601-003", "1"))),
		// a basket created with the deprecated exponent field set (an old client would send it), then used
		fix(Msg("basket.Create(A,LEG,deprecated-exponent=3)", &baskettypes.MsgCreate{Curator: A.String(), Name: "LEG", Exponent: 3, DisableAutoRetire: true, CreditTypeAbbrev: "C",
			AllowedClasses: []string{"C01"}, Fee: sdk.NewCoins(coin("uregen", 10))})),
		fix(Put(B, "eco.uC.LEG", BC(B1, "1.5"))),
		fix(Take(B, "eco.uC.LEG", "500000", false)),
		// the curator changes hands (the basket row is rewritten) while the basket holds credits
		fix(Msg("UpdateCurator(A,NCT->B)", &baskettypes.MsgUpdateCurator{Curator: A.String(), Denom: NCT, NewCurator: B.String()})),
		// the criteria of a basket that HOLDS credits are tightened past the start date of a batch it holds (criteria gate
		// new deposits only), and lifted again
		fix(dateCrit("min=2021-01-01", NCT, G, &baskettypes.DateCriteria{MinStartDate: gts(date(2021, 1, 1))})),
		fix(dateCrit("none", NCT, G, nil)),
	}
	return Spec{Name: "basket", Seeds: []explore.Seed{PreparedSeed("prepared"), FreshCoreBasketSeed()},
		Events: append(good, bad...), DepthQuick: 5, DepthThor: 6, ExpectFail: expectFail(names(bad...)...), MinStates: 500}
}

// FreshCoreBasketSeed adds the two baskets to FreshCoreSeed (batch denoms equal
// those of the prepared seed so that the same alphabet applies).
func FreshCoreBasketSeed() explore.Seed {
	s := FreshCoreSeed()
	inner := s.Build
	return explore.Seed{Name: "fresh+b1+baskets", Build: func(c *chain.Chain) sdk.Context {
		ctx := inner(c)
		acts := PreparedActions()
		var add []*explore.Action
		for _, a := range acts {
			if a.Label == "seed:basket NCT" || a.Label == "seed:basket RCT" {
				add = append(add, a)
			}
		}
		return mustRun(c, ctx, add...)
	}}
}

// Market: sell / update / cancel / buy / expiry / fee params.
func Market() Spec {
	e10 := chain.T0.Add(10 * time.Second)
	e20 := chain.T0.Add(20 * time.Second)
	ur := func(n int64) sdk.Coin { return coin("uregen", n) }
	ib := func(n int64) sdk.Coin { return coin(IBC, n) }
	bad := []E{
		fix(Sell(D, B1, "1", ur(3), true, nil)),             // no credits
		fix(Sell(B, B1, "1", coin("stake2", 3), true, nil)), // denom not allowed
		CancelOrder(C, B, 0),                                // not the seller
		CancelOrder(G, C, 0),                                // the authority is not the seller either
		UpdateOrder(C, B, 0, "5", nil, true, nil),           // not the seller
		Buy(D, "over-ask-qty", BuySpec{Seller: B, K: 0, Qty: "+eps", DAR: true}),
		Buy(D, "underbid", BuySpec{Seller: B, K: 0, Qty: "0.5", BidAdj: -1, DAR: true}),
		Buy(D, "wrong-denom", BuySpec{Seller: B, K: 0, Qty: "0.5", BidDen: "stake", DAR: true}),
		Buy(B, "own-order", BuySpec{Seller: B, K: 0, Qty: "0.5", DAR: true}),
		// two orders of one batch in different markets, the second bid expressed in the FIRST order's denom
		Buy(D, "B0+B1-bid-in-first-denom", BuySpec{Seller: B, K: 0, Qty: "0.5", DAR: true, MaxFee: I64(100)}, BuySpec{Seller: B, K: 1, Qty: "0.5", BidDen: "uregen", BidAdj: 100, MaxFee: I64(100)}),
		Buy(D, "dar-not-allowed", BuySpec{Seller: B, K: 1, Qty: "0.5", DAR: true}),
		fix(GovFeeParams(D, "0.01", "0.01")), // not the authority
		// values just outside what the stateless validation admits (the handlers rely on it)
		fix(Sell(B, B1, "1", ur(0), true, nil)),                                             // zero ask
		fix(Sell(B, B1, "1", sdk.Coin{Denom: "uregen", Amount: sdk.NewInt(-3)}, true, nil)), // negative ask
		fix(Sell(B, B1, "0", ur(3), true, nil)),                                             // zero quantity
		fix(Sell(B, B1, "-1", ur(3), true, nil)),                                            // negative quantity
		UpdateOrder(B, B, 0, "", pcoin("uregen", 0), true, nil),                             // re-priced to zero
		UpdateOrder(B, B, 0, "", &sdk.Coin{Denom: "uregen", Amount: sdk.NewInt(-1)}, true, nil),
		UpdateOrder(B, B, 0, "0", nil, true, nil),    // quantity zero
		UpdateOrder(B, B, 0, "-0.5", nil, true, nil), // negative quantity
		fix(Sell(B, B1, ".-5", ur(3), true, nil)),    // a sign after a leading decimal point
		Buy(D, "dot-minus-qty", BuySpec{Seller: B, K: 0, Qty: ".-5", DAR: true, MaxFee: I64(100)}),
		Buy(D, "zero-qty", BuySpec{Seller: B, K: 0, Qty: "0", DAR: true, MaxFee: I64(100)}),
		Buy(D, "negative-qty", BuySpec{Seller: B, K: 0, Qty: "-0.5", DAR: true, MaxFee: I64(100)}),
	}
	e10a := chain.T0.Add(10*time.Second + 200*time.Millisecond)
	good := []E{
		fix(Sell(C, B2, "0.5", ur(2), true, &e10a)),      // expires 200 ms into a second ...
		fix(Next(10*time.Second + 500*time.Millisecond)), // ... and a block 500 ms into the same second
		fix(Sell(B, B1, "1.5", ur(3), true, nil)),
		fix(Sell(B, B2, "1e0", ib(7), false, &e20)),
		fix(Sell(C, B1, Eps, ur(1000003), true, &e10)),
		fix(Sell(C, B2, "2", ur(1), false, nil)),
		fix(SellN(B, "expiring+non-expiring", SO(B1, "0.5", ur(4), true, &e10), SO(B1, "0.25", ur(4), true, nil))),
		fix(SellN(C, "non-expiring+expiring", SO(B1, "0.5", ib(4), true, nil), SO(B2, "0.25", ib(4), false, &e20))),
		UpdateTwice(B, 0, "0.75", "0.5"),
		UpdateTwice(B, 0, "1.5", "2"),
		UpdateOrder(B, B, 0, "", nil, false, nil), // same quantity and price: only the auto-retire flag is switched back on
		UpdateOrder(B, B, 0, "2.5", nil, true, nil),
		UpdateOrder(B, B, 0, "0.5", nil, true, &e20),
		UpdateOrder(B, B, 1, "", pcoin("uregen", 5), false, nil),
		UpdateOrder(B, B, 1, "0.5", nil, false, nil), // keeps the (ibc) ask denom, changes the quantity
		UpdateOrder(C, C, 0, "0.25", pcoin(IBC, 2), true, &e20),
		CancelOrder(B, B, 0),
		CancelOrder(B, B, 1),
		CancelOrder(C, C, 0),
		Buy(D, "B0-half-tradable", BuySpec{Seller: B, K: 0, Qty: "0.5", DAR: true, MaxFee: I64(100)}),
		Buy(D, "B0-all-retire", BuySpec{Seller: B, K: 0, MaxFee: I64(100)}),
		Buy(D, "B0-all-padded-spelling", BuySpec{Seller: B, K: 0, Qty: "=padded", DAR: true, MaxFee: I64(100)}),
		Buy(D, "C0-all-sci-spelling", BuySpec{Seller: C, K: 0, Qty: "=sci", DAR: true, MaxFee: I64(100)}),
		Buy(C, "B1-all-retire", BuySpec{Seller: B, K: 1, MaxFee: I64(100)}),
		Buy(D, "C0-eps", BuySpec{Seller: C, K: 0, Qty: Eps, BidAdj: 1, DAR: true, MaxFee: I64(1000000)}),
		Buy(D, "B0+C0", BuySpec{Seller: B, K: 0, Qty: "0.25", DAR: true, MaxFee: I64(100)}, BuySpec{Seller: C, K: 0, Qty: "0.25", DAR: true, MaxFee: I64(100)}),
		Buy(D, "B0-twice", BuySpec{Seller: B, K: 0, Qty: "0.5", DAR: true, MaxFee: I64(100)}, BuySpec{Seller: B, K: 0, Qty: "0.5", DAR: true, MaxFee: I64(100)}),
		fix(Next(5 * time.Second)),
		fix(Next(10 * time.Second)),
		fix(Next(365 * 24 * time.Hour)),
		fix(GovFeeParams(G, "0.01", "0.333333")),
		fix(Msg("gov:remove-allowed-denom(ibc)", &markettypes.MsgRemoveAllowedDenom{Authority: G.String(), Denom: IBC})),
		fix(Msg("gov:add-allowed-denom(ibc)", &markettypes.MsgAddAllowedDenom{Authority: G.String(), BankDenom: IBC, DisplayDenom: "atom", Exponent: 6})),
		fix(Send(B, C, B1, "1", "0")),
		fix(Retire(C, B1, "1")),
	}
	// two more allowed denoms, one a string prefix of the other; the market of the LONGER one is created first
	good = append(good,
		fix(Sell(C, B2, "0.5", coin("uusdc", 5), true, nil)),
		fix(Sell(B, B1, "0.5", coin("uusd", 5), true, nil)),
	)
	prepared := PreparedSeed("prepared",
		Msg("gov:allow-uusdc", &markettypes.MsgAddAllowedDenom{Authority: G.String(), BankDenom: "uusdc", DisplayDenom: "usdc", Exponent: 6}),
		Msg("gov:allow-uusd", &markettypes.MsgAddAllowedDenom{Authority: G.String(), BankDenom: "uusd", DisplayDenom: "usd", Exponent: 6}),
		// the authority account itself holds credits of b1 and has some of them on sale
		Send(B, G, B1, "3", "0"),
		Sell(G, B1, "2", coin("uregen", 9), true, nil))
	prepared.Name = "prepared"
	// a buyer whose coins are all LOCKED (a permanent-locked vesting account): its balance covers a purchase,
	// its spendable balance does not, so the payment is refused by the bank after the marketplace's own
	// funds check has passed
	build := prepared.Build
	prepared.Build = func(c *chain.Chain) sdk.Context {
		ctx := build(c)
		locked := sdk.NewCoins(coin("uregen", 1000))
		base := authtypes.NewBaseAccountWithAddress(L)
		base.AccountNumber = c.AK.NextAccountNumber(ctx)
		c.AK.SetAccount(ctx, vestingtypes.NewPermanentLockedAccount(base, locked))
		c.Fund(ctx, L, locked)
		return ctx
	}
	bad = append(bad, Buy(L, "B0-half-by-locked-buyer", BuySpec{Seller: B, K: 0, Qty: "0.5", DAR: true, MaxFee: I64(100)}))
	bad = append(bad, UpdateTwiceThenForeign(B, 0, C), UpdateTwiceThenForeign(C, 0, B))
	// the seller buying its own order under another spelling of its address (upper-case bech32 is the same account)
	bad = append(bad, E{Name: "BuyDirect(B-in-upper-case,own-order)", Make: func(pre *chain.Snapshot) *explore.Action {
		id, ok := OrderSel(pre, B, 0)
		if !ok {
			return nil
		}
		var msg *markettypes.MsgBuyDirect
		for _, o := range pre.SellOrders {
			if m := pre.Market(o.MarketId); o.Id == id && m != nil {
				amt, _ := sdk.NewIntFromString(o.AskAmount)
				msg = MkBuyMsg(B, id, o.Quantity, sdk.NewCoin(m.BankDenom, amt), true).(*markettypes.MsgBuyDirect)
			}
		}
		if msg == nil {
			return nil
		}
		msg.Buyer = strings.ToUpper(B.String())
		return Msg(fmt.Sprintf("BuyDirect(B-in-upper-case,own-order)[id=%d]", id), msg)
	}})
	return Spec{Name: "market", Seeds: []explore.Seed{prepared, FreshCoreSeed()},
		Events: append(good, bad...), DepthQuick: 4, DepthThor: 5, ExpectFail: expectFail(names(bad...)...), MinStates: 500}
}

// Bridge: the three issuing entry points with origin txs, bridge out, cancel.
func BridgeSpec() Spec {
	tx := func(id int, src, contract string) *basetypes.OriginTx {
		return &basetypes.OriginTx{Id: TxHash(id), Source: src, Contract: contract}
	}
	bad := []E{
		fix(BridgeReceive(A, "C01", "VCS-2", B, "1", date(2021, 1, 1), date(2022, 1, 1), tx(1, "polygon", Contract1))), // tx 1 consumed by the seed
		fix(BridgeReceive(A, "C01", "VCS-2", B, "1", date(2021, 1, 1), date(2022, 1, 1), tx(9, "other", Contract2))),   // chain not allowed
		fix(BridgeReceive(D, "C01", "VCS-2", B, "1", date(2021, 1, 1), date(2022, 1, 1), tx(8, "polygon", Contract2))), // not an issuer
		fix(Bridge(B, "polygon", Cr(B1, "1"))),              // b1 has no contract
		fix(Bridge(B, "other", Cr(B3, "1"))),                // target not allowed
		fix(Mint(A, B3, B, "1", "0", tx(1, "polygon", ""))), // replay through mint
	}
	good := []E{
		fix(BridgeReceive(A, "C01", "VCS-1", C, "1.5", date(2021, 1, 1), date(2022, 1, 1), tx(2, "polygon", Contract1))), // bound contract => mints into b3
		fix(BridgeReceive(A, "C01", "VCS-2", C, "2", date(2021, 6, 1), date(2022, 1, 1), tx(3, "polygon", Contract2))),   // new contract => new project+batch
		fix(BridgeReceive(A, "C01", "VCS-1", B, Eps, date(2020, 1, 1), date(2022, 1, 1), tx(2, "Polygon", Contract1))),   // case variant of source
		fix(Mint(A, B3, C, "1", "0.5", tx(4, "polygon", ""))),
		fix(Mint(A, B1, C, "1", "0", tx(2, "polygon", ""))),                   // same id as a BridgeReceive event: whichever comes first wins
		fix(Mint(A, B3, C, "1", "0", tx(2, "Polygon", ""))),                   // the capitalised spelling, same id as the capitalised receipt
		fix(Bridge(C, "polygon", Cr("C01-003-20210601-20220101-001", "0.5"))), // out of the batch bound to the SECOND contract (after the VCS-2 receipt)
		fix(Sell(B, B3, "1", coin("uregen", 2), true, nil)),                   // the bridging holder has credits of the bridged batch on sale
		fix(Mint(A, B3, C, "1", "0", tx(6, "polygon", Contract2))),            // a direct mint into the bound batch naming ANOTHER contract
		fix(Mint(A, B1, C, "1", "0", tx(7, "polygon", Contract2))),            // ... and into a native batch
		fix(Mint(A, B3, C, "1", "0", tx(3, "polygon", ""))),                   // b3 lives in project key 3 of class key 1; tx 3 is also used by a BridgeReceive and a CreateBatch
		fix(CreateBatch(A, "C01-002", date(2022, 1, 1), date(2023, 1, 1), true, tx(3, "polygon", ""), Iss(B, "1", "0"))),
		fix(CreateBatch(A, "C01-001", date(2022, 1, 1), date(2023, 1, 1), true, tx(5, "polygon", Contract2), Iss(B, "3", "0"))),
		fix(CreateBatch(A2, "C02-001", date(2022, 1, 1), date(2023, 1, 1), true, tx(1, "polygon", Contract1), Iss(B, "3", "0"))), // other class: same tx+contract is fine
		// the same contract in ANOTHER class: A becomes an issuer of C02, then receives for contract 1 there
		fix(Msg("UpdateClassIssuers(A2,C02,+A)", &basetypes.MsgUpdateClassIssuers{Admin: A2.String(), ClassId: "C02", AddIssuers: []string{A.String()}})),
		fix(BridgeReceive(A, "C02", "VCS-1", C, "1.25", date(2021, 1, 1), date(2022, 1, 1), tx(6, "polygon", Contract1))),
		// a capitalised source on the route that CREATES the batch (new contract), to be repeated on the route that mints
		// into it (the identical receipt again), and the same pair through CreateBatch / MintBatchCredits directly
		fix(BridgeReceive(A, "C01", "VCS-3", C, "1", date(2021, 3, 1), date(2022, 1, 1), tx(10, "Polygon", Contract3))),
		fix(CreateBatch(A, "C01-001", date(2022, 2, 1), date(2023, 1, 1), true, tx(11, "Polygon", ""), Iss(B, "1", "0"))),
		fix(Mint(A, B1, C, "1", "0", tx(11, "Polygon", ""))),
		fix(Bridge(B, "polygon", Cr(B3, "1"))),
		fix(Bridge(B, "polygon", Cr(B3, "0.5"), Cr(B3, Eps))),
		fix(Bridge(C, "Polygon", Cr(B3, "1"))),
		fix(Bridge(B, "polygon", Cr(B3, "1"), Cr(B1, "1"))), // a bound batch followed by one without contract: must fail
		fix(Cancel(B, B3, "1")),
		fix(Seal(A, B3)),
		fix(Send(B, C, B3, "2", "0")),
		fix(Msg("gov:remove-bridge-chain(Polygon)", &basetypes.MsgRemoveAllowedBridgeChain{Authority: G.String(), ChainName: "Polygon"})),
		fix(Msg("gov:add-bridge-chain(POLYGON)", &basetypes.MsgAddAllowedBridgeChain{Authority: G.String(), ChainName: "POLYGON"})),
	}
	return Spec{Name: "bridge", Seeds: []explore.Seed{PreparedSeed("prepared")},
		Events: append(good, bad...), DepthQuick: 5, DepthThor: 7, ExpectFail: expectFail(append(names(bad...), "Bridge(B,polygon,"+B3+":1,"+B1+":1)")...), MinStates: 300}
}

// Large: the 34-significant-digit amount through every ledger.
func Large() Spec {
	good := []E{
		MintFresh(A, B1, B, Big, "0"),
		MintFresh(A, B1, B, Big, Big),
		fix(Send(B, C, B1, Big, "0")),
		fix(Send(B, C, B1, "0", Big)),
		SendAll(B, C, B1, "0", false),
		fix(Retire(C, B1, Big)),
		fix(Cancel(B, B1, Big)),
		fix(Put(B, NCT, BC(B1, Big))),
		fix(Put(C, NCT, BC(B1, Big))),
		fix(Put(B, NCT, BC(B1, "1"))),
		TakeAll(B, NCT, false),
		TakeAll(C, NCT, true),
		fix(Take(B, NCT, "1", false)),
		fix(Sell(B, B1, Big, coin("uregen", 1), true, nil)),
		CancelOrder(B, B, 2),
		MintFresh(A, B1, C, Eps, "0"),
		// balances of 35 significant digits (two exact additions of 34-digit amounts reach them too): the ledgers are exact,
		// a helper that rounds at 34 digits loses the last place of a retired balance / a supply
		MintFresh(A, B1, C, "1", Big35b),
		fix(Retire(C, B1, Eps)),
		fix(Cancel(C, B1, Eps)),
		fix(Send(C, B, B1, "0", Eps)),
	}
	// a second seed: a batch whose issuance gives C a RETIRED balance of 35 significant digits (an issuance is written as it
	// stands), credits of that batch on sale with and without auto-retire, some in an auto-retiring basket: every way in
	// which ANOTHER sub-module adds to that retired balance must add exactly
	lb := "C01-001-20220101-20230101-003"
	seed2 := PreparedSeed("prepared+35-digit-retired-balance",
		CreateBatch(A, "C01-001", date(2022, 1, 1), date(2023, 1, 1), true, nil, Iss(C, "1", Big35b), Iss(B, "4", "0")),
		SellN(B, "auto-retire+plain", SO(lb, "1", coin("uregen", 1), false, nil), SO(lb, "1", coin("uregen", 1), true, nil)),
		Put(B, RCT, BC(lb, "1")),
		BankSend("BankSend(B->C,1000000RCT)", B, C, coin(RCT, 1000000)),
	)
	seed2.Name = "prepared+35-digit-retired-balance"
	good = append(good,
		Buy(C, "B-auto-retire-order", BuySpec{Seller: B, K: 2, Qty: Eps, MaxFee: I64(100)}),
		Buy(C, "B-plain-order", BuySpec{Seller: B, K: 3, Qty: Eps, DAR: true, MaxFee: I64(100)}),
		fix(Take(C, RCT, "1", true)),
		fix(Retire(C, lb, Eps)),
		fix(Send(B, C, lb, "0", Eps)),
	)
	return Spec{Name: "large", Seeds: []explore.Seed{PreparedSeed("prepared"), seed2},
		Events: good, DepthQuick: 4, DepthThor: 5, MinStates: 200}
}

// Expiry: orders with every expiry kind against block-time sequences (C12).
func Expiry() Spec {
	e10 := chain.T0.Add(10 * time.Second)
	e10n := chain.T0.Add(10*time.Second + time.Nanosecond)
	e20 := chain.T0.Add(20 * time.Second)
	ur := func(n int64) sdk.Coin { return coin("uregen", n) }
	bad := []E{
		fix(Sell(B, B1, "1", ur(3), true, &chain.T0)), // expiration not in the future
	}
	good := []E{
		fix(Sell(B, B1, "0.5", ur(3), true, &e10)),
		fix(Sell(B, B1, "0.25", ur(3), true, &e10)), // second order, same seller/batch/expiry
		fix(Sell(B, B2, "1", ur(2), true, &e10n)),
		fix(Sell(C, B1, "1.5", ur(5), false, &e20)),
		fix(Sell(C, B2, "1", ur(5), true, nil)),
		fix(SellN(B, "expiring+non-expiring", SO(B1, "0.5", ur(4), true, &e10), SO(B1, "0.25", ur(4), true, nil))),
		fix(SellN(C, "non-expiring+expiring", SO(B1, "0.5", ur(4), true, nil), SO(B1, "0.25", ur(4), true, &e10n))),
		UpdateTwice(B, 1, "0.5", "0.5"),
		UpdateTwice(B, 1, "0.25", "0.75"),
		UpdateOrder(B, B, 1, "0.5", nil, false, &e20), // B's 2nd order (expiring T0+10s in the seed): new expiry + qty down
		UpdateOrder(B, B, 0, "2", nil, true, &e10),    // B's non-expiring order gets an expiry and more quantity
		UpdateOrder(C, C, 0, "0.5", nil, true, &e10n),
		Buy(D, "B1-half", BuySpec{Seller: B, K: 1, Qty: "0.5", MaxFee: I64(100)}),
		Buy(D, "C0-half", BuySpec{Seller: C, K: 0, Qty: "0.5", DAR: true, MaxFee: I64(100)}),
		Buy(D, "B0-all", BuySpec{Seller: B, K: 0, DAR: true, MaxFee: I64(100)}),
		CancelOrder(B, B, 1),
		CancelOrder(C, C, 0),
		// a balance at the edge of 34 significant digits, then its smallest unit on sale until T0+10s
		MintFresh(A, B1, D, Big, "0"),
		fix(Sell(D, B1, Eps, ur(3), true, &e10)),
		// what a seller does in the OTHER modules while orders are open must not make a later expiry fail
		fix(Send(B, D, B1, "0.5", "0.25")), // retire-on-send
		fix(Retire(B, B1, "0.5")),
		fix(Put(B, NCT, BC(B1, "0.5"))),
		fix(Next(5 * time.Second)),
		fix(Next(10 * time.Second)),
		fix(Next(10*time.Second + time.Nanosecond)),
		fix(Next(365 * 24 * time.Hour)),
	}
	return Spec{Name: "expiry", Seeds: []explore.Seed{PreparedSeed("prepared"), FreshCoreSeed()},
		Events: append(good, bad...), DepthQuick: 5, DepthThor: 6, ExpectFail: expectFail(names(bad...)...), MinStates: 500}
}

// ExpiryMany: many orders lapse in the same block (more than any page or batch size a handler might use:
// 101 orders of one seller with one expiration), next to orders of the same seller for ANOTHER batch that are
// adjacent in the expiration index, and orders that must survive.
func ExpiryMany() Spec {
	e10 := chain.T0.Add(10 * time.Second)
	e20 := chain.T0.Add(20 * time.Second)
	ur := func(n int64) sdk.Coin { return coin("uregen", n) }
	var many []*markettypes.MsgSell_Order
	for i := 0; i < 101; i++ {
		many = append(many, SO(B1, "0.01", ur(3), true, &e10))
	}
	seed := PreparedSeed("prepared+101-orders",
		SellN(B, "101-orders-expiring-T0+10s", many...),
		SellN(B, "two-batches-one-expiration", SO(B2, "0.5", ur(2), true, &e10), SO(B1, "0.25", ur(2), true, &e10), SO(B2, "0.25", ur(2), true, &e20)),
		SellN(C, "two-batches-one-expiration", SO(B1, "3", ur(5), true, &e20), SO(B2, "0.5", ur(5), true, &e20)),
	)
	seed.Name = "prepared+101-orders"
	evs := []E{
		fix(Next(5 * time.Second)),
		fix(Next(10 * time.Second)),
		fix(Next(20 * time.Second)),
		Buy(D, "B-first", BuySpec{Seller: B, K: 0, DAR: true, MaxFee: I64(100)}),
		Buy(D, "B-last", BuySpec{Seller: B, K: -1, DAR: true, MaxFee: I64(100)}),
		CancelOrder(B, B, 2),
		CancelOrder(C, C, -1),
		fix(Sell(B, B2, "0.25", ur(2), true, &e10)),
		fix(Retire(C, B1, "0.5")),
	}
	return Spec{Name: "expiry-many", Seeds: []explore.Seed{seed}, Events: evs, DepthQuick: 3, DepthThor: 4, MinStates: 50}
}

// GovPool: the marketplace fee pool under authority and non-authority
// messages, uregen (burn) and non-uregen (pool) fee paths (C03).
func GovPool() Spec {
	seed := PreparedSeed("prepared+fees",
		GovFeeParams(G, "0.1", "0.1"),
		Sell(B, B1, "3", coin(IBC, 1000), true, nil),
		Msg("seed:buy", &markettypes.MsgBuyDirect{Buyer: D.String(), Orders: []*markettypes.MsgBuyDirect_Order{
			{SellOrderId: 4, Quantity: "1", BidPrice: pcoin(IBC, 1000), DisableAutoRetire: true, MaxFeeAmount: pcoin(IBC, 100)}}}),
	)
	seed.Name = "prepared+fees"
	bad := []E{
		fix(GovSendFromPool(D, D, coin(IBC, 50))),
		fix(GovSendFromPool(B, B, coin(IBC, 1))),
		fix(GovSendFromPool(G, C, coin(IBC, 1000000))),
		fix(BankSend("BankSend(D->feepool,5ibc)", D, FeePool, coin(IBC, 5))), // blocked address
		fix(BurnRegen(D, "1000000000000")),
	}
	good := []E{
		fix(GovSendFromPool(G, D, coin(IBC, 50))),
		fix(GovSendFromPool(G, C, coin(IBC, 1))),
		fix(GovSendFromPool(G, G, coin(IBC, 149))),
		fix(BurnRegen(B, "1")),
		fix(BurnRegen(D, "1000003")),
		Buy(D, "ibc-order", BuySpec{Seller: B, K: 2, Qty: "0.5", DAR: true, MaxFee: I64(1000)}),
		Buy(D, "uregen-order", BuySpec{Seller: B, K: 0, Qty: "0.5", DAR: true, MaxFee: I64(1000)}),
		Buy(C, "ibc-order-by-C", BuySpec{Seller: B, K: 2, Qty: "0.25", DAR: true, MaxFee: I64(1000)}),
		fix(GovFeeParams(G, "0.333333", "0.01")),
		fix(GovFeeParams(G, "", "")),
		fix(Sell(C, B1, "1", coin(IBC, 7), true, nil)),
		Buy(D, "C-order", BuySpec{Seller: C, K: 1, Qty: "1", DAR: true, MaxFee: I64(1000)}),
		fix(BankSend("BankSend(D->B,5ibc)", D, B, coin(IBC, 5))),
	}
	return Spec{Name: "govpool", Seeds: []explore.Seed{seed},
		Events: append(good, bad...), DepthQuick: 4, DepthThor: 5, ExpectFail: expectFail(names(bad...)...), MinStates: 300}
}

// DropZeroAmounts removes every zero amount from the balance and supply rows of a genesis document (absent
// amounts are admitted by the module's validation and read as zero by the handlers).
func DropZeroAmounts(d GenDoc) {
	for _, table := range []string{"regen.ecocredit.v1.BatchBalance", "regen.ecocredit.v1.BatchSupply"} {
		var rows []map[string]interface{}
		if err := json.Unmarshal(d[table], &rows); err != nil {
			panic(err)
		}
		for _, r := range rows {
			for _, k := range []string{"tradableAmount", "retiredAmount", "escrowedAmount", "cancelledAmount", "tradable_amount", "retired_amount", "escrowed_amount", "cancelled_amount"} {
				if v, ok := r[k].(string); ok && v == "0" {
					delete(r, k)
				}
			}
		}
		d.Set(table, rows)
	}
}

// SparseGenesis: the prepared state IMPORTED FROM A GENESIS DOCUMENT in which every zero amount of the
// balance and supply rows is left out (an absent field; the modules' own validation admits it and the
// repository's own genesis test uses it), followed by operations of all three sub-modules on those rows.
// States built by messages never contain such rows.
func SparseGenesis() Spec {
	seed := GenesisSeed("genesis-with-absent-zero-amounts", PreparedActions(), DropZeroAmounts)
	e10 := chain.T0.Add(10 * time.Second)
	ur := func(n int64) sdk.Coin { return coin("uregen", n) }
	evs := []E{
		fix(Put(C, NCT, BC(B2, "1"))),
		fix(Put(C, RCT, BC(B1, "1"))),
		fix(Take(B, NCT, "1000000", false)),
		fix(Take(B, NCT, "500000", true)),
		TakeAll(C, NCT, false),
		TakeAll(C, RCT, true),
		fix(BankSend("BankSend(B->C,1000000NCT)", B, C, coin(NCT, 1000000))),
		fix(Send(C, B, B2, "1", "0.5")),
		fix(Send(B, D, B2, "1", "0")),
		fix(Retire(C, B2, "0.5")),
		fix(Cancel(C, B2, "0.5")),
		fix(Sell(C, B2, "1", ur(2), false, &e10)),
		Buy(D, "C-last-order", BuySpec{Seller: C, K: 1, Qty: "0.5", MaxFee: I64(100)}),
		MintFresh(A, B1, D, "1", "0"),
		fix(Next(11 * time.Second)),
	}
	exp := map[string]bool{}
	for _, e := range evs {
		exp[e.Name] = true
	}
	return Spec{Name: "sparse-genesis", Seeds: []explore.Seed{seed}, Events: evs, DepthQuick: 3, DepthThor: 4, ExpectFail: exp, MinStates: 100}
}

// OddGenesis: the prepared state (plus a class, batch and basket of the credit type BIO) imported from a
// HAND-WRITTEN genesis document with rows that no message would have produced but the modules' own
// validation admits: an open batch without supply row and balances, an expiring sell order whose quantity
// is 0, a sell order whose ask amount has a fraction, a carbon basket whose allowed classes include a class
// of another credit type. The events touch exactly those rows. (Rows of this kind violate the well-formedness
// clauses of C01/C06 by themselves, so the scenario is only used by the checks named in props.)
const OddBatch = "C01-001-20220101-20230101-009"

func OddGenesis() Spec {
	e10 := chain.T0.Add(10 * time.Second)
	seed := GenesisSeed("hand-written-genesis", append(PreparedActions(), ThreeLetterTypeActions()...), func(d GenDoc) {
		// ORM genesis tables are JSON lists; auto-increment tables start with the last id as a number
		load := func(table string) (lead []interface{}, rows []map[string]interface{}) {
			var raw []interface{}
			if err := json.Unmarshal(d[table], &raw); err != nil {
				panic(err)
			}
			for _, x := range raw {
				if m, ok := x.(map[string]interface{}); ok {
					rows = append(rows, m)
				} else {
					lead = append(lead, x)
				}
			}
			return
		}
		store := func(table string, lead []interface{}, rows []map[string]interface{}, lastID int) {
			var out []interface{}
			if len(lead) > 0 {
				out = append(out, lastID)
			}
			for _, r := range rows {
				out = append(out, r)
			}
			d.Set(table, out)
		}
		clone := func(m map[string]interface{}) map[string]interface{} {
			n := map[string]interface{}{}
			for k, v := range m {
				n[k] = v
			}
			return n
		}
		// (1) an open batch of project 1 with no supply row and no balances
		lead, b := load("regen.ecocredit.v1.Batch")
		nb := clone(b[0])
		nb["key"], nb["denom"], nb["open"] = "9", OddBatch, true
		nb["start_date"], nb["end_date"] = "2022-01-01T00:00:00Z", "2023-01-01T00:00:00Z"
		store("regen.ecocredit.v1.Batch", lead, append(b, nb), 9)
		// (2) sell orders: quantity 0 expiring at T0+10s, and a fractional ask amount
		lead, o := load("regen.ecocredit.marketplace.v1.SellOrder")
		o1, o2 := clone(o[0]), clone(o[0])
		o1["id"], o1["quantity"], o1["expiration"] = "8", "0", e10.Format(time.RFC3339)
		o2["id"], o2["quantity"], o2["ask_amount"] = "9", "0.5", "10.5" // escrowed below
		delete(o2, "expiration")
		store("regen.ecocredit.marketplace.v1.SellOrder", lead, append(o, o1, o2), 9)
		_, bal := load("regen.ecocredit.v1.BatchBalance")
		moved := false
		for _, r := range bal {
			if r["batch_key"] == "1" && r["tradable_amount"] == "5" && r["escrowed_amount"] == "2" {
				r["tradable_amount"], r["escrowed_amount"], moved = "4.5", "2.5", true
			}
		}
		if !moved {
			panic("odd genesis: B's balance row of b1 not found")
		}
		store("regen.ecocredit.v1.BatchBalance", nil, bal, 0)
		// (2b) the sealed batch b2 has a cancelled amount with one decimal place more than the precision
		_, sup := load("regen.ecocredit.v1.BatchSupply")
		for _, r := range sup {
			if r["batch_key"] == "2" {
				r["cancelled_amount"] = "0.1234567"
			}
		}
		store("regen.ecocredit.v1.BatchSupply", nil, sup, 0)
		// (3) the carbon basket NCT also lists the class BIO01
		_, bc := load("regen.ecocredit.basket.v1.BasketClass")
		store("regen.ecocredit.basket.v1.BasketClass", nil, append(bc, map[string]interface{}{"basket_id": "1", "class_id": "BIO01"}), 0)
	})
	evs := []E{
		MintFresh(A, OddBatch, B, "5", "0"),
		fix(Mint(A, OddBatch, C, "1", "0.5", nil)),
		fix(Send(B, C, OddBatch, "1", "0")),
		fix(Put(B, NCT, BC(BioBatch, "1"))),
		fix(Put(B, NCT, BC(B1, "1"))),
		fix(Cancel(C, B2, "0.5")), // b2's cancelled amount is over-precise: the handler refuses to add to it
		Buy(D, "order-with-fractional-ask", BuySpec{Seller: B, K: 3, Qty: "0", MaxFee: I64(100)}),
		fix(Msg("BuyDirect(D,order9,0.5@11)", MkBuyMsg(D, 9, "0.5", coin("uregen", 11), true))),
		fix(Msg("BuyDirect(D,order9,0.5@10)", MkBuyMsg(D, 9, "0.5", coin("uregen", 10), true))),
		fix(Msg("BuyDirect(D,order8,0.5@3)", MkBuyMsg(D, 8, "0.5", coin("uregen", 3), true))),
		CancelOrder(B, B, 2),
		fix(Next(5 * time.Second)),
		fix(Next(10 * time.Second)),
		fix(Next(365 * 24 * time.Hour)),
	}
	exp := map[string]bool{}
	for _, e := range evs {
		exp[e.Name] = true
	}
	return Spec{Name: "odd-genesis", Seeds: []explore.Seed{seed}, Events: evs, DepthQuick: 3, DepthThor: 4, ExpectFail: exp, MinStates: 20}
}

// genRows loads the rows of an ORM genesis table (auto-increment tables lead with the last id).
func genRows(d GenDoc, table string) (lead []interface{}, rows []map[string]interface{}) {
	var raw []interface{}
	if err := json.Unmarshal(d[table], &raw); err != nil {
		panic(err)
	}
	for _, x := range raw {
		if m, ok := x.(map[string]interface{}); ok {
			rows = append(rows, m)
		} else {
			lead = append(lead, x)
		}
	}
	return
}

func genStore(d GenDoc, table string, lead []interface{}, rows []map[string]interface{}) {
	out := append([]interface{}{}, lead...)
	for _, r := range rows {
		out = append(out, r)
	}
	d.Set(table, out)
}

// OddBasketGenesis (C05): basket balance rows no message writes — a positive balance spelled with one decimal place
// more than the precision, and an all-zero row (Take deletes a drained row). Both pass the module's validation; the
// value of the basket is unchanged, so the tokens stay backed 1:1 whatever Put / Take then do (or refuse to do).
func OddBasketGenesis() Spec {
	seed := GenesisSeed("genesis-with-odd-basket-balance-rows", PreparedActions(), func(d GenDoc) {
		lead, rows := genRows(d, "regen.ecocredit.basket.v1.BasketBalance")
		found := false
		for _, r := range rows {
			if r["balance"] == "2" {
				r["balance"], found = "2.0000000", true
			}
		}
		if !found {
			panic("odd basket genesis: NCT's balance row of b1 not found")
		}
		zero := map[string]interface{}{}
		for k, v := range rows[0] {
			zero[k] = v
		}
		zero["batch_denom"], zero["balance"], zero["batch_start_date"] = B2, "0", "2019-01-01T00:00:00Z"
		genStore(d, "regen.ecocredit.basket.v1.BasketBalance", lead, append(rows, zero))
	})
	evs := []E{
		fix(Put(B, NCT, BC(B1, "1"))),
		fix(Put(C, NCT, BC(B1, "0.5"))),
		fix(Put(B, NCT, BC(B2, "1"))),
		fix(Put(B, NCT, BC(B3, "1"))),
		fix(Put(B, RCT, BC(B1, "1"))),
		fix(Take(B, NCT, "1000000", false)),
		fix(Take(B, NCT, "500000", true)),
		TakeAll(B, NCT, false),
		fix(Next(11 * time.Second)),
	}
	exp := map[string]bool{}
	for _, e := range evs {
		exp[e.Name] = true
	}
	return Spec{Name: "odd-basket-genesis", Seeds: []explore.Seed{seed}, Events: evs, DepthQuick: 3, DepthThor: 4, ExpectFail: exp, MinStates: 10}
}

// ShortEscrowGenesis (C19, use sites of the balance subtraction): B's two open orders for b1 (1 + 1) are not covered by
// its escrowed amount (0; the credits are listed as tradable, so every sum the validation checks is unchanged).
// Releasing or filling such an order subtracts from an escrow that is too small: an error, never a negative amount.
func ShortEscrowGenesis() Spec {
	e20 := chain.T0.Add(20 * time.Second)
	seed := GenesisSeed("genesis-with-orders-exceeding-the-escrow", PreparedActions(), func(d GenDoc) {
		lead, rows := genRows(d, "regen.ecocredit.v1.BatchBalance")
		found := false
		for _, r := range rows {
			if r["batch_key"] == "1" && r["tradable_amount"] == "5" && r["escrowed_amount"] == "2" {
				r["tradable_amount"], r["escrowed_amount"], found = "7", "0", true
			}
		}
		if !found {
			panic("short escrow genesis: B's balance row of b1 not found")
		}
		genStore(d, "regen.ecocredit.v1.BatchBalance", lead, rows)
	})
	evs := []E{
		CancelOrder(B, B, 0),
		CancelOrder(B, B, 1),
		UpdateOrder(B, B, 0, "0.5", nil, true, nil),
		UpdateOrder(B, B, 1, "0.25", nil, true, &e20),
		Buy(D, "B0-half", BuySpec{Seller: B, K: 0, Qty: "0.5", DAR: true, MaxFee: I64(100)}),
		Buy(D, "B0-all", BuySpec{Seller: B, K: 0, DAR: true, MaxFee: I64(100)}),
		fix(Send(B, C, B1, "6", "0")),
		fix(Retire(B, B1, "7")),
		fix(Next(10 * time.Second)),
	}
	exp := map[string]bool{}
	for _, e := range evs {
		exp[e.Name] = true
	}
	return Spec{Name: "short-escrow-genesis", Seeds: []explore.Seed{seed}, Events: evs, DepthQuick: 3, DepthThor: 4, ExpectFail: exp, MinStates: 5}
}

// BasketMarket: basket tokens used as the ask denomination of the marketplace, with fees (C05): the
// marketplace moves, and for some denoms burns, coins of its own accord.
func BasketMarket() Spec {
	seed := PreparedSeed("prepared+fees+nct-allowed",
		GovFeeParams(G, "0.1", "0.05"),
		Msg("gov:allow-NCT", &markettypes.MsgAddAllowedDenom{Authority: G.String(), BankDenom: NCT, DisplayDenom: "nct", Exponent: 6}),
		Put(C, NCT, BC(B1, "2")), // C holds basket tokens too
	)
	seed.Name = "prepared+fees+nct-allowed"
	evs := []E{
		fix(Sell(C, B1, "1", coin(NCT, 100000), true, nil)),
		fix(Sell(B, B2, "1", coin(NCT, 333333), false, nil)),
		Buy(B, "C-nct-order-half", BuySpec{Seller: C, K: 1, Qty: "0.5", DAR: true, MaxFee: I64(1000000)}),
		Buy(B, "C-nct-order-all", BuySpec{Seller: C, K: 1, DAR: true, MaxFee: I64(1000000)}),
		Buy(C, "B-nct-order-all", BuySpec{Seller: B, K: 2, MaxFee: I64(1000000)}),
		fix(Take(B, NCT, "1000000", false)),
		TakeAll(C, NCT, false),
		fix(Put(B, NCT, BC(B2, "1"))),
		fix(GovSendFromPool(G, D, coin(NCT, 1))),
		fix(GovFeeParams(G, "", "")),
		fix(Next(11 * time.Second)),
	}
	exp := map[string]bool{}
	for _, e := range evs {
		exp[e.Name] = true
	}
	return Spec{Name: "basket-market", Seeds: []explore.Seed{seed}, Events: evs, DepthQuick: 4, DepthThor: 5, ExpectFail: exp, MinStates: 100}
}

// BasketLarge: basket totals beyond 34 significant digits (C05).
func BasketLarge() Spec {
	good := []E{
		MintFresh(A, B1, B, Big, "0"),
		MintFresh(A, B1, C, Big, "0"),
		MintFresh(A, B1, B, Big35, "0"),
		fix(Put(B, NCT, BC(B1, Big35))), // x 10^6 needs 35 significant digits: must be refused, not rounded
		fix(Put(B, NCT, BC(B1, Big))),
		fix(Put(C, NCT, BC(B1, Big))),
		fix(Put(B, NCT, BC(B1, "1.000001"))),
		fix(Put(C, RCT, BC(B1, Big))),
		TakeAll(B, NCT, false),
		TakeAll(C, NCT, true),
		fix(Take(B, NCT, "1", false)),
		fix(Take(C, NCT, "1000000", false)),
		// 35 significant digits of tokens (the basket reaches them only after two maximal puts): the exact
		// quotient does not fit, so the take must be refused, not rounded
		fix(Take(B, NCT, "10000000000000000000000000000000005", false)),
		fix(Take(B, NCT, "10000000000000000000000000000000004", true)),
		fix(BankSend("BankSend(B->C,1NCT)", B, C, coin(NCT, 1))),
	}
	// second seed: two maximal deposits already made and all tokens with B (more than 10^34 of them)
	maxTokens, _ := sdk.NewIntFromString("9999999999999999999999999999999999")
	full := PreparedSeed("prepared+two-maximal-puts",
		Mint(A, B1, B, Big, "0", &basetypes.OriginTx{Id: TxHash(901), Source: "polygon"}),
		Mint(A, B1, C, Big, "0", &basetypes.OriginTx{Id: TxHash(902), Source: "polygon"}),
		Put(B, NCT, BC(B1, Big)), Put(C, NCT, BC(B1, Big)),
		BankSend("seed:BankSend(C->B,all NCT)", C, B, sdk.NewCoin(NCT, maxTokens)))
	full.Name = "prepared+two-maximal-puts"
	exp := expectFail("Put(B,eco.uC.NCT," + B1 + ":" + Big35 + ")")
	exp["Take(B,eco.uC.NCT,10000000000000000000000000000000005,retire=false)"] = true
	exp["Take(B,eco.uC.NCT,10000000000000000000000000000000004,retire=true)"] = true
	return Spec{Name: "basket-large", Seeds: []explore.Seed{PreparedSeed("prepared"), full},
		Events: good, DepthQuick: 5, DepthThor: 7, ExpectFail: exp, MinStates: 100}
}

// Mixed: a cross-module alphabet (issuance, send, retire, basket, market,
// bridge, expiry, fee params together) at a lower depth, for interactions
// between sub-modules that the per-module alphabets cannot reach.
func Mixed() Spec {
	e10 := chain.T0.Add(10 * time.Second)
	ur := func(n int64) sdk.Coin { return coin("uregen", n) }
	evs := []E{
		MintN(A, B1, Iss(B, "1", "0.5"), Iss(C, "0.25", "0")),
		fix(SendN(B, C, SC(B1, "1", "0"), SC(B2, "0.5", "0.25"))),
		SendAll(B, D, B1, "0", false),
		fix(Retire(C, B1, "1")),
		fix(Cancel(B, B3, "1")),
		fix(Put(B, NCT, BC(B1, "1.5"), BC(B2, "1"))),
		fix(Put(C, RCT, BC(B1, "1"))),
		fix(Take(B, NCT, "2500000", false)),
		TakeAll(B, NCT, true),
		TakeAll(C, RCT, true),
		fix(BankSend("BankSend(B->D,1000000NCT)", B, D, coin(NCT, 1000000))),
		TakeAll(D, NCT, false),
		fix(SellN(B, "expiring+non-expiring", SO(B1, "0.5", ur(4), true, &e10), SO(B2, "0.25", ur(4), false, nil))),
		fix(Sell(D, B1, "0.5", ur(2), true, nil)), // succeeds only after D received credits
		UpdateTwice(B, 0, "0.75", "0.5"),
		UpdateOrder(B, B, 1, "", pcoin("uregen", 5), false, nil),
		CancelOrder(B, B, 0),
		CancelOrder(C, C, 0),
		Buy(D, "B0-half", BuySpec{Seller: B, K: 0, Qty: "0.5", DAR: true, MaxFee: I64(100)}),
		Buy(C, "B1-all-retire", BuySpec{Seller: B, K: 1, MaxFee: I64(100)}),
		Buy(D, "C0+B0", BuySpec{Seller: C, K: 0, Qty: "0.5", DAR: true, MaxFee: I64(100)}, BuySpec{Seller: B, K: 0, Qty: "0.25", DAR: true, MaxFee: I64(100)}),
		Buy(B, "D0-all", BuySpec{Seller: D, K: 0, DAR: true, MaxFee: I64(100)}),
		fix(Bridge(B, "polygon", Cr(B3, "1"))),
		fix(BridgeReceive(A, "C01", "VCS-1", C, "1.5", date(2021, 1, 1), date(2022, 1, 1), &basetypes.OriginTx{Id: TxHash(2), Source: "polygon", Contract: Contract1})),
		fix(Put(C, NCT, BC(B3, "1"))), // after the bridge receipt C holds b3
		fix(Seal(A, B1)),
		fix(GovFeeParams(G, "0.1", "0.05")),
		fix(Next(11 * time.Second)),
		fix(Next(5 * time.Second)),
	}
	exp := map[string]bool{}
	for _, e := range evs {
		exp[e.Name] = true
	}
	return Spec{Name: "mixed", Seeds: []explore.Seed{PreparedSeed("prepared")}, Events: evs, DepthQuick: 4, DepthThor: 5, ExpectFail: exp, MinStates: 1000}
}
