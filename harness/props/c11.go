package props

import (
	"time"

	"verif/harness/explore"
	"verif/harness/mon"
	"verif/harness/scen"
)

func init() {
	regSpec(scen.Criteria)
	Registry["C11"] = func(tier string) int {
		return engineA("C11", tier, []scen.Spec{scen.OddGenesis(), scen.Criteria(), scen.Basket()},
			func() []explore.Monitor { return []explore.Monitor{&mon.C11{}} },
			budget(tier, 150*time.Second, 15*time.Minute),
			"C11 alphabet bound: single put/take amounts below 34 significant digits (larger ones are refused by the exact conversion, DESIGN §12)")
	}
}
