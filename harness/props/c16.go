package props

import (
	"time"

	"verif/harness/explore"
	"verif/harness/mon"
	"verif/harness/scen"
)

func init() {
	regSpec(func() scen.Spec { return scen.DataSpec(true) })
	regSpec(scen.DataLong)
	Registry["C16"] = func(tier string) int {
		return engineA("C16", tier, []scen.Spec{scen.DataLong(), scen.DataSpec(tier == "thorough")},
			func() []explore.Monitor { return []explore.Monitor{&mon.C16{}} },
			budget(tier, 150*time.Second, 12*time.Minute),
			"ID hash functions are injected through the verif-tagged constructor; weak digests are wrapped by the repository's own hasher.NewHasherWithOptions so the real CreateID derivation is under test",
			"the content hash -> IRI naming function is the implementation's ToIRI (its correctness is C15's subject)")
	}
}
