// Package props binds each property id to its scenarios, monitors and bounds.
package props

import (
	"fmt"
	"os"
	"sort"
	"strconv"
	"time"

	"verif/harness/chain"
	"verif/harness/explore"
	"verif/harness/runner"
	"verif/harness/scen"
)

// Check runs one property at one tier and returns the process exit code.
type Check func(tier string) int

// Registry of property checks.
var Registry = map[string]Check{}

// IDs returns the registered ids in order.
func IDs() []string {
	var out []string
	for k := range Registry {
		out = append(out, k)
	}
	sort.Strings(out)
	return out
}

// budget returns the wall-clock budget of the exploration part of a check.
// It is a resource bound, never an oracle: hitting it yields exhaustive:false
// and exit 0.
func budget(tier string, quick, thorough time.Duration) time.Duration {
	if v := os.Getenv("VERIF_BUDGET_S"); v != "" {
		if n, err := strconv.Atoi(v); err == nil {
			return time.Duration(n) * time.Second
		}
	}
	if tier == "thorough" {
		return thorough
	}
	return quick
}

func depthAdj() int {
	n, _ := strconv.Atoi(os.Getenv("VERIF_DEPTH_ADJ"))
	return n
}

// engineA runs the given scenario specs with the monitor factory and reports.
func engineA(id, tier string, specs []scen.Spec, mons func() []explore.Monitor, total time.Duration, assumptions ...string) int {
	return engineAWith(id, tier, specs, mons, total, nil, assumptions...)
}

// engineAWith is engineA with an extra step that may add coverage and
// findings to the outcome before it is finished (C14's format enumerator).
func engineAWith(id, tier string, specs []scen.Spec, mons func() []explore.Monitor, total time.Duration, extra func(o *runner.Outcome), assumptions ...string) int {
	o := runner.New(id, tier, "model_checking")
	o.Assumptions = append([]string{
		"trusted base: Go, cosmos-sdk v0.47.12 (baseapp cache semantics, auth, bank, ORM, IAVL), cometbft-db MemDB, protobuf",
		"composition mirrors app/app.go by hand (module account permissions, blocked addresses, authority = gov module account)",
		"messages are delivered as baseapp does for a single-message tx: proto round trip, ValidateBasic, handler on a cache branch, write on success only; ante handlers/signatures are out of scope (signer = GetSigners())",
		"bounded: finite alphabets, depths and seeds as listed per scenario; block times after the Unix epoch",
	}, assumptions...)
	var stats []*explore.Stats
	var found []explore.Found
	runs := 0
	for _, sp := range specs {
		runs += len(sp.Seeds)
	}
	deadline := time.Now().Add(total)
	i := 0
	var specVac []string
	type rerun struct {
		idx  int
		sc   *explore.Scenario
		seed explore.Seed
	}
	var reruns []rerun
	for _, sp := range specs {
		perEvent := map[string][2]int64{}
		d := sp.DepthQuick
		if tier == "thorough" {
			d = sp.DepthThor
		}
		d += depthAdj()
		for _, seed := range sp.Seeds {
			// each run gets an equal share of what is left
			share := time.Until(deadline) / time.Duration(runs-i)
			i++
			sc := &explore.Scenario{Name: sp.Name, Seeds: sp.Seeds, Events: sp.Events, Depth: d, Monitors: mons, ExpectFail: sp.ExpectFail, MinStates: sp.MinStates}
			st, f := explore.Run(sc, seed, explore.Config{Deadline: time.Now().Add(share)})
			stats = append(stats, st)
			found = append(found, f...)
			if !st.Exhaustive && st.SeedError == "" {
				reruns = append(reruns, rerun{len(stats) - 1, sc, seed})
			}
			for k, v := range st.PerEvent {
				t := perEvent[k]
				t[0] += v[0]
				t[1] += v[1]
				perEvent[k] = t
			}
		}
		// vacuity per scenario over all its seeds: every event must be
		// applicable somewhere and, unless declared as expected to fail,
		// succeed somewhere.
		for _, ev := range sp.Events {
			if t, ok := perEvent[ev.Name]; !ok {
				specVac = append(specVac, sp.Name+": event never applicable: "+ev.Name)
			} else if t[0] == 0 && !sp.ExpectFail[ev.Name] {
				specVac = append(specVac, sp.Name+": event never succeeds: "+ev.Name)
			}
		}
	}
	// second pass: runs that hit their share of the budget are repeated, one after the other, with the time
	// the cheaper runs left over (a repeated run replaces the cut one only if it got at least as deep)
	for ri, r := range reruns {
		left := time.Until(deadline)
		if stats[r.idx].Exhaustive || left < 10*time.Second {
			continue
		}
		share := left / time.Duration(len(reruns)-ri)
		if share < time.Duration(stats[r.idx].WallS*float64(time.Second)) {
			continue // not more time than the first attempt had
		}
		st, f := explore.Run(r.sc, r.seed, explore.Config{Deadline: time.Now().Add(share)})
		if st.DepthCompleted >= stats[r.idx].DepthCompleted {
			stats[r.idx] = st
			found = append(found, f...)
		}
	}
	if len(specVac) > 0 && len(stats) > 0 {
		stats[len(stats)-1].Vacuity = append(stats[len(stats)-1].Vacuity, specVac...)
	}
	o.AddExplore(chain.New(chain.Options{}), stats, found)
	if extra != nil {
		extra(o)
	}
	rc := o.Finish()
	// seeds that cannot be built on this tree: if that left nothing explored
	// and nothing was found, there is no verdict (infrastructure failure)
	built, failed := 0, []string{}
	for _, s := range stats {
		if s.SeedError == "" {
			built++
		} else {
			failed = append(failed, s.Scenario+"/"+s.Seed+": "+s.SeedError)
		}
	}
	for _, f := range failed {
		fmt.Fprintln(os.Stderr, "seed could not be built:", f)
	}
	if rc == 0 && len(failed) > 0 {
		fmt.Fprintf(os.Stderr, "%s: %d of %d seed states could not be built on this tree and no violation was found from the others: no verdict\n", id, len(failed), len(stats))
		return 2
	}
	return rc
}
