package props

import (
	"time"

	"verif/harness/explore"
	"verif/harness/mon"
	"verif/harness/scen"
)

func init() {
	regSpec(scen.Boundary)
	Registry["C09"] = func(tier string) int {
		specs := []scen.Spec{scen.Boundary(), scen.Core(), scen.Market(), scen.Basket()}
		// the round trip costs ~10 ms per state: one layer less than the pure-monitor checks
		for i := range specs[1:] {
			specs[i+1].DepthQuick = 2
			specs[i+1].DepthThor = 3
		}
		return engineA("C09", tier, specs,
			func() []explore.Monitor {
				m := &mon.C09{}
				if tier == "thorough" {
					m.Diff = scen.Boundary().Events // differential oracle: original vs imported state under every boundary event
				}
				return []explore.Monitor{m}
			},
			budget(tier, 150*time.Second, 15*time.Minute),
			"bank and auth state are carried into the fresh chain by funding the same balances (supply follows); the equality oracle covers the ecocredit and data module documents, which is what the property names")
	}
}
