package props

import (
	"time"

	"verif/harness/explore"
	"verif/harness/mon"
	"verif/harness/scen"
)

func init() {
	regSpec(scen.IDs)
	Registry["C14"] = func(tier string) int {
		return engineA("C14", tier, []scen.Spec{scen.IDs(), scen.BridgeSpec()},
			func() []explore.Monitor { return []explore.Monitor{&mon.C14{}} },
			budget(tier, 80*time.Second, 12*time.Minute))
	}
}
