package props

import (
	"time"

	"verif/harness/explore"
	"verif/harness/mon"
	"verif/harness/pure"
	"verif/harness/runner"
	"verif/harness/scen"
)

func init() {
	regSpec(scen.IDs)
	Registry["C14"] = func(tier string) int {
		// the market scenario (orders open while governance removes and re-adds an ask denom) only for the
		// reference clauses, two levels shallower than in its own checks
		market := scen.Market()
		market.DepthQuick, market.DepthThor, market.MinStates = 2, 3, 50
		return engineAWith("C14", tier, []scen.Spec{scen.IDs(), scen.BridgeSpec(), market},
			func() []explore.Monitor { return []explore.Monitor{&mon.C14{}} },
			budget(tier, 150*time.Second, 12*time.Minute),
			func(o *runner.Outcome) { pure.C14Formats(tier, o); c14GenesisRefs(o) },
			"format part (Engine B): bounded-exhaustive enumeration of formatted ids and of arbitrary short strings against a hand-written recogniser of the documented grammar; details under coverage.formats")
	}
}
