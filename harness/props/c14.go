package props

import (
	"time"

	"verif/harness/explore"
	"verif/harness/mon"
	"verif/harness/pure"
	"verif/harness/runner"
	"verif/harness/scen"
)

func init() {
	regSpec(scen.IDs)
	Registry["C14"] = func(tier string) int {
		return engineAWith("C14", tier, []scen.Spec{scen.IDs(), scen.BridgeSpec()},
			func() []explore.Monitor { return []explore.Monitor{&mon.C14{}} },
			budget(tier, 150*time.Second, 12*time.Minute),
			func(o *runner.Outcome) { pure.C14Formats(tier, o) },
			"format part (Engine B): bounded-exhaustive enumeration of formatted ids and of arbitrary short strings against a hand-written recogniser of the documented grammar; details under coverage.formats")
	}
}
