package props

import (
	"time"

	"verif/harness/explore"
	"verif/harness/mon"
	"verif/harness/scen"
)

func init() {
	Registry["C13"] = func(tier string) int {
		return engineA("C13", tier, []scen.Spec{scen.BridgeSpec()},
			func() []explore.Monitor { return []explore.Monitor{&mon.C13{}} },
			budget(tier, 150*time.Second, 12*time.Minute),
			"origin transaction identity is the literal (id, source) pair within a class, as the property states; replays that differ only in the letter case of the source are counted as information (info_case_variant_source_replays), not as violations")
	}
}
