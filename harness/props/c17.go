package props

import (
	"time"

	"verif/harness/explore"
	"verif/harness/mon"
	"verif/harness/scen"
)

func init() {
	regSpec(scen.Queries)
	regSpec(scen.QueriesMany)
	Registry["C17"] = func(tier string) int {
		// The market scenario adds states with expiring / partially filled /
		// cancelled orders and escrow; one level shallower than its own checks
		// because every state costs a full request enumeration here.
		market := scen.Market()
		market.DepthQuick, market.DepthThor, market.MinStates = 2, 3, 50
		return engineA("C17", tier, []scen.Spec{scen.QueriesMany(), scen.Queries(), market},
			func() []explore.Monitor { return []explore.Monitor{&mon.C17{}} },
			budget(tier, 150*time.Second, 15*time.Minute),
			"C17 request alphabet per (query, filter argument): nil pagination; key walks with limit in {1,2,3,N,N+1} following next_key to exhaustion; offset in 0..N x limit in {1,2}; count_total on and off; reverse key walks (limit 1,2) and a reverse offset walk (limit 1)",
			"C17 filter arguments: every value present in the state plus near-miss absent values (proper prefixes/extensions of ids, denoms, reference ids, URLs and IRIs; 19/21/32-byte variants of addresses; unknown and malformed values)",
			"C17 oracle: brute-force filter over the primary-key full scan (snapshot); lists compared as multisets (no order demanded); total demanded only when count_total is set, no key is given and offset < N (the ORM counts only the remainder when a key is given and answers 0/N for offset >= N: recorded as observation counters)",
			"C17: an error is accepted instead of an empty list when the entity named by the filter argument does not exist or the argument is malformed; Balance and BasketBalance may answer zero for a missing row",
			"C17: (paged query, argument) pairs with more than 100 matching rows are outside the bound (default page limit of an un-paginated request) and counted as skipped_over_100; queries without pagination must answer in full",
			"C17: a (query, argument) pair is re-enumerated only when the rows of the tables its handler reads differ from a state already checked by the same worker (memo on a content hash of these tables; sound because handlers are deterministic functions of these rows)")
	}
}
