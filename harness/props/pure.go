package props

import "verif/harness/pure"

func init() {
	Registry["C20"] = pure.C20
}
