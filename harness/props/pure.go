package props

import "verif/harness/pure"

func init() {
	Registry["C19"] = pure.C19
	Registry["C20"] = pure.C20
}
