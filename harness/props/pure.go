package props

import "verif/harness/pure"

func init() {
	Registry["C15"] = pure.C15
	Registry["C19"] = pure.C19
	Registry["C20"] = pure.C20
}
