package props

import (
	"time"

	"verif/harness/explore"
	"verif/harness/mon"
	"verif/harness/scen"
)

func init() {
	regSpec(func() scen.Spec { return scen.C07Spec(false) })
	Registry["C07"] = func(tier string) int {
		return engineA("C07", tier, []scen.Spec{scen.C07Spec(tier != "thorough"), scen.OddGenesis(), scen.Market(), scen.GovPool()},
			func() []explore.Monitor { return []explore.Monitor{&mon.C07{FeePool: scen.FeePool.String()}} },
			budget(tier, 150*time.Second, 15*time.Minute),
			"C07 alphabet bound: ask x quantity stays below 34 significant digits (beyond it the subtotal is computed with 34-digit rounding, DESIGN §9-D8)")
	}
}
