package props

import (
	"encoding/json"
	"fmt"
	"math/big"
	"runtime"
	"sort"
	"strings"
	"sync"

	sdk "github.com/cosmos/cosmos-sdk/types"

	basetypes "github.com/regen-network/regen-ledger/x/ecocredit/v3/base/types/v1"
	baskettypes "github.com/regen-network/regen-ledger/x/ecocredit/v3/basket/types/v1"
	markettypes "github.com/regen-network/regen-ledger/x/ecocredit/v3/marketplace/types/v1"

	"verif/harness/chain"
	"verif/harness/explore"
	"verif/harness/ref"
	"verif/harness/runner"
	"verif/harness/scen"
)

// C18 — configurations x operations. Every configuration of the parameter
// product is offered along two acceptance paths (governance messages; genesis
// validation + import); on every ACCEPTED configuration every user operation
// whose own preconditions hold is executed on the real handlers.

type feeOpt struct {
	name string
	coin *sdk.Coin // nil = unset
	// raw, if set, is how the amount is SPELLED in a genesis document (a message cannot carry a spelling)
	raw string
}

var c18Fees = []feeOpt{
	{"unset", nil, ""},
	{"0uregen", &sdk.Coin{Denom: "uregen", Amount: sdk.NewInt(0)}, ""},
	{"1uregen", &sdk.Coin{Denom: "uregen", Amount: sdk.NewInt(1)}, ""},
	{"20000000uregen", &sdk.Coin{Denom: "uregen", Amount: sdk.NewInt(20000000)}, ""},
	{"5stake", &sdk.Coin{Denom: "stake", Amount: sdk.NewInt(5)}, ""},
	// a zero amount that a hand-written genesis spells with two digits
	{"00uregen(genesis spelling of zero)", &sdk.Coin{Denom: "uregen", Amount: sdk.NewInt(0)}, "00"},
	// 2 x 10^19: a fee of 20 tokens of an 18-decimals denom does not fit into 64 bits
	{"20000000000000000000uregen", &sdk.Coin{Denom: "uregen", Amount: sdk.NewIntFromUint64(10000000000000000000).MulRaw(2)}, ""},
}

// the last one: the creator is added, the list switched on, off and on again (a governance change reverted)
var c18Allow = []string{"off", "on+empty", "on+creator", "on+creator,toggled-off-and-on"}

// c18Mixed is a bank denom using every character class sdk.ValidateDenom admits.
const c18Mixed = "Wrapped/Asset:v1.X-y_Z"

var c18Denoms = [][]string{{}, {"uregen"}, {"uregen", scen.IBC}, {"uregen", scen.IBC, c18Mixed, "stake"}}
// the 34-digit third: a rate whose product with a 3-digit subtotal needs more than 34 significant digits
var c18Rates = []string{"", "0", "0.0", "0.01", "0.333333", "1", "1.5", "0.000000000000000001", "0.3333333333333333333333333333333333", "-1", "abc"}

type c18cfg struct {
	classFee, basketFee int
	allow, denoms       int
	rb, rs              int
}

func (c c18cfg) String() string {
	return fmt.Sprintf("class_fee=%s basket_fee=%s allowlist=%s allowed_denoms=%d buyer_fee=%q seller_fee=%q",
		c18Fees[c.classFee].name, c18Fees[c.basketFee].name, c18Allow[c.allow], len(c18Denoms[c.denoms]), c18Rates[c.rb], c18Rates[c.rs])
}

// baseline configuration: what a dimension is reset to during culprit analysis
var c18Base = c18cfg{classFee: 0, basketFee: 0, allow: 0, denoms: 2, rb: 0, rs: 0}

func copyCoin(c *sdk.Coin) *sdk.Coin {
	if c == nil {
		return nil
	}
	x := *c
	return &x
}

// govMessages turns a configuration into the governance messages that set it
// from the prepared state (allowed denoms there: stake, uregen, ibc).
func (c c18cfg) govMessages() []*explore.Action {
	g := scen.G.String()
	acts := []*explore.Action{
		scen.Msg("UpdateClassFee("+c18Fees[c.classFee].name+")", &basetypes.MsgUpdateClassFee{Authority: g, Fee: copyCoin(c18Fees[c.classFee].coin)}),
		scen.Msg("UpdateBasketFee("+c18Fees[c.basketFee].name+")", &baskettypes.MsgUpdateBasketFee{Authority: g, Fee: copyCoin(c18Fees[c.basketFee].coin)}),
	}
	if c.allow >= 2 {
		acts = append(acts, scen.Msg("AddClassCreator(D)", &basetypes.MsgAddClassCreator{Authority: g, Creator: scen.D.String()}))
	}
	if c.allow > 0 {
		acts = append(acts, scen.Msg("SetClassCreatorAllowlist(on)", &basetypes.MsgSetClassCreatorAllowlist{Authority: g, Enabled: true}))
	}
	if c.allow == 3 {
		acts = append(acts, scen.Msg("SetClassCreatorAllowlist(off)", &basetypes.MsgSetClassCreatorAllowlist{Authority: g, Enabled: false}),
			scen.Msg("SetClassCreatorAllowlist(on again)", &basetypes.MsgSetClassCreatorAllowlist{Authority: g, Enabled: true}))
	}
	want := map[string]bool{}
	for _, d := range c18Denoms[c.denoms] {
		want[d] = true
	}
	for _, d := range []string{"stake", "uregen", scen.IBC} {
		if !want[d] {
			acts = append(acts, scen.Msg("RemoveAllowedDenom("+d+")", &markettypes.MsgRemoveAllowedDenom{Authority: g, Denom: d}))
		}
		delete(want, d)
	}
	for _, d := range c18Denoms[c.denoms] {
		if want[d] {
			acts = append(acts, scen.Msg("AddAllowedDenom("+d+")", &markettypes.MsgAddAllowedDenom{Authority: g, BankDenom: d, DisplayDenom: "display" + fmt.Sprint(len(d)), Exponent: 6}))
		}
	}
	acts = append(acts, scen.GovFeeParams(scen.G, c18Rates[c.rb], c18Rates[c.rs]))
	return acts
}

// patchGenesis writes the configuration into an ecocredit genesis document.
func (c c18cfg) patchGenesis(d scen.GenDoc) {
	fee := func(f feeOpt) interface{} {
		if f.coin == nil {
			return map[string]interface{}{"fee": nil}
		}
		amt := f.coin.Amount.String()
		if f.raw != "" {
			amt = f.raw
		}
		return map[string]interface{}{"fee": map[string]string{"denom": f.coin.Denom, "amount": amt}}
	}
	d.Set("regen.ecocredit.v1.ClassFee", fee(c18Fees[c.classFee]))
	d.Set("regen.ecocredit.basket.v1.BasketFee", fee(c18Fees[c.basketFee]))
	d.Set("regen.ecocredit.v1.ClassCreatorAllowlist", map[string]bool{"enabled": c.allow > 0})
	creators := []map[string][]byte{}
	if c.allow >= 2 {
		creators = append(creators, map[string][]byte{"address": scen.D})
	}
	d.Set("regen.ecocredit.v1.AllowedClassCreator", creators)
	denoms := []map[string]interface{}{}
	ds := append([]string{}, c18Denoms[c.denoms]...)
	sort.Strings(ds)
	for _, x := range ds {
		denoms = append(denoms, map[string]interface{}{"bank_denom": x, "display_denom": "display" + fmt.Sprint(len(x)), "exponent": 6})
	}
	d.Set("regen.ecocredit.marketplace.v1.AllowedDenom", denoms)
	d.Set("regen.ecocredit.marketplace.v1.FeeParams", map[string]string{"buyer_percentage_fee": c18Rates[c.rb], "seller_percentage_fee": c18Rates[c.rs]})
}

// c18Env is the shared base: prepared state on one chain (message path) and
// its exported genesis (genesis path).
type c18Env struct {
	c       *chain.Chain
	base    sdk.Context
	ecoDoc  scen.GenDoc
	dataGen json.RawMessage
	bal     map[string]sdk.Coins
}

func newC18Env() *c18Env {
	c := chain.New(chain.Options{})
	ctx := scen.PreparedNoOrdersSeed("prepared-without-orders", scen.ThreeLetterTypeActions()...).Build(c)
	e := &c18Env{c: c, base: ctx, ecoDoc: scen.ExportEco(c, ctx)}
	var err error
	e.dataGen, err = c.DataSrv.ExportGenesis(ctx, c.Cdc)
	if err != nil {
		panic(err)
	}
	e.bal = map[string]sdk.Coins{}
	for a, cs := range c.Snap(ctx).Coins {
		var coins sdk.Coins
		for d, v := range cs {
			coins = coins.Add(sdk.NewCoin(d, sdk.NewIntFromBigInt(v)))
		}
		e.bal[a] = coins
	}
	return e
}

// configure returns the configured state along a path, or accepted=false.
func (e *c18Env) configure(cfg c18cfg, path string) (c *chain.Chain, ctx sdk.Context, accepted bool, why string) {
	if path == "msg" {
		ctx, _ := e.base.CacheContext()
		for _, a := range cfg.govMessages() {
			_, w, res, _ := explore.Apply(e.c, ctx, a)
			if !res.OK {
				return nil, ctx, false, a.Label + ": " + res.Err
			}
			w()
		}
		return e.c, ctx, true, ""
	}
	doc := scen.GenDoc{}
	for k, v := range e.ecoDoc {
		doc[k] = v
	}
	cfg.patchGenesis(doc)
	nc := chain.New(chain.Options{})
	if err := nc.Eco.ValidateGenesis(nc.Cdc, nil, doc.JSON()); err != nil {
		return nil, sdk.Context{}, false, err.Error()
	}
	nctx := nc.BaseContext(chain.T0, 1)
	var perr string
	func() {
		defer func() {
			if r := recover(); r != nil {
				perr = fmt.Sprint(r)
			}
		}()
		nc.InitGenesis(nctx, chain.Genesis{Ecocredit: doc.JSON(), Data: e.dataGen, Balances: e.bal})
	}()
	if perr != "" {
		return nil, sdk.Context{}, false, "InitGenesis: " + perr
	}
	return nc, nctx, true, ""
}

type c18op struct {
	name string
	dims []string // configuration dimensions the operation depends on
	// run executes the operation on a branch of ctx and returns violations as (kindSuffix, detail)
	run func(c *chain.Chain, ctx sdk.Context, cfg c18cfg) (applicable bool, problems [][2]string)
}

func coinDelta(pre, post *chain.Snapshot, addr, denom string) *big.Int {
	return new(big.Int).Sub(post.Coin(addr, denom), pre.Coin(addr, denom))
}

// creationOp builds the CreateClass / basket Create operations.
func creationOp(kind string) c18op {
	isClass := kind == "CreateClass"
	mk := func(signer sdk.AccAddress, offer *sdk.Coin, tag string) *explore.Action {
		if isClass {
			return scen.Msg(fmt.Sprintf("CreateClass(%s,offer=%v)", tag, offer), &basetypes.MsgCreateClass{Admin: signer.String(), Issuers: []string{signer.String()}, Metadata: "m", CreditTypeAbbrev: "C", Fee: copyCoin(offer)})
		}
		var fee sdk.Coins
		if offer != nil {
			fee = sdk.Coins{*offer}
		}
		return scen.Msg(fmt.Sprintf("basket.Create(%s,offer=%v)", tag, offer), &baskettypes.MsgCreate{Curator: signer.String(), Name: "NEWB", DisableAutoRetire: true, CreditTypeAbbrev: "C", AllowedClasses: []string{"C01"}, Fee: fee})
	}
	modAcc := scen.EcoMod.String()
	dims := []string{"class_fee", "allowlist"}
	if !isClass {
		modAcc = scen.BasketMod.String()
		dims = []string{"basket_fee"}
	}
	return c18op{name: kind, dims: dims, run: func(c *chain.Chain, ctx sdk.Context, cfg c18cfg) (bool, [][2]string) {
		var probs [][2]string
		fee := c18Fees[cfg.basketFee]
		if isClass {
			fee = c18Fees[cfg.classFee]
			if cfg.allow == 1 {
				// nobody is allow-listed: the operation's own precondition cannot hold; it must be rejected
				_, _, res, _ := explore.Apply(c, ctx, mk(scen.D, copyCoin(fee.coin), "D"))
				if res.OK {
					probs = append(probs, [2]string{"created-without-being-allow-listed", "allowlist on and empty, yet D created a class"})
				}
				return false, probs
			}
		}
		creator := scen.D // funded; allow-listed in allow==2
		if fee.coin != nil && fee.coin.Amount.IsPositive() {
			// the creator's own precondition: enough funds for the fee (whatever its size) and a bit more
			ctx, _ = ctx.CacheContext()
			c.Fund(ctx, creator, sdk.NewCoins(sdk.NewCoin(fee.coin.Denom, fee.coin.Amount.AddRaw(10))))
		}
		pre := c.Snap(ctx)
		check := func(tag string, offer *sdk.Coin, mustSucceed bool) {
			a := mk(creator, offer, tag)
			post, _, res, _ := explore.Apply(c, ctx, a)
			if !res.OK {
				if mustSucceed {
					k := "op-fails"
					if res.Panic {
						k = "op-panics"
					}
					probs = append(probs, [2]string{k, fmt.Sprintf("%s with %s: %s", a.Label, cfg, res.Err)})
				}
				return
			}
			if !mustSucceed {
				probs = append(probs, [2]string{"underpaid-creation-accepted", fmt.Sprintf("%s with %s", a.Label, cfg)})
				return
			}
			ps := c.Snap(post)
			want := new(big.Int)
			den := "uregen"
			if fee.coin != nil {
				want = fee.coin.Amount.BigInt()
				den = fee.coin.Denom
			}
			for d := range map[string]bool{"uregen": true, "stake": true, scen.IBC: true, den: true} {
				w := new(big.Int)
				if d == den {
					w = new(big.Int).Neg(want)
				}
				if coinDelta(pre, ps, creator.String(), d).Cmp(w) != 0 {
					probs = append(probs, [2]string{"fee-debit-not-exact", fmt.Sprintf("%s with %s: creator %s changed by %s, fee %s", a.Label, cfg, d, coinDelta(pre, ps, creator.String(), d), w)})
				}
				if new(big.Int).Sub(ps.TotalSupply(d), pre.TotalSupply(d)).Cmp(w) != 0 {
					probs = append(probs, [2]string{"fee-not-burned-exactly", fmt.Sprintf("%s with %s: supply of %s changed by %s, fee %s", a.Label, cfg, d, new(big.Int).Sub(ps.TotalSupply(d), pre.TotalSupply(d)), w)})
				}
				if ps.Coin(modAcc, d).Cmp(pre.Coin(modAcc, d)) != 0 {
					probs = append(probs, [2]string{"module-account-keeps-fee", fmt.Sprintf("%s with %s", a.Label, cfg)})
				}
			}
		}
		switch {
		case fee.coin == nil:
			check("no-fee-set,offer-nothing", nil, true)
			check("no-fee-set,offer-5uregen", &sdk.Coin{Denom: "uregen", Amount: sdk.NewInt(5)}, true)
		case fee.coin.Amount.IsZero():
			// a zero fee cannot be offered literally (message validation demands a positive amount);
			// offering more than the fee satisfies "offer >= fee"
			check("zero-fee,offer-1", &sdk.Coin{Denom: fee.coin.Denom, Amount: sdk.NewInt(1)}, true)
		default:
			check("offer-exactly", copyCoin(fee.coin), true)
			more := sdk.Coin{Denom: fee.coin.Denom, Amount: fee.coin.Amount.AddRaw(5)}
			check("offer-more", &more, true)
			if fee.coin.Amount.GT(sdk.NewInt(1)) {
				less := sdk.Coin{Denom: fee.coin.Denom, Amount: fee.coin.Amount.SubRaw(1)}
				check("offer-less", &less, false)
			}
			check("offer-other-denom", &sdk.Coin{Denom: "ibc/OTHER", Amount: fee.coin.Amount}, false)
			// lacking funds: Z holds nothing
			if !isClass || cfg.allow == 0 {
				z := scen.P // an unfunded account in this state
				a := mk(z, copyCoin(fee.coin), "unfunded")
				_, _, res, _ := explore.Apply(c, ctx, a)
				if res.OK {
					probs = append(probs, [2]string{"creation-without-funds-accepted", fmt.Sprintf("%s with %s", a.Label, cfg)})
				}
			}
		}
		return true, probs
	}}
}

func marketOp() c18op {
	return c18op{name: "Sell+BuyDirect", dims: []string{"allowed_denoms", "buyer_fee", "seller_fee"}, run: func(c *chain.Chain, ctx sdk.Context, cfg c18cfg) (bool, [][2]string) {
		var probs [][2]string
		if len(c18Denoms[cfg.denoms]) == 0 {
			return false, nil
		}
		for _, den := range c18Denoms[cfg.denoms] {
			branch, _ := ctx.CacheContext()
			sell := scen.Sell(scen.B, scen.B1, "1", sdk.NewInt64Coin(den, 1000), true, nil)
			post, w, res, _ := explore.Apply(c, branch, sell)
			if !res.OK {
				k := "op-fails/Sell"
				if res.Panic {
					k = "op-panics/Sell"
				}
				probs = append(probs, [2]string{k, fmt.Sprintf("%s with %s: %s", sell.Label, cfg, res.Err)})
				continue
			}
			w()
			_ = post
			r, _ := res.Resp.(*markettypes.MsgSellResponse)
			if r == nil || len(r.SellOrderIds) != 1 {
				continue
			}
			bid := sdk.NewInt64Coin(den, 1000)
			c.Fund(branch, scen.D, sdk.NewCoins(sdk.NewInt64Coin(den, 10_000_000))) // the buyer's own precondition
			maxFee := sdk.NewInt64Coin(den, 1_000_000)                              // well above floor(buyer fee) for every accepted rate in the alphabet
			buy := scen.Msg(fmt.Sprintf("BuyDirect(D,0.5@1000%s)", strings.SplitN(den, "/", 2)[0]), &markettypes.MsgBuyDirect{Buyer: scen.D.String(), Orders: []*markettypes.MsgBuyDirect_Order{
				{SellOrderId: r.SellOrderIds[0], Quantity: "0.5", BidPrice: &bid, DisableAutoRetire: true, MaxFeeAmount: &maxFee}}})
			preBuy := c.Snap(branch)
			postBuy, bw, bres, _ := explore.Apply(c, branch, buy)
			if !bres.OK {
				k := "op-fails/BuyDirect"
				if bres.Panic {
					k = "op-panics/BuyDirect"
				}
				probs = append(probs, [2]string{k, fmt.Sprintf("%s with %s: %s", buy.Label, cfg, bres.Err)})
				continue
			}
			bw()
			// the accepted rates are in force: the fee collected on this purchase (subtotal 500) is the
			// truncation of 500 x buyer rate + 500 x seller rate, the seller receives the truncation of the rest
			{
				rate := func(r string) *big.Rat {
					if p, err := ref.Parse(r); r != "" && err == nil {
						return p.R
					}
					return new(big.Rat)
				}
				rbq, rsq := rate(c18Rates[cfg.rb]), rate(c18Rates[cfg.rs])
				sub := big.NewRat(500, 1)
				fl := func(x *big.Rat) *big.Int { return new(big.Int).Quo(x.Num(), x.Denom()) }
				wantFee := fl(new(big.Rat).Add(new(big.Rat).Mul(sub, rbq), new(big.Rat).Mul(sub, rsq)))
				wantSeller := fl(new(big.Rat).Mul(sub, new(big.Rat).Sub(big.NewRat(1, 1), rsq)))
				ps := c.Snap(postBuy)
				var gotFee *big.Int
				if den == "uregen" {
					gotFee = new(big.Int).Sub(preBuy.TotalSupply(den), ps.TotalSupply(den))
				} else {
					gotFee = coinDelta(preBuy, ps, scen.FeePool.String(), den)
				}
				if gotFee.Cmp(wantFee) != 0 {
					probs = append(probs, [2]string{"fee-rates-not-in-force/fee-collected", fmt.Sprintf("%s with %s: fee collected %s, the accepted rates give %s", buy.Label, cfg, gotFee, wantFee)})
				}
				if got := coinDelta(preBuy, ps, scen.B.String(), den); got.Cmp(wantSeller) != 0 {
					probs = append(probs, [2]string{"fee-rates-not-in-force/seller-payment", fmt.Sprintf("%s with %s: seller received %s, the accepted rates give %s", buy.Label, cfg, got, wantSeller)})
				}
			}
			// a buyer who caps the fee at an explicit ZERO coin: the cap covers the buyer fee whenever that fee,
			// rounded down to whole units, is zero (0.25 x 1000 x buyer rate < 1)
			rate := new(big.Rat)
			if r := c18Rates[cfg.rb]; r != "" {
				if p, err := ref.Parse(r); err == nil {
					rate = p.R
				}
			}
			if new(big.Rat).Mul(big.NewRat(250, 1), rate).Cmp(big.NewRat(1, 1)) < 0 {
				zero := sdk.Coin{Denom: den, Amount: sdk.NewInt(0)}
				buy0 := scen.Msg(fmt.Sprintf("BuyDirect(D,0.25@1000%s,max_fee=0)", strings.SplitN(den, "/", 2)[0]), &markettypes.MsgBuyDirect{Buyer: scen.D.String(), Orders: []*markettypes.MsgBuyDirect_Order{
					{SellOrderId: r.SellOrderIds[0], Quantity: "0.25", BidPrice: &bid, DisableAutoRetire: true, MaxFeeAmount: &zero}}})
				if _, _, zres, _ := explore.Apply(c, branch, buy0); !zres.OK {
					k := "op-fails/BuyDirect-with-zero-max-fee"
					if zres.Panic {
						k = "op-panics/BuyDirect-with-zero-max-fee"
					}
					probs = append(probs, [2]string{k, fmt.Sprintf("%s with %s: %s", buy0.Label, cfg, zres.Err)})
				}
			}
		}
		return true, probs
	}}
}

func basketOp() c18op {
	return c18op{name: "Put+Take", dims: nil, run: func(c *chain.Chain, ctx sdk.Context, cfg c18cfg) (bool, [][2]string) {
		var probs [][2]string
		branch, _ := ctx.CacheContext()
		for _, a := range []*explore.Action{scen.Put(scen.B, scen.NCT, scen.BC(scen.B1, "1")), scen.Take(scen.B, scen.NCT, "1000000", false),
			// the basket of a three-letter credit type added through governance
			scen.Put(scen.B, scen.BioBasket, scen.BC(scen.BioBatch, "1")), scen.Take(scen.B, scen.BioBasket, "1000000", false)} {
			_, w, res, _ := explore.Apply(c, branch, a)
			if !res.OK {
				probs = append(probs, [2]string{"op-fails/" + strings.SplitN(a.Label, "(", 2)[0], fmt.Sprintf("%s with %s: %s", a.Label, cfg, res.Err)})
				break
			}
			w()
		}
		return true, probs
	}}
}

func dimValue(cfg c18cfg, dim string) string {
	switch dim {
	case "class_fee":
		return c18Fees[cfg.classFee].name
	case "basket_fee":
		return c18Fees[cfg.basketFee].name
	case "allowlist":
		return c18Allow[cfg.allow]
	case "allowed_denoms":
		return fmt.Sprint(len(c18Denoms[cfg.denoms]))
	case "buyer_fee":
		return fmt.Sprintf("%q", c18Rates[cfg.rb])
	case "seller_fee":
		return fmt.Sprintf("%q", c18Rates[cfg.rs])
	}
	return "?"
}

// setDim returns base with one dimension taken from cfg.
func setDim(base, cfg c18cfg, dim string) c18cfg {
	switch dim {
	case "class_fee":
		base.classFee = cfg.classFee
	case "basket_fee":
		base.basketFee = cfg.basketFee
	case "allowlist":
		base.allow = cfg.allow
	case "allowed_denoms":
		base.denoms = cfg.denoms
	case "buyer_fee":
		base.rb = cfg.rb
	case "seller_fee":
		base.rs = cfg.rs
	}
	return base
}

func resetDim(cfg c18cfg, dim string) c18cfg {
	switch dim {
	case "class_fee":
		cfg.classFee = c18Base.classFee
	case "basket_fee":
		cfg.basketFee = c18Base.basketFee
	case "allowlist":
		cfg.allow = c18Base.allow
	case "allowed_denoms":
		cfg.denoms = c18Base.denoms
	case "buyer_fee":
		cfg.rb = c18Base.rb
	case "seller_fee":
		cfg.rs = c18Base.rs
	}
	return cfg
}

func c18Configs(tier string) []c18cfg {
	var out []c18cfg
	if tier == "thorough" {
		for cf := range c18Fees {
			for bf := range c18Fees {
				for al := range c18Allow {
					for dn := range c18Denoms {
						for rb := range c18Rates {
							for rs := range c18Rates {
								out = append(out, c18cfg{cf, bf, al, dn, rb, rs})
							}
						}
					}
				}
			}
		}
		return out
	}
	// quick: the two independent sub-products in full (creation fees x allowlist; denoms x rate pairs)
	for cf := range c18Fees {
		for bf := range c18Fees {
			for al := range c18Allow {
				out = append(out, c18cfg{cf, bf, al, c18Base.denoms, c18Base.rb, c18Base.rs})
			}
		}
	}
	for dn := range c18Denoms {
		for rb := range c18Rates {
			for rs := range c18Rates {
				out = append(out, c18cfg{c18Base.classFee, c18Base.basketFee, c18Base.allow, dn, rb, rs})
			}
		}
	}
	return out
}

func init() {
	Registry["C18"] = func(tier string) int {
		o := runner.New("C18", tier, "model_checking")
		o.Assumptions = []string{
			"trusted base and composition as for the Engine A checks",
			"configuration alphabet: class/basket fee in {unset, 0uregen, 1uregen, 20000000uregen, 5stake, 2x10^19 uregen (beyond 64 bits), zero spelled 00 in genesis}; allowlist {off, on+empty, on+creator}; credit types C and (three letters, added through governance) BIO, each with a basket; allowed denoms {none, uregen, uregen+ibc voucher, uregen+ibc voucher+mixed-case denom+stake}; buyer and seller fee rate each in " + fmt.Sprintf("%q", c18Rates),
			"acceptance paths: (msg) governance messages through ValidateBasic + handler from the prepared state; (genesis) Module.ValidateGenesis + InitGenesis of the prepared state's export with the parameter tables replaced",
			"an operation's own preconditions: creator funded, allow-listed when the allowlist is on, offering at least the fee; seller holds credits and asks in an allowed denom; buyer funded, bid = ask, max fee far above the buyer fee",
		}
		cfgs := c18Configs(tier)
		ops := []c18op{creationOp("CreateClass"), creationOp("basket.Create"), marketOp(), basketOp()}
		type result struct {
			accepted, rejected, opsRun int64
			findings                   []runner.Finding
			rejectSamples              []string
		}
		var mu sync.Mutex
		total := result{}
		kinds := map[string]bool{}
		workers := runtime.NumCPU()
		var wg sync.WaitGroup
		ch := make(chan int, 256)
		var samples []interface{}
		for w := 0; w < workers; w++ {
			wg.Add(1)
			go func() {
				defer wg.Done()
				env := newC18Env()
				culprit := map[string]string{}
				for i := range ch {
					cfg := cfgs[i]
					for _, path := range []string{"msg", "genesis"} {
						c, ctx, ok, why := env.configure(cfg, path)
						mu.Lock()
						if !ok {
							total.rejected++
							if len(total.rejectSamples) < 6 {
								total.rejectSamples = append(total.rejectSamples, path+": "+cfg.String()+" => "+why)
							}
							mu.Unlock()
							continue
						}
						total.accepted++
						if len(samples) < 4 {
							samples = append(samples, map[string]string{"path": path, "configuration": cfg.String()})
						}
						mu.Unlock()
						for _, op := range ops {
							applicable, probs := op.run(c, ctx, cfg)
							mu.Lock()
							if applicable {
								total.opsRun++
							}
							mu.Unlock()
							for _, p := range probs {
								// culprit analysis: which single dimensions, reset to the baseline, make the problem disappear
								key := op.name + "|" + path + "|" + p[0]
								for _, d := range op.dims {
									key += "|" + d + "=" + dimValue(cfg, d)
								}
								cul, done := culprit[key]
								if !done {
									// bottom-up: which single dimension value, set on the baseline
									// configuration, already reproduces the problem
									var cs []string
									for _, d := range op.dims {
										alt := setDim(c18Base, cfg, d)
										if alt == c18Base {
											continue
										}
										ac, actx, aok, _ := env.configure(alt, path)
										if !aok {
											continue
										}
										_, ap := op.run(ac, actx, alt)
										for _, q := range ap {
											if q[0] == p[0] {
												cs = append(cs, d+"="+dimValue(cfg, d))
												break
											}
										}
									}
									if len(cs) == 0 {
										var all []string
										for _, d := range op.dims {
											all = append(all, d+"="+dimValue(cfg, d))
										}
										cs = []string{strings.Join(all, ",")}
									}
									cul = strings.Join(cs, ";")
									culprit[key] = cul
								}
								for _, one := range strings.Split(cul, ";") {
									kind := fmt.Sprintf("C18/%s/%s/%s/%s", p[0], op.name, path, one)
									mu.Lock()
									if !kinds[kind] {
										kinds[kind] = true
										rp, _ := json.Marshal(map[string]interface{}{"path": path, "configuration": cfg.String(), "operation": op.name, "problem": p[0], "detail": p[1]})
										total.findings = append(total.findings, runner.Finding{Kind: kind, Detail: p[1], Engine: "C18", Where: path, Replay: rp})
									}
									mu.Unlock()
								}
							}
						}
					}
				}
			}()
		}
		for i := range cfgs {
			ch <- i
		}
		close(ch)
		wg.Wait()
		o.Findings = total.findings
		bAcc, bOps := c18BridgeChains(newC18Env(), o)
		o.Coverage["bridge_chain_configurations_offered"] = int64(len(c18BridgeNames)) * 2
		o.Coverage["bridge_chain_configurations_accepted"] = bAcc
		o.Coverage["bridge_chain_operations_run"] = bOps
		o.Coverage["states"] = total.accepted
		o.Coverage["transitions"] = total.opsRun
		o.Coverage["traces_validated_against_impl"] = total.opsRun
		o.Coverage["traces_validated_note"] = "every configuration and operation is executed on the real modules (no abstract model)"
		o.Coverage["samples"] = samples
		o.Coverage["exhaustive"] = true
		o.Coverage["evaluations"] = int64(len(cfgs)) * 2
		o.Coverage["distinct_nontrivial"] = total.accepted
		o.Coverage["rule"] = "full product of the configuration alphabet (quick: the two independent sub-products in full) x 2 acceptance paths; a case is non-trivial iff the path accepted the configuration; on each such state the operation families CreateClass, basket Create, Sell+BuyDirect per allowed denom, Put+Take run with several offers each"
		o.Coverage["configurations_offered"] = int64(len(cfgs)) * 2
		o.Coverage["configurations_accepted"] = total.accepted
		o.Coverage["configurations_rejected"] = total.rejected
		o.Coverage["rejection_samples"] = total.rejectSamples
		return o.Finish()
	}
}
