package props

import (
	"os"
	"time"

	"verif/harness/explore"
	"verif/harness/mon"
	"verif/harness/pure"
	"verif/harness/runner"
	"verif/harness/scen"
)

func init() {
	// C19 = the arithmetic of types/math (Engine B, bounded-exhaustive) + the conversion to integer coins
	// at its use sites in the marketplace (Engine A): every fill over the fee-rate x order-history seeds.
	Registry["C19"] = func(tier string) int {
		pure.C19Prepare() // the arithmetic baseline, before any handler has run in this process
		okLayout := true
		large := scen.BasketLarge() // basket totals around 34 significant digits
		large.DepthQuick, large.DepthThor = 4, 5
		rc := engineAWith("C19", tier, []scen.Spec{scen.ShortEscrowGenesis(), scen.C07Spec(tier != "thorough"), large},
			func() []explore.Monitor { return []explore.Monitor{&mon.C19Coins{FeePool: scen.FeePool.String()}} },
			budget(tier, 60*time.Second, 8*time.Minute),
			func(o *runner.Outcome) { okLayout = pure.C19Into(tier, o, false) },
			"use-site part: on every successful BuyDirect of the fee-rate x order-history seeds (the C07 scenario) the seller's payment is the truncation toward zero of the exact proceeds and the collected fee the truncation of the exact buyer fee + seller fee; fills needing more than 34 significant digits are outside the bound; in the large-basket scenario every successful Put mints the exact product and every successful Take releases the exact quotient (35-digit takes must be refused); in every state no stored balance, supply, basket balance or order quantity is negative, including the histories of a genesis whose open orders exceed the seller's escrow (releasing or filling them must be an error)",
			"the arithmetic part (coverage.arithmetic) is the bounded-exhaustive enumerator over types/math")
		if !okLayout {
			os.Exit(2)
		}
		return rc
	}
}
