package props

import (
	"encoding/json"
	"fmt"

	"verif/harness/chain"
	"verif/harness/runner"
	"verif/harness/scen"
)

// c01GenesisSupply: conservation must also hold for states that ENTER through a genesis document, so the module's
// own genesis validation has to refuse a document whose supplies and holdings disagree. Base: the prepared state
// with batch b1 held by TWO baskets (2 in NCT, 1 in RCT), by accounts (tradable + escrowed) and retired. Each case
// changes one stored amount of the exported document by one unit; the unchanged document must be accepted.
func c01GenesisSupply(o *runner.Outcome) {
	c := chain.New(chain.Options{})
	ctx := scen.PreparedSeed("prepared", scen.Put(scen.C, scen.RCT, scen.BC(scen.B1, "1"))).Build(c)
	type edit struct {
		name, table, match, field, value string
	}
	rows := func(doc scen.GenDoc, table string) []interface{} {
		var raw []interface{}
		if err := json.Unmarshal(doc[table], &raw); err != nil {
			panic(err)
		}
		return raw
	}
	get := func(doc scen.GenDoc, table, matchField, matchValue, field string) string {
		for _, x := range rows(doc, table) {
			if m, ok := x.(map[string]interface{}); ok && fmt.Sprint(m[matchField]) == matchValue {
				return fmt.Sprint(m[field])
			}
		}
		return ""
	}
	base := scen.ExportEco(c, ctx)
	add := func(kind, detail string, rp interface{}) {
		bz, _ := json.Marshal(rp)
		o.Findings = append(o.Findings, runner.Finding{Kind: kind, Detail: detail, Engine: "A", Where: "genesis", Replay: bz})
	}
	if err := c.Eco.ValidateGenesis(c.Cdc, nil, base.JSON()); err != nil {
		add("C01/genesis-validation-refuses-a-consistent-state", "the exported prepared state with b1 in two baskets is refused: "+err.Error(), map[string]string{"case": "unchanged"})
	}
	tr := get(base, "regen.ecocredit.v1.BatchSupply", "batch_key", "1", "tradable_amount")
	rt := get(base, "regen.ecocredit.v1.BatchSupply", "batch_key", "1", "retired_amount")
	if tr == "" || rt == "" {
		panic("c01 genesis: supply row of b1 not found")
	}
	// tradable supply of b1 in the prepared state + put: known literal values are avoided, the edits are relative
	shift := func(v string, by int) string {
		var f float64
		fmt.Sscan(v, &f)
		return fmt.Sprint(f + float64(by))
	}
	cases := []struct {
		name, table, matchField, matchValue, field, value string
	}{
		{"tradable-supply-short-by-the-second-basket's-holdings", "regen.ecocredit.v1.BatchSupply", "batch_key", "1", "tradable_amount", shift(tr, -1)},
		{"tradable-supply-short-by-the-first-basket's-holdings", "regen.ecocredit.v1.BatchSupply", "batch_key", "1", "tradable_amount", shift(tr, -2)},
		{"tradable-supply-short-by-both-baskets'-holdings", "regen.ecocredit.v1.BatchSupply", "batch_key", "1", "tradable_amount", shift(tr, -3)},
		{"tradable-supply-one-more", "regen.ecocredit.v1.BatchSupply", "batch_key", "1", "tradable_amount", shift(tr, 1)},
		{"retired-supply-one-more", "regen.ecocredit.v1.BatchSupply", "batch_key", "1", "retired_amount", shift(rt, 1)},
		{"second-basket-holds-one-more", "regen.ecocredit.basket.v1.BasketBalance", "basket_id", "2", "balance", "2"},
		{"first-basket-holds-one-more", "regen.ecocredit.basket.v1.BasketBalance", "basket_id", "1", "balance", "3"},
	}
	checked := 0
	for _, cs := range cases {
		doc := scen.GenDoc{}
		for k, v := range base {
			doc[k] = v
		}
		raw := rows(doc, cs.table)
		hit := false
		for _, x := range raw {
			if m, ok := x.(map[string]interface{}); ok && fmt.Sprint(m[cs.matchField]) == cs.matchValue && !hit {
				m[cs.field], hit = cs.value, true
			}
		}
		if !hit {
			panic("c01 genesis: no row to edit for " + cs.name)
		}
		doc.Set(cs.table, raw)
		checked++
		if err := c.Eco.ValidateGenesis(c.Cdc, nil, doc.JSON()); err == nil {
			add("C01/genesis-validation-accepts-supply-mismatch/"+cs.name,
				fmt.Sprintf("the exported state (b1: tradable supply %s, 2 credits in basket 1, 1 credit in basket 2) with %s.%s set to %s passes ValidateGenesis", tr, cs.table, cs.field, cs.value),
				map[string]string{"table": cs.table, "field": cs.field, "value": cs.value})
		}
	}
	o.Coverage["genesis_documents_with_a_supply_mismatch_offered"] = checked
}
