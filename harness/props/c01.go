package props

import (
	"time"

	"verif/harness/explore"
	"verif/harness/mon"
	"verif/harness/scen"
)

func init() {
	for _, f := range []func() scen.Spec{scen.Core, scen.Basket, scen.Market, scen.BridgeSpec, scen.Large, scen.Expiry, scen.GovPool, scen.BasketLarge, scen.BasketMarket, scen.SparseGenesis, scen.OddGenesis, scen.Mixed, scen.ExpiryMany, scen.OddBasketGenesis, scen.ShortEscrowGenesis} {
		regSpec(f)
	}
	shared := func() []scen.Spec {
		// cheapest first: time a scenario does not need flows to the later, more expensive ones
		return []scen.Spec{scen.SparseGenesis(), scen.BridgeSpec(), scen.Mixed(), scen.Basket(), scen.Market(), scen.Core()}
	}
	Registry["C01"] = func(tier string) int {
		return engineAWith("C01", tier, append([]scen.Spec{scen.Large()}, shared()...),
			func() []explore.Monitor { return []explore.Monitor{&mon.C01{}} },
			budget(tier, 200*time.Second, 15*time.Minute), c01GenesisSupply,
			"genesis part: the exported prepared state with one batch in two baskets must pass the module's genesis validation, and each of seven documents in which one supply or basket holding is off by one unit must be refused")
	}
	Registry["C02"] = func(tier string) int {
		return engineA("C02", tier, append([]scen.Spec{scen.OddGenesis(), scen.Large()}, shared()...),
			func() []explore.Monitor { return []explore.Monitor{&mon.C02{}} },
			budget(tier, 200*time.Second, 15*time.Minute))
	}
	Registry["C03"] = func(tier string) int {
		return engineA("C03", tier, append([]scen.Spec{scen.GovPool()}, shared()...),
			func() []explore.Monitor {
				return []explore.Monitor{&mon.C03{FeePool: scen.FeePool.String(), Authority: scen.G.String()}}
			},
			budget(tier, 200*time.Second, 15*time.Minute))
	}
	Registry["C04"] = func(tier string) int {
		return engineA("C04", tier, append([]scen.Spec{scen.Large()}, shared()...),
			func() []explore.Monitor { return []explore.Monitor{&mon.C04{}} },
			budget(tier, 200*time.Second, 15*time.Minute))
	}
	Registry["C05"] = func(tier string) int {
		return engineA("C05", tier, []scen.Spec{scen.SparseGenesis(), scen.OddBasketGenesis(), scen.BasketMarket(), scen.Basket(), scen.BasketLarge(), scen.Mixed()},
			func() []explore.Monitor { return []explore.Monitor{&mon.C05{}} },
			budget(tier, 150*time.Second, 12*time.Minute))
	}
	Registry["C06"] = func(tier string) int {
		return engineA("C06", tier, []scen.Spec{scen.SparseGenesis(), scen.ExpiryMany(), scen.Market(), scen.Expiry(), scen.Mixed()},
			func() []explore.Monitor { return []explore.Monitor{&mon.C06{}} },
			budget(tier, 150*time.Second, 12*time.Minute))
	}
	Registry["C12"] = func(tier string) int {
		return engineA("C12", tier, []scen.Spec{scen.OddGenesis(), scen.ExpiryMany(), scen.Expiry(), scen.Market(), scen.Mixed()},
			func() []explore.Monitor { return []explore.Monitor{&mon.C12{}} },
			budget(tier, 150*time.Second, 12*time.Minute))
	}
}
