package props

import (
	"time"

	"verif/harness/explore"
	"verif/harness/mon"
	"verif/harness/scen"
)

func init() {
	regSpec(scen.Core)
	regSpec(scen.Basket)
	regSpec(scen.Market)
	regSpec(scen.BridgeSpec)
	regSpec(scen.Large)
	Registry["C01"] = func(tier string) int {
		return engineA("C01", tier,
			[]scen.Spec{scen.Core(), scen.Basket(), scen.Market(), scen.BridgeSpec(), scen.Large()},
			func() []explore.Monitor { return []explore.Monitor{&mon.C01{}} },
			budget(tier, 100*time.Second, 15*time.Minute))
	}
}
