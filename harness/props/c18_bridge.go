package props

import (
	"encoding/json"
	"fmt"
	"strings"

	basetypes "github.com/regen-network/regen-ledger/x/ecocredit/v3/base/types/v1"

	"verif/harness/chain"
	"verif/harness/explore"
	"verif/harness/runner"
	"verif/harness/scen"
)

// c18BridgeNames: chain names offered to the bridge-chain allowlist (the one allowlist of the property that the
// main product does not cover). Spellings differ in case, contain a blank, or are a single character.
var c18BridgeNames = []string{"polygon", "Polygon", "POLYGON", "ethereum", "Ethereum Mainnet", "x"}

// c18BridgeChains: every name x {governance message, genesis} ; on every ACCEPTED configuration the holder of a
// batch with a bound contract bridges out to the chain, naming it (a) as it was configured and (b) as the state
// now lists it. Both must succeed, and the governance removal by the configured spelling must take it off the list.
func c18BridgeChains(env *c18Env, o *runner.Outcome) (accepted, ops int64) {
	add := func(kind, path, name, detail string) {
		rp, _ := json.Marshal(map[string]string{"path": path, "chain_name": name, "problem": kind})
		o.Findings = append(o.Findings, runner.Finding{Kind: fmt.Sprintf("C18/%s/Bridge/%s/bridge_chain=%q", kind, path, name), Detail: detail, Engine: "C18", Where: path, Replay: rp})
	}
	g := scen.G.String()
	bridge := func(target string) *explore.Action {
		return scen.Bridge(scen.B, target, scen.Cr(scen.B3, "0.5"))
	}
	for _, name := range c18BridgeNames {
		for _, path := range []string{"msg", "genesis"} {
			var c *chain.Chain
			var ctx = env.base
			if path == "msg" {
				c = env.c
				ctx, _ = env.base.CacheContext()
				// the prepared state allows "polygon": start from an empty list
				_, w, res, _ := explore.Apply(c, ctx, scen.Msg("RemoveAllowedBridgeChain(polygon)", &basetypes.MsgRemoveAllowedBridgeChain{Authority: g, ChainName: "polygon"}))
				if !res.OK {
					add("environment", path, name, "cannot empty the bridge chain list: "+res.Err)
					continue
				}
				w()
				_, w, res, _ = explore.Apply(c, ctx, scen.Msg("AddAllowedBridgeChain("+name+")", &basetypes.MsgAddAllowedBridgeChain{Authority: g, ChainName: name}))
				if !res.OK {
					continue // not accepted
				}
				w()
			} else {
				doc := scen.GenDoc{}
				for k, v := range env.ecoDoc {
					doc[k] = v
				}
				doc.Set("regen.ecocredit.v1.AllowedBridgeChain", []map[string]string{{"chain_name": name}})
				nc := chain.New(chain.Options{})
				if err := nc.Eco.ValidateGenesis(nc.Cdc, nil, doc.JSON()); err != nil {
					continue // not accepted
				}
				nctx := nc.BaseContext(chain.T0, 1)
				perr := ""
				func() {
					defer func() {
						if r := recover(); r != nil {
							perr = fmt.Sprint(r)
						}
					}()
					nc.InitGenesis(nctx, chain.Genesis{Ecocredit: doc.JSON(), Data: env.dataGen, Balances: env.bal})
				}()
				if perr != "" {
					continue
				}
				c, ctx = nc, nctx
			}
			accepted++
			snap := c.Snap(ctx)
			var listed []string
			for _, x := range snap.BridgeChains {
				listed = append(listed, x.ChainName)
			}
			if len(listed) != 1 {
				add("accepted-chain-not-listed-once", path, name, fmt.Sprintf("after accepting the bridge chain %q the list is %q", name, listed))
				continue
			}
			targets := []string{name}
			if listed[0] != name {
				targets = append(targets, listed[0])
			}
			for _, t := range targets {
				br, _ := ctx.CacheContext()
				_, _, res, _ := explore.Apply(c, br, bridge(t))
				ops++
				if !res.OK {
					how := "as configured"
					if t != name {
						how = "as listed by the state"
					}
					add("operation-fails-although-preconditions-hold", path, name, fmt.Sprintf("bridge chain %q accepted (%s path, listed as %q); Bridge(B, target=%q [%s], %s:0.5) fails: %s", name, path, listed[0], t, how, scen.B3, res.Err))
				}
			}
			// a target that is NOT on the list stays refused
			br, _ := ctx.CacheContext()
			if _, _, res, _ := explore.Apply(c, br, bridge("not-"+strings.ToLower(name))); res.OK {
				add("bridge-to-a-chain-that-is-not-allowed", path, name, "Bridge to an unlisted chain succeeded")
			}
			// governance takes the chain off the list by the spelling it was configured with
			br, _ = ctx.CacheContext()
			_, w, res, _ := explore.Apply(c, br, scen.Msg("RemoveAllowedBridgeChain("+name+")", &basetypes.MsgRemoveAllowedBridgeChain{Authority: g, ChainName: name}))
			ops++
			if !res.OK {
				add("accepted-chain-cannot-be-removed", path, name, fmt.Sprintf("bridge chain %q accepted (%s path) but RemoveAllowedBridgeChain(%q) fails: %s", name, path, name, res.Err))
			} else {
				w()
				if left := c.Snap(br).BridgeChains; len(left) != 0 {
					add("accepted-chain-cannot-be-removed", path, name, fmt.Sprintf("RemoveAllowedBridgeChain(%q) succeeded but the list still holds %q", name, left[0].ChainName))
				}
			}
		}
	}
	return accepted, ops
}
