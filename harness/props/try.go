package props

import (
	"fmt"

	"verif/harness/chain"
	"verif/harness/explore"
	"verif/harness/scen"
)

// AllSpecs lists scenario specs by name for debugging and replay.
var AllSpecs = map[string]func() scen.Spec{}

func regSpec(f func() scen.Spec) {
	sp := f()
	AllSpecs[sp.Name] = f
	registerSeeds(sp)
}

// Try applies every event of a scenario once to each seed state and prints
// the result (alphabet debugging aid).
func Try(name string) int {
	f, ok := AllSpecs[name]
	if !ok {
		fmt.Println("unknown scenario; have:")
		for k := range AllSpecs {
			fmt.Println(" ", k)
		}
		return 2
	}
	sp := f()
	for _, seed := range sp.Seeds {
		c := chain.New(seed.Opts)
		ctx := seed.Build(c)
		pre := c.Snap(ctx)
		fmt.Println("== seed", seed.Name)
		for _, ev := range sp.Events {
			a := ev.Make(pre)
			if a == nil {
				fmt.Printf("  n/a   %s\n", ev.Name)
				continue
			}
			_, _, res, _ := explore.Apply(c, ctx, a)
			fmt.Printf("  %-5v %s  %s\n", res.OK, a.Label, res.Err)
		}
	}
	return 0
}
