package props

import (
	"time"

	"verif/harness/explore"
	"verif/harness/mon"
	"verif/harness/scen"
)

func init() {
	regSpec(scen.Roles)
	Registry["C08"] = func(tier string) int {
		return engineA("C08", tier, []scen.Spec{scen.Roles(), scen.Market(), scen.Core()},
			func() []explore.Monitor { return []explore.Monitor{&mon.C08{Authority: scen.G.String()}} },
			budget(tier, 200*time.Second, 15*time.Minute))
	}
}
