package props

import (
	"time"

	"verif/harness/explore"
	"verif/harness/mon"
	"verif/harness/pure"
	"verif/harness/runner"
	"verif/harness/scen"
)

func init() {
	// C15 = the conversion functions (Engine B, bounded-exhaustive) + their consequence on the data
	// module (Engine A): by-hash / by-IRI queries never answer with another content hash's record, under
	// the production ID hasher and under injected colliding ones.
	Registry["C15"] = func(tier string) int {
		data := scen.DataSpec(tier == "thorough")
		// one level shallower than C16's own run: every state costs ~70 queries here
		data.DepthQuick, data.DepthThor = 3, 4
		return engineAWith("C15", tier, []scen.Spec{scen.DataLong(), data},
			func() []explore.Monitor {
				return []explore.Monitor{&mon.C15{Universe: append(scen.DataUniverse(), scen.DataLongUniverse()...)}}
			},
			budget(tier, 100*time.Second, 10*time.Minute),
			func(o *runner.Outcome) { pure.C15Into(tier, o, false) },
			"on-chain part: ghost of the successful Anchor/Attest/RegisterResolver messages per content hash; on every distinct state the by-hash, by-IRI and conversion queries are asked for every content hash of a fixed universe (7 used by the alphabet, 2 never used) and must answer with exactly that content hash's record or not at all",
			"ID hash functions are injected through the verif-tagged constructor (forced ID collisions); the conversion part (coverage.conversion) is the bounded-exhaustive enumerator")
	}
}
