package props

import (
	"bytes"
	"encoding/json"
	"fmt"
	markettypes "github.com/regen-network/regen-ledger/x/ecocredit/v3/marketplace/types/v1"
	"os"
	"os/exec"
	"runtime"
	"sort"
	"sync"
	"sync/atomic"
	"time"

	sdk "github.com/cosmos/cosmos-sdk/types"

	"github.com/regen-network/regen-ledger/x/data/v3"
	basetypes "github.com/regen-network/regen-ledger/x/ecocredit/v3/base/types/v1"
	baskettypes "github.com/regen-network/regen-ledger/x/ecocredit/v3/basket/types/v1"

	"verif/harness/chain"
	"verif/harness/detc"
	"verif/harness/explore"
	"verif/harness/runner"
	"verif/harness/scen"
)

// C10 — determinism, restarts, failed messages leave no trace (Engine C).

func c10Alphabet(tier string) []*explore.Action {
	e10 := chain.T0.Add(10 * time.Second)
	buyNo := scen.MkBuyMsg(scen.D, 1, "0.5", sdk.NewInt64Coin("uregen", 3), true).(*markettypes.MsgBuyDirect)
	buyNo.Orders[0].MaxFeeAmount = nil
	buy := scen.Msg("BuyDirect(D,order1,0.5,no-max-fee)!", buyNo) // fails in the handler: the buyer fee (1) is not covered
	buyOK := scen.MkBuyMsg(scen.D, 1, "0.5", sdk.NewInt64Coin("uregen", 3), true).(*markettypes.MsgBuyDirect)
	buyOK.Orders[0].MaxFeeAmount = &sdk.Coin{Denom: "uregen", Amount: sdk.NewInt(5)}
	a := []*explore.Action{
		scen.Msg("CreateClass(D,fee=20)", &basetypes.MsgCreateClass{Admin: scen.D.String(), Issuers: []string{scen.D.String()}, Metadata: "m", CreditTypeAbbrev: "C", Fee: &sdk.Coin{Denom: "uregen", Amount: sdk.NewInt(20)}}),
		scen.SendN(scen.B, scen.C, scen.SC(scen.B1, "1.5", "0.25"), scen.SC(scen.B2, "1", "0")),
		scen.Msg("BuyDirect(D,order1,0.5,max-fee=5)", buyOK),
		scen.Put(scen.B, scen.KYR, scen.BC(scen.B1, "1"), scen.BC(scen.B2, "0.5")), // b2 starts exactly on the basket's year boundary
		// one message, three markets, two of which do not exist yet (stake, uusd): the ids they get are consensus state
		scen.SellN(scen.B, "existing-market+two-new-markets", scen.SO(scen.B1, "0.5", sdk.NewInt64Coin("uregen", 5), true, &e10),
			scen.SO(scen.B1, "0.25", sdk.NewInt64Coin("stake", 4), true, nil), scen.SO(scen.B2, "0.25", sdk.NewInt64Coin("uusd", 6), true, nil)),
		buy,
		scen.Msg("basket.Create(A,[C01,C02,C09,C08])!", &baskettypes.MsgCreate{Curator: scen.A.String(), Name: "MULTI", DisableAutoRetire: true, CreditTypeAbbrev: "C",
			AllowedClasses: []string{"C01", "C02", "C09", "C08"}, Fee: sdk.NewCoins(sdk.NewInt64Coin("uregen", 10))}),
		scen.Msg("UpdateClassFee(G,7uregen)", &basetypes.MsgUpdateClassFee{Authority: scen.G.String(), Fee: &sdk.Coin{Denom: "uregen", Amount: sdk.NewInt(7)}}),
		scen.Msg("Anchor(B,R1)", &data.MsgAnchor{Sender: scen.B.String(), ContentHash: scen.RawHash(1)}), // data ids come from the module's own (production) hasher
	}
	if tier == "thorough" {
		a = append(a,
			scen.Msg("CreateClass(D,fee=1)!", &basetypes.MsgCreateClass{Admin: scen.D.String(), Issuers: []string{scen.D.String()}, Metadata: "m", CreditTypeAbbrev: "C", Fee: &sdk.Coin{Denom: "uregen", Amount: sdk.NewInt(1)}}),
			scen.Take(scen.B, scen.NCT, "1500000", false),
			scen.CreateBatch(scen.A, "C01-001", time.Date(2022, 1, 1, 0, 0, 0, 0, time.UTC), time.Date(2023, 1, 1, 0, 0, 0, 0, time.UTC), true, nil, scen.Iss(scen.B, "2", "1")),
			scen.Msg("Attest(C,G1)", &data.MsgAttest{Attestor: scen.C.String(), ContentHashes: []*data.ContentHash_Graph{scen.GraphHash(1)}}),
			scen.Retire(scen.D, scen.B1, "1"), // fails: D holds nothing
		)
	}
	return a
}

// c10Traces enumerates all traces: B blocks, each with <= M messages of the
// alphabet (ordered, repetitions allowed); block i advances time by dts[i].
func c10Traces(alpha []*explore.Action, blocks, maxMsgs int, dts [][]time.Duration) []detc.Trace {
	var lists [][]*explore.Action
	var rec func(cur []*explore.Action)
	rec = func(cur []*explore.Action) {
		lists = append(lists, append([]*explore.Action{}, cur...))
		if len(cur) == maxMsgs {
			return
		}
		for _, a := range alpha {
			rec(append(cur, a))
		}
	}
	rec(nil)
	var out []detc.Trace
	var build func(i int, cur detc.Trace)
	build = func(i int, cur detc.Trace) {
		if i == blocks {
			out = append(out, append(detc.Trace{}, cur...))
			return
		}
		for _, dt := range dts[i] {
			for _, l := range lists {
				build(i+1, append(cur, detc.Block{Dt: dt, Msgs: l}))
			}
		}
	}
	build(0, nil)
	return out
}

func c10TraceSets(tier string) []detc.Trace {
	alpha := c10Alphabet(tier)
	s5, s11 := 5*time.Second, 11*time.Second
	if tier == "thorough" {
		t := c10Traces(alpha, 2, 2, [][]time.Duration{{s5}, {s11}})
		t = append(t, c10Traces(alpha, 3, 1, [][]time.Duration{{s5}, {s5, s11}, {s11}})...)
		return t
	}
	return c10Traces(alpha, 2, 2, [][]time.Duration{{s5}, {s11}})
}

type c10Finding struct {
	Kind, Detail, Trace, Variant string
}

type c10Stats struct {
	Traces, Runs, BlocksExecuted, RestartVariants, FailedDeletedVariants, Repeats int64
	TracesWithFailedTx, Panics                                                    int64
	DistinctAppHashes                                                             int
}

// c10Shard runs the order/clock dimension for a shard of the traces; it is
// executed in a shim-built binary, sequentially (the shim hooks are global).
type c10ShimResult struct {
	Traces, Runs, Instances, InstancesWithChoice, MaxKeys, OrderVariants, ClockVariants, ZoneVariants int64
	Sites                                                                                             map[string]int64
	Findings                                                                                          []c10Finding
	Shim                                                                                              bool
}

func perms(n int) [][]int {
	asc := make([]int, n)
	for i := range asc {
		asc[i] = i
	}
	if n < 2 {
		return nil
	}
	var out [][]int
	if n <= 3 {
		var rec func(cur []int, used []bool)
		rec = func(cur []int, used []bool) {
			if len(cur) == n {
				same := true
				for i, v := range cur {
					if v != i {
						same = false
					}
				}
				if !same {
					out = append(out, append([]int{}, cur...))
				}
				return
			}
			for i := 0; i < n; i++ {
				if !used[i] {
					used[i] = true
					rec(append(cur, i), used)
					used[i] = false
				}
			}
		}
		rec(nil, make([]bool, n))
		return out
	}
	desc := make([]int, n)
	rot := make([]int, n)
	for i := range desc {
		desc[i] = n - 1 - i
		rot[i] = (i + 1) % n
	}
	return [][]int{desc, rot}
}

// C10Shim is the entry point of `mc c10shim`.
func C10Shim(tier string, shard, of int, maxDev int) int {
	res := c10ShimResult{Sites: map[string]int64{}, Shim: detc.ShimAvailable}
	env := detc.NewEnv()
	traces := c10TraceSets(tier)
	kinds := map[string]bool{}
	add := func(kind, detail string, tr detc.Trace, variant string) {
		if !kinds[kind] {
			kinds[kind] = true
			res.Findings = append(res.Findings, c10Finding{kind, detail, tr.String(), variant})
		}
	}
	if shard == 0 && detc.ShimAvailable {
		// the construction of the seed itself (real messages, export, InitChain) under the other clock instant
		other := detc.NewEnvClock(1)
		res.Runs++
		res.ClockVariants++
		if other.Digest != env.Digest || fmt.Sprint(other.SeedFailures) != fmt.Sprint(env.SeedFailures) {
			add("C10/wall-clock-reaches-consensus/seed-construction",
				fmt.Sprintf("the seed messages produce genesis %s (failed steps %q) with the clock at the first instant and %s (failed steps %q) at the second", env.Digest, env.SeedFailures, other.Digest, other.SeedFailures),
				nil, "clock=1 during seed construction")
		}
	}
	for ti, tr := range traces {
		if ti%of != shard {
			continue
		}
		res.Traces++
		ref, info := env.Run(tr, detc.Variant{})
		res.Runs++
		res.Instances += int64(len(info.Instances))
		for i, n := range info.Instances {
			res.Sites[info.Sites[i]]++
			if int64(n) > res.MaxKeys {
				res.MaxKeys = int64(n)
			}
			if n >= 2 {
				res.InstancesWithChoice++
			}
		}
		// clock
		obs, _ := env.Run(tr, detc.Variant{Clock: 1})
		res.Runs++
		res.ClockVariants++
		if ok, d := detc.Equal(ref, obs); !ok {
			add("C10/wall-clock-reaches-consensus/"+detc.DiffKind(ref, obs), d, tr, "clock=1")
		}
		// process time zone: time.Local is a process-wide setting that differs between validators
		for _, z := range []struct {
			name string
			off  int
		}{{"UTC-5", -5 * 3600}, {"UTC+9", 9 * 3600}} {
			old := time.Local
			time.Local = time.FixedZone(z.name, z.off)
			obs, _ := env.Run(tr, detc.Variant{})
			time.Local = old
			res.Runs++
			res.ZoneVariants++
			if ok, d := detc.Equal(ref, obs); !ok {
				add("C10/process-time-zone-reaches-consensus/"+detc.DiffKind(ref, obs), d, tr, "time.Local="+z.name)
			}
		}
		// 1 deviation
		type dev struct {
			i int
			p []int
		}
		var devs []dev
		for i, n := range info.Instances {
			for _, p := range perms(n) {
				devs = append(devs, dev{i, p})
			}
		}
		for _, d := range devs {
			obs, _ := env.Run(tr, detc.Variant{Order: map[int][]int{d.i: d.p}})
			res.Runs++
			res.OrderVariants++
			if ok, diff := detc.Equal(ref, obs); !ok {
				add("C10/map-order-dependence/"+detc.DiffKind(ref, obs)+"/"+info.Sites[d.i], diff, tr, fmt.Sprintf("instance %d (%s) order %v", d.i, info.Sites[d.i], d.p))
			}
		}
		if maxDev >= 2 {
			for x := 0; x < len(devs); x++ {
				for y := x + 1; y < len(devs); y++ {
					if devs[x].i == devs[y].i {
						continue
					}
					obs, _ := env.Run(tr, detc.Variant{Order: map[int][]int{devs[x].i: devs[x].p, devs[y].i: devs[y].p}})
					res.Runs++
					res.OrderVariants++
					if ok, diff := detc.Equal(ref, obs); !ok {
						add("C10/map-order-dependence/"+detc.DiffKind(ref, obs)+"/"+info.Sites[devs[x].i], diff, tr, fmt.Sprintf("instances %d,%d", devs[x].i, devs[y].i))
					}
				}
			}
		}
	}
	bz, _ := json.Marshal(res)
	fmt.Println(string(bz))
	return 0
}

func init() {
	Registry["C10"] = func(tier string) int {
		o := runner.New("C10", tier, "model_checking")
		o.Assumptions = []string{
			"the application is driven through baseapp's real ABCI entry points (InitChain, BeginBlock, DeliverTx, EndBlock, Commit) with the SDK's standard tx encoding, unsigned single-message transactions and a minimal ante handler that only installs a fresh gas meter per tx",
			"observation per block: AppHash returned by Commit, marshalled ResponseBeginBlock, per tx code/codespace/gas and the marshalled ResponseDeliverTx (data, log, events), outputs of all registered invariants",
			"restart = the whole object graph (baseapp, keepers, modules, codec, multistore) is dropped and rebuilt over the same database; the reference run itself starts from freshly built objects over a copy of the committed seed database",
			"map-order and wall-clock control covers non-generated, non-test code of the regen-ledger modules (source rewriting, regenerated from the working tree on every run); cosmos-sdk, ORM and IAVL are the trusted base",
			"trusted base: Go, cosmos-sdk v0.47.12, IAVL v0.20.1, cometbft-db MemDB",
		}
		env := detc.NewEnv()
		traces := c10TraceSets(tier)
		seedRot := runner.Seed()
		var st c10Stats
		refs := make([][]detc.BlockObs, len(traces))
		var mu sync.Mutex
		var findings []c10Finding
		kinds := map[string]bool{}
		hashes := map[string]bool{}
		add := func(kind, detail string, tr detc.Trace, variant string) {
			mu.Lock()
			defer mu.Unlock()
			if !kinds[kind] {
				kinds[kind] = true
				findings = append(findings, c10Finding{kind, detail, tr.String(), variant})
			}
		}
		deadline := time.Now().Add(budget(tier, 150*time.Second, 25*time.Minute))
		var idx int64 = -1
		var wg sync.WaitGroup
		var timedOut int32
		var done int64
		for w := 0; w < runtime.NumCPU(); w++ {
			wg.Add(1)
			go func() {
				defer wg.Done()
				for {
					i := atomic.AddInt64(&idx, 1)
					if int(i) >= len(traces) {
						return
					}
					if time.Now().After(deadline) {
						atomic.StoreInt32(&timedOut, 1)
						return
					}
					ti := (int(i) + seedRot) % len(traces)
					tr := traces[ti]
					ref, _ := env.Run(tr, detc.Variant{})
					refs[ti] = ref
					var runs, blocks, rv, fd, rp, pn int64 = 1, int64(len(ref)), 0, 0, 0, 0
					for _, b := range ref {
						if b.Panic != "" {
							pn++
							add("C10/block-processing-panics", b.Panic, tr, "reference")
						}
					}
					// every non-empty subset of block boundaries
					for mask := uint32(1); mask < 1<<uint(len(tr)); mask++ {
						obs, _ := env.Run(tr, detc.Variant{Restarts: mask})
						runs++
						rv++
						blocks += int64(len(obs))
						if ok, d := detc.Equal(ref, obs); !ok {
							add("C10/restart-changes-outcome/"+detc.DiffKind(ref, obs), d, tr, fmt.Sprintf("restart mask %b", mask))
						}
					}
					// repeated execution in this (free-running) process: Go randomises map iteration per loop
					obs, _ := env.Run(tr, detc.Variant{})
					runs++
					rp++
					if ok, d := detc.Equal(ref, obs); !ok {
						add("C10/repeated-execution-differs/"+detc.DiffKind(ref, obs), d, tr, "repeat")
					}
					// failed messages leave no trace
					hasFailed := false
					if tr2, any := detc.WithoutFailed(tr, ref); any {
						hasFailed = true
						obs, _ := env.Run(tr2, detc.Variant{})
						runs++
						fd++
						if ok, d := detc.Equal(detc.Project(ref), obs); !ok {
							add("C10/failed-message-leaves-trace/"+detc.DiffKind(detc.Project(ref), obs), d, tr, "failed messages deleted")
						}
					}
					mu.Lock()
					st.Traces++
					st.Runs += runs
					st.BlocksExecuted += blocks
					st.RestartVariants += rv
					st.Repeats += rp
					st.FailedDeletedVariants += fd
					st.Panics += pn
					if hasFailed {
						st.TracesWithFailedTx++
					}
					for _, b := range ref {
						hashes[b.AppHash] = true
					}
					mu.Unlock()
					atomic.AddInt64(&done, 1)
				}
			}()
		}
		wg.Wait()
		st.DistinctAppHashes = len(hashes)

		// cross-process restarts: every block of the selected traces is executed
		// by a FRESH PROCESS over a dump of the database left by the previous
		// block's process. This resets package-level state as a real restart
		// does, which rebuilding the object graph in one process cannot.
		xpStats, xpFindings, xpErr := c10CrossProcess(env, traces, refs, tier, deadline.Add(3*time.Minute))
		if xpErr != nil {
			fmt.Fprintln(os.Stderr, "C10: cross-process phase failed:", xpErr)
			return 2
		}
		for _, f := range xpFindings {
			add(f.Kind, f.Detail, detc.Trace{}, f.Variant+" | "+f.Trace)
		}

		// order / clock dimension in a shim-built binary, sharded over processes
		shimBin := os.Getenv("VERIF_SHIM_BIN")
		shim := c10ShimResult{Sites: map[string]int64{}}
		shimRan := false
		shimNote := ""
		if shimBin == "" {
			shimNote = "VERIF_SHIM_BIN not set: the map-order / wall-clock dimension was not explored in this run (scripts/check.sh sets it)"
		} else {
			n := runtime.NumCPU()
			maxDev := "1"
			if tier == "thorough" {
				maxDev = "2"
			}
			results := make([]c10ShimResult, n)
			errs := make([]error, n)
			var swg sync.WaitGroup
			for i := 0; i < n; i++ {
				swg.Add(1)
				go func(i int) {
					defer swg.Done()
					cmd := exec.Command(shimBin, "c10shim", "-tier", tier, "-shard", fmt.Sprint(i), "-of", fmt.Sprint(n), "-maxdev", maxDev)
					cmd.Env = append(os.Environ(), "GOMAXPROCS=1")
					outb, err := cmd.Output()
					if err != nil {
						errs[i] = fmt.Errorf("%v: %s", err, string(outb))
						return
					}
					errs[i] = json.Unmarshal(lastLine(outb), &results[i])
				}(i)
			}
			swg.Wait()
			shimRan = true
			for i := 0; i < n; i++ {
				if errs[i] != nil {
					shimRan = false
					shimNote = "shim worker failed: " + errs[i].Error()
					break
				}
				r := results[i]
				if !r.Shim {
					shimRan = false
					shimNote = "VERIF_SHIM_BIN was not built with the overlay"
					break
				}
				shim.Traces += r.Traces
				shim.Runs += r.Runs
				shim.Instances += r.Instances
				shim.InstancesWithChoice += r.InstancesWithChoice
				shim.OrderVariants += r.OrderVariants
				shim.ClockVariants += r.ClockVariants
				shim.ZoneVariants += r.ZoneVariants
				if r.MaxKeys > shim.MaxKeys {
					shim.MaxKeys = r.MaxKeys
				}
				for k, v := range r.Sites {
					shim.Sites[k] += v
				}
				for _, f := range r.Findings {
					add(f.Kind, f.Detail, detc.Trace{}, f.Variant+" | "+f.Trace)
				}
			}
			if !shimRan {
				fmt.Fprintln(os.Stderr, "C10:", shimNote)
				return 2 // infrastructure failure: never a verdict
			}
		}

		sort.Slice(findings, func(i, j int) bool { return findings[i].Kind < findings[j].Kind })
		for _, f := range findings {
			rp, _ := json.Marshal(map[string]string{"trace": f.Trace, "variant": f.Variant, "detail": f.Detail})
			o.Findings = append(o.Findings, runner.Finding{Kind: f.Kind, Detail: f.Detail + " | trace: " + f.Trace + " | variant: " + f.Variant, Engine: "C", Where: "abci-traces", Replay: rp})
		}
		exhaustive := timedOut == 0 && shimRan && !xpStats.TimedOut
		o.Coverage["states"] = int64(st.DistinctAppHashes)
		o.Coverage["transitions"] = st.BlocksExecuted
		o.Coverage["traces_validated_against_impl"] = st.Runs + shim.Runs
		o.Coverage["traces_validated_note"] = "every trace and variant is an execution of the real application through ABCI; states = distinct per-block AppHashes of the reference runs, transitions = blocks executed"
		o.Coverage["evaluations"] = st.Runs + shim.Runs
		o.Coverage["distinct_nontrivial"] = st.Traces
		o.Coverage["rule"] = "all traces of B blocks with <= M messages each over the alphabet (quick: B=2, M=2, 9 messages; thorough: B=2,M=2 and B=3,M=1 over 14 messages, two block-time gaps in the 3-block traces); per trace: every non-empty subset of block boundaries as restart points, one repetition, the trace with its failed messages deleted; in the shim build: the second wall-clock instant, two other process time zones (time.Local = UTC-5, UTC+9) and every single (thorough: every pair of) deviating map-range instance(s) with all permutations for <= 3 keys, else descending and rotated"
		o.Coverage["exhaustive"] = exhaustive
		o.Coverage["samples"] = []interface{}{traces[0].String(), traces[len(traces)/2].String(), traces[len(traces)-1].String()}
		o.Coverage["traces_total"] = len(traces)
		o.Coverage["engine_c"] = st
		o.Coverage["order_clock_dimension"] = map[string]interface{}{"explored": shimRan, "note": shimNote, "traces": shim.Traces, "runs": shim.Runs,
			"dynamic_map_range_instances": shim.Instances, "instances_with_2+_keys": shim.InstancesWithChoice, "max_keys": shim.MaxKeys,
			"order_variants": shim.OrderVariants, "clock_variants": shim.ClockVariants, "time_zone_variants": shim.ZoneVariants, "instances_per_site": shim.Sites, "rewriter_report": readRewriterReport()}
		o.Coverage["cross_process_restarts"] = xpStats
		o.Coverage["repetition_note"] = "the in-process repetition samples the Go runtime's map randomisation and is a cross-check of the rewriter, not the deciding step"
		var vac []string
		if st.TracesWithFailedTx == 0 {
			vac = append(vac, "no trace contained a failed transaction")
		}
		if shimRan && shim.InstancesWithChoice == 0 {
			vac = append(vac, "no dynamic map-range instance had 2 or more keys")
		}
		o.Coverage["vacuity_warnings"] = vac
		if len(env.SeedFailures) > 0 {
			o.Coverage["seed_steps_failed"] = env.SeedFailures
			if len(o.Findings) == 0 {
				// the designed seed could not be built and no difference between environments was found:
				// not a verdict (same convention as Engine A's failed seeds)
				fmt.Fprintf(os.Stderr, "C10: seed steps failed: %q\n", env.SeedFailures)
				o.Finish()
				return 2
			}
		}
		return o.Finish()
	}
}

func lastLine(b []byte) []byte {
	for len(b) > 0 && (b[len(b)-1] == '\n' || b[len(b)-1] == '\r') {
		b = b[:len(b)-1]
	}
	for i := len(b) - 1; i >= 0; i-- {
		if b[i] == '\n' {
			return b[i+1:]
		}
	}
	return b
}

func readRewriterReport() interface{} {
	p := os.Getenv("VERIF_SHIM_REPORT")
	if p == "" {
		return nil
	}
	bz, err := os.ReadFile(p)
	if err != nil {
		return nil
	}
	var v interface{}
	if json.Unmarshal(bz, &v) != nil {
		return nil
	}
	return v
}

type c10XPStats struct {
	TracesSelected int64  `json:"traces_selected"`
	Processes      int64  `json:"fresh_processes_spawned"`
	Compared       int64  `json:"traces_compared_with_reference"`
	TimedOut       bool   `json:"timed_out"`
	Rule           string `json:"rule"`
}

// c10CrossProcess runs the selected traces block by block in fresh processes.
func c10CrossProcess(env *detc.Env, traces []detc.Trace, refs [][]detc.BlockObs, tier string, deadline time.Time) (c10XPStats, []c10Finding, error) {
	st := c10XPStats{Rule: "traces in which every block after the first carries at most one message; each block runs in its own fresh process (restart at every block boundary)"}
	self, err := os.Executable()
	if err != nil {
		return st, nil, err
	}
	dir, err := os.MkdirTemp("", "verif-c10xp")
	if err != nil {
		return st, nil, err
	}
	defer os.RemoveAll(dir)
	seedPath := dir + "/seed.db"
	if err := env.DumpSeed(seedPath); err != nil {
		return st, nil, err
	}
	enc := chain.New(chain.Options{})
	// trie of the selected traces
	type node struct {
		db       string
		obs      []detc.BlockObs
		children map[string]*node
		block    detc.Block
		depth    int
		traces   []int // traces ending here
		halted   bool
		t        int64 // block time (unix nanos) of the last block executed
	}
	root := &node{db: seedPath, children: map[string]*node{}, t: chain.T0.UnixNano()}
	nodes := 0
	for ti, tr := range traces {
		if refs[ti] == nil {
			continue // not executed in phase 1 (deadline)
		}
		ok := true
		for i := 1; i < len(tr); i++ {
			if len(tr[i].Msgs) > 1 {
				ok = false
			}
		}
		if !ok {
			continue
		}
		st.TracesSelected++
		cur := root
		for i, b := range tr {
			k := detc.Trace{b}.String()
			nx := cur.children[k]
			if nx == nil {
				nodes++
				nx = &node{children: map[string]*node{}, block: b, depth: i + 1, db: fmt.Sprintf("%s/n%d.db", dir, nodes)}
				cur.children[k] = nx
			}
			cur = nx
		}
		cur.traces = append(cur.traces, ti)
	}
	var findings []c10Finding
	var mu sync.Mutex
	kinds := map[string]bool{}
	level := []*node{root}
	var firstErr error
	for len(level) > 0 {
		type job struct{ parent, n *node }
		var jobs []job
		for _, p := range level {
			if p.halted {
				continue
			}
			for _, c := range p.children {
				jobs = append(jobs, job{p, c})
			}
		}
		sort.Slice(jobs, func(i, j int) bool { return jobs[i].n.db < jobs[j].n.db })
		var idx int64 = -1
		var wg sync.WaitGroup
		for w := 0; w < runtime.NumCPU(); w++ {
			wg.Add(1)
			go func() {
				defer wg.Done()
				for {
					i := atomic.AddInt64(&idx, 1)
					if int(i) >= len(jobs) {
						return
					}
					if time.Now().After(deadline) {
						st.TimedOut = true
						return
					}
					j := jobs[i]
					cj := detc.ChildJob{DBIn: j.parent.db, Height: int64(j.n.depth), TimeNs: j.parent.t, Blocks: detc.EncodeBlocks(enc, []detc.Block{j.n.block})}
					if len(j.n.children) > 0 {
						cj.DBOut = j.n.db
					}
					in, _ := json.Marshal(cj)
					cmd := exec.Command(self, "c10child")
					cmd.Stdin = bytes.NewReader(in)
					cmd.Env = append(os.Environ(), "GOMAXPROCS=2")
					out, err := cmd.Output()
					atomic.AddInt64(&st.Processes, 1)
					var obs []detc.BlockObs
					if err == nil {
						err = json.Unmarshal(lastLine(out), &obs)
					}
					if err != nil {
						mu.Lock()
						if firstErr == nil {
							firstErr = fmt.Errorf("child failed: %v: %s", err, string(out))
						}
						mu.Unlock()
						return
					}
					j.n.obs = append(append([]detc.BlockObs{}, j.parent.obs...), obs...)
					if len(obs) > 0 && obs[len(obs)-1].Panic != "" {
						j.n.halted = true
					}
					j.n.t = j.parent.t + int64(j.n.block.Dt)
					for _, ti := range j.n.traces {
						atomic.AddInt64(&st.Compared, 1)
						if ok, d := detc.Equal(refs[ti], j.n.obs); !ok {
							kind := "C10/fresh-process-changes-outcome/" + detc.DiffKind(refs[ti], j.n.obs)
							mu.Lock()
							if !kinds[kind] {
								kinds[kind] = true
								findings = append(findings, c10Finding{kind, d, traces[ti].String(), "every block in a fresh process"})
							}
							mu.Unlock()
						}
					}
				}
			}()
		}
		wg.Wait()
		if firstErr != nil {
			return st, nil, firstErr
		}
		var next []*node
		for _, j := range jobs {
			next = append(next, j.n)
		}
		level = next
	}
	return st, findings, nil
}

// C10Child is the entry point of `mc c10child`: one job from stdin, executed
// in this fresh process, observations to stdout.
func C10Child() int {
	var job detc.ChildJob
	if err := json.NewDecoder(os.Stdin).Decode(&job); err != nil {
		fmt.Fprintln(os.Stderr, "c10child:", err)
		return 2
	}
	obs, err := detc.RunChild(job)
	if err != nil {
		fmt.Fprintln(os.Stderr, "c10child:", err)
		return 2
	}
	bz, _ := json.Marshal(obs)
	fmt.Println(string(bz))
	return 0
}
