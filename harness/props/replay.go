package props

import (
	"encoding/json"
	"fmt"
	"os"

	sdk "github.com/cosmos/cosmos-sdk/types"

	"verif/harness/chain"
	"verif/harness/explore"
	"verif/harness/scen"
)

// SeedByName finds a seed builder by scenario and seed name.
var SeedByName = map[string]func() explore.Seed{}

func registerSeeds(specs ...scen.Spec) {
	for _, sp := range specs {
		for _, s := range sp.Seeds {
			s := s
			SeedByName[sp.Name+"/"+s.Name] = func() explore.Seed { return s }
		}
	}
}

// Replay re-executes an Engine A replay file sequentially on a fresh chain,
// without the explorer, printing each step's result. It is the "plain unit
// test" for a violation.
func Replay(args []string) int {
	if len(args) < 1 {
		fmt.Fprintln(os.Stderr, "usage: mc replay <file>")
		return 2
	}
	bz, err := os.ReadFile(args[0])
	if err != nil {
		fmt.Fprintln(os.Stderr, err)
		return 2
	}
	var doc struct {
		PropertyID string `json:"property_id"`
		Kind       string `json:"kind"`
		Detail     string `json:"detail"`
		Engine     string `json:"engine"`
		Where      string `json:"where"`
		Replay     struct {
			Scenario string               `json:"scenario"`
			Seed     string               `json:"seed"`
			Path     []explore.ActionJSON `json:"path"`
		} `json:"replay"`
	}
	if err := json.Unmarshal(bz, &doc); err != nil {
		fmt.Fprintln(os.Stderr, err)
		return 2
	}
	fmt.Printf("property %s kind %s\n  %s\n", doc.PropertyID, doc.Kind, doc.Detail)
	if doc.Engine != "A" {
		fmt.Println("replay data (engine " + doc.Engine + "):")
		fmt.Println(string(bz))
		return 0
	}
	mk, ok := SeedByName[doc.Where]
	if !ok {
		fmt.Fprintln(os.Stderr, "unknown seed", doc.Where)
		return 2
	}
	var keys []string
	for round := 0; round < 5; round++ {
		seed := mk()
		c := chain.New(seed.Opts)
		ctx := seed.Build(c)
		ctx, _ = ctx.CacheContext()
		for i, aj := range doc.Replay.Path {
			a, err := explore.DecodeAction(c, aj)
			if err != nil {
				fmt.Fprintln(os.Stderr, "decode:", err)
				return 2
			}
			post, w, res, _ := explore.Apply(c, ctx, a)
			w()
			if a.Kind == explore.ActNextBlock {
				ctx = ctx.WithBlockHeader(post.BlockHeader())
			}
			if round == 0 {
				fmt.Printf("  step %d %s => ok=%v %s\n", i+1, a.Label, res.OK, res.Err)
			}
		}
		keys = append(keys, explore.KeyHex(c.StateKey(ctx, nil)))
		if round == 0 {
			msgs, broken := c.RunInvariants(ctx)
			for i := range msgs {
				fmt.Printf("  invariant %s/%s broken=%v\n", c.Invariants[i].Module, c.Invariants[i].Route, broken[i])
			}
			_ = sdk.Context{}
		}
	}
	same := true
	for _, k := range keys[1:] {
		if k != keys[0] {
			same = false
		}
	}
	fmt.Printf("final state key %s, identical over 5 replays: %v\n", keys[0], same)
	return 0
}
