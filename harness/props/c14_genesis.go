package props

import (
	"encoding/json"
	"fmt"

	"verif/harness/chain"
	"verif/harness/runner"
	"verif/harness/scen"
)

// c14GenesisRefs: the identifiers' references must also hold for states that enter through genesis, so
// the module's own genesis validation must REFUSE a document in which a reference dangles. Each case below
// is the exported prepared state with one reference redirected to a key that does not exist. Only the
// references the unchanged validation is known to check are listed (see DESIGN §0.3 observations for the
// ones it does not check).
func c14GenesisRefs(o *runner.Outcome) {
	c := chain.New(chain.Options{})
	ctx := scen.PreparedSeed("prepared").Build(c)
	cases := []struct {
		name, table, field, value string
		row                       int // which row of the table is redirected
	}{
		{"batch->project", "regen.ecocredit.v1.Batch", "project_key", "99", 0},
		// b2: all its amounts are whole numbers (no other validation rule can reject the document instead)
		{"batch->project(whole-number-amounts)", "regen.ecocredit.v1.Batch", "project_key", "99", 1},
		{"project->class", "regen.ecocredit.v1.Project", "class_key", "99", 0},
		{"project->class(second)", "regen.ecocredit.v1.Project", "class_key", "99", 1},
		{"class->credit-type", "regen.ecocredit.v1.Class", "credit_type_abbrev", "ZZZ", 0},
		{"balance->batch", "regen.ecocredit.v1.BatchBalance", "batch_key", "99", 0},
		{"supply->batch", "regen.ecocredit.v1.BatchSupply", "batch_key", "99", 0},
		{"basket-balance->batch", "regen.ecocredit.basket.v1.BasketBalance", "batch_denom", "C01-001-20200101-20210101-099", 0},
		// the following are accepted by the unchanged validation: recorded in known_findings.txt (DESIGN §0.3, D17)
		{"contract->batch", "regen.ecocredit.v1.BatchContract", "batch_key", "99", 0},
		{"contract->class", "regen.ecocredit.v1.BatchContract", "class_key", "99", 0},
		{"issuer->class", "regen.ecocredit.v1.ClassIssuer", "class_key", "99", 0},
		{"sell-order->batch", "regen.ecocredit.marketplace.v1.SellOrder", "batch_key", "99", 0},
		{"sell-order->market", "regen.ecocredit.marketplace.v1.SellOrder", "market_id", "99", 0},
		{"basket-balance->basket", "regen.ecocredit.basket.v1.BasketBalance", "basket_id", "99", 0},
		{"basket-class->class", "regen.ecocredit.basket.v1.BasketClass", "class_id", "C99", 0},
		{"basket-class->basket", "regen.ecocredit.basket.v1.BasketClass", "basket_id", "99", 0},
	}
	checked := 0
	for _, cs := range cases {
		doc := scen.ExportEco(c, ctx)
		var raw []interface{}
		if err := json.Unmarshal(doc[cs.table], &raw); err != nil {
			panic(err)
		}
		n := 0
		for _, x := range raw {
			if m, ok := x.(map[string]interface{}); ok {
				if n == cs.row {
					m[cs.field] = cs.value
				}
				n++
			}
		}
		doc.Set(cs.table, raw)
		checked++
		if err := c.Eco.ValidateGenesis(c.Cdc, nil, doc.JSON()); err == nil {
			rp, _ := json.Marshal(map[string]string{"table": cs.table, "field": cs.field, "value": cs.value})
			o.Findings = append(o.Findings, runner.Finding{Kind: "C14/genesis-validation-accepts-dangling-reference/" + cs.name,
				Detail: fmt.Sprintf("the exported prepared state with %s.%s of row %d set to %s passes ValidateGenesis", cs.table, cs.field, cs.row, cs.value),
				Engine: "A", Where: "genesis", Replay: rp})
		}
	}
	o.Coverage["genesis_documents_with_a_dangling_reference_offered"] = checked
}
