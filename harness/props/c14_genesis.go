package props

import (
	"encoding/json"
	"fmt"

	"verif/harness/chain"
	"verif/harness/runner"
	"verif/harness/scen"
)

// c14GenesisRefs: the identifiers' references must also hold for states that enter through genesis, so
// the module's own genesis validation must REFUSE a document in which a reference dangles. Each case below
// is the exported prepared state with one reference redirected to a key that does not exist. Only the
// references the unchanged validation is known to check are listed (see DESIGN §0.3 observations for the
// ones it does not check).
func c14GenesisRefs(o *runner.Outcome) {
	c := chain.New(chain.Options{})
	ctx := scen.PreparedSeed("prepared").Build(c)
	cases := []struct {
		name, table, field, value string
	}{
		{"batch->project", "regen.ecocredit.v1.Batch", "project_key", "99"},
		{"project->class", "regen.ecocredit.v1.Project", "class_key", "99"},
		{"class->credit-type", "regen.ecocredit.v1.Class", "credit_type_abbrev", "ZZZ"},
	}
	checked := 0
	for _, cs := range cases {
		doc := scen.ExportEco(c, ctx)
		var raw []interface{}
		if err := json.Unmarshal(doc[cs.table], &raw); err != nil {
			panic(err)
		}
		done := false
		for _, x := range raw {
			if m, ok := x.(map[string]interface{}); ok && !done {
				m[cs.field] = cs.value
				done = true
			}
		}
		doc.Set(cs.table, raw)
		checked++
		if err := c.Eco.ValidateGenesis(c.Cdc, nil, doc.JSON()); err == nil {
			rp, _ := json.Marshal(map[string]string{"table": cs.table, "field": cs.field, "value": cs.value})
			o.Findings = append(o.Findings, runner.Finding{Kind: "C14/genesis-validation-accepts-dangling-reference/" + cs.name,
				Detail: fmt.Sprintf("the exported prepared state with %s.%s of the first row set to %s passes ValidateGenesis", cs.table, cs.field, cs.value),
				Engine: "A", Where: "genesis", Replay: rp})
		}
	}
	o.Coverage["genesis_documents_with_a_dangling_reference_offered"] = checked
}
