package props

import (
	"encoding/json"
	"fmt"

	"verif/harness/chain"
	"verif/harness/runner"
	"verif/harness/scen"
)

// c14GenesisRefs: the identifiers' references must also hold for states that enter through genesis, so
// the module's own genesis validation must REFUSE a document in which a reference dangles. Each case below
// is the exported prepared state with one reference redirected to a key that does not exist. Only the
// references the unchanged validation is known to check are listed (see DESIGN §0.3 observations for the
// ones it does not check).
func c14GenesisRefs(o *runner.Outcome) {
	c := chain.New(chain.Options{})
	ctx := scen.PreparedSeed("prepared").Build(c)
	cases := []struct {
		name, table, field, value string
		row                       int                    // which row of the table is redirected
		add                       map[string]interface{} // if set: this row is APPENDED instead (a row no message writes)
	}{
		{"batch->project", "regen.ecocredit.v1.Batch", "project_key", "99", 0, nil},
		// b2: all its amounts are whole numbers (no other validation rule can reject the document instead)
		{"batch->project(whole-number-amounts)", "regen.ecocredit.v1.Batch", "project_key", "99", 1, nil},
		{"project->class", "regen.ecocredit.v1.Project", "class_key", "99", 0, nil},
		{"project->class(second)", "regen.ecocredit.v1.Project", "class_key", "99", 1, nil},
		{"class->credit-type", "regen.ecocredit.v1.Class", "credit_type_abbrev", "ZZZ", 0, nil},
		{"balance->batch", "regen.ecocredit.v1.BatchBalance", "batch_key", "99", 0, nil},
		{"supply->batch", "regen.ecocredit.v1.BatchSupply", "batch_key", "99", 0, nil},
		{"basket-balance->batch", "regen.ecocredit.basket.v1.BasketBalance", "batch_denom", "C01-001-20200101-20210101-099", 0, nil},
		// rows no message ever writes (Take deletes a drained row; balances of a batch exist only with the batch): an extra
		// all-zero row naming a batch that does not exist changes no sum, so only the reference check can refuse it
		{"basket-balance->batch(zero-balance-row)", "regen.ecocredit.basket.v1.BasketBalance", "", "", 0,
			map[string]interface{}{"basket_id": "1", "batch_denom": "C01-001-20200101-20210101-099", "balance": "0", "batch_start_date": "2020-01-01T00:00:00Z"}},
		{"balance->batch(zero-amounts-row)", "regen.ecocredit.v1.BatchBalance", "", "", 0,
			map[string]interface{}{"batch_key": "99", "address": "AQEBAQEBAQEBAQEBAQEBAQEBAQE=", "tradable_amount": "0", "retired_amount": "0", "escrowed_amount": "0"}},
		{"supply->batch(zero-amounts-row)", "regen.ecocredit.v1.BatchSupply", "", "", 0,
			map[string]interface{}{"batch_key": "99", "tradable_amount": "0", "retired_amount": "0", "cancelled_amount": "0"}},
		// the following are accepted by the unchanged validation: recorded in known_findings.txt (DESIGN §0.3, D17)
		{"contract->batch", "regen.ecocredit.v1.BatchContract", "batch_key", "99", 0, nil},
		{"contract->class", "regen.ecocredit.v1.BatchContract", "class_key", "99", 0, nil},
		{"issuer->class", "regen.ecocredit.v1.ClassIssuer", "class_key", "99", 0, nil},
		{"sell-order->batch", "regen.ecocredit.marketplace.v1.SellOrder", "batch_key", "99", 0, nil},
		{"sell-order->market", "regen.ecocredit.marketplace.v1.SellOrder", "market_id", "99", 0, nil},
		{"basket-balance->basket", "regen.ecocredit.basket.v1.BasketBalance", "basket_id", "99", 0, nil},
		{"basket-class->class", "regen.ecocredit.basket.v1.BasketClass", "class_id", "C99", 0, nil},
		{"basket-class->basket", "regen.ecocredit.basket.v1.BasketClass", "basket_id", "99", 0, nil},
	}
	checked := 0
	for _, cs := range cases {
		doc := scen.ExportEco(c, ctx)
		var raw []interface{}
		if err := json.Unmarshal(doc[cs.table], &raw); err != nil {
			panic(err)
		}
		if cs.add != nil {
			raw = append(raw, cs.add)
		}
		n := 0
		for _, x := range raw {
			if m, ok := x.(map[string]interface{}); ok {
				if n == cs.row && cs.add == nil {
					m[cs.field] = cs.value
				}
				n++
			}
		}
		doc.Set(cs.table, raw)
		checked++
		if err := c.Eco.ValidateGenesis(c.Cdc, nil, doc.JSON()); err == nil {
			rp, _ := json.Marshal(map[string]interface{}{"table": cs.table, "field": cs.field, "value": cs.value, "appended_row": cs.add})
			detail := fmt.Sprintf("the exported prepared state with %s.%s of row %d set to %s passes ValidateGenesis", cs.table, cs.field, cs.row, cs.value)
			if cs.add != nil {
				detail = fmt.Sprintf("the exported prepared state with the row %v appended to %s passes ValidateGenesis", cs.add, cs.table)
			}
			o.Findings = append(o.Findings, runner.Finding{Kind: "C14/genesis-validation-accepts-dangling-reference/" + cs.name,
				Detail: detail,
				Engine: "A", Where: "genesis", Replay: rp})
		}
	}
	o.Coverage["genesis_documents_with_a_dangling_reference_offered"] = checked
}
