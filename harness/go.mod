module verif/harness

go 1.21

require (
	cosmossdk.io/api v0.3.1
	cosmossdk.io/math v1.3.0
	github.com/cometbft/cometbft v0.37.5
	github.com/cometbft/cometbft-db v0.11.0
	github.com/cosmos/btcutil v1.0.5
	github.com/cosmos/cosmos-sdk v0.47.12
	github.com/cosmos/cosmos-sdk/orm v1.0.0-alpha.12.0.20240514101554-56648741cbd6
	github.com/cosmos/gogoproto v1.4.10
	github.com/cosmos/ibc-go/v7 v7.4.0
	github.com/regen-network/regen-ledger/api/v2 v2.0.0
	github.com/regen-network/regen-ledger/types/v2 v2.0.0
	github.com/regen-network/regen-ledger/x/data/v3 v3.0.0
	github.com/regen-network/regen-ledger/x/ecocredit/v3 v3.0.0
	github.com/regen-network/regen-ledger/x/intertx v1.0.0
	golang.org/x/crypto v0.21.0
	google.golang.org/protobuf v1.33.0
)

require (
	cosmossdk.io/core v0.5.1 // indirect
	cosmossdk.io/depinject v1.0.0-alpha.4 // indirect
	cosmossdk.io/errors v1.0.1 // indirect
	filippo.io/edwards25519 v1.0.0 // indirect
	github.com/99designs/keyring v1.2.1 // indirect
	github.com/ChainSafe/go-schnorrkel v1.0.0 // indirect
	github.com/armon/go-metrics v0.4.1 // indirect
	github.com/beorn7/perks v1.0.1 // indirect
	github.com/bgentry/speakeasy v0.1.1-0.20220910012023-760eaf8b6816 // indirect
	github.com/btcsuite/btcd/btcec/v2 v2.3.2 // indirect
	github.com/cespare/xxhash/v2 v2.2.0 // indirect
	github.com/cockroachdb/apd/v2 v2.0.2 // indirect
	github.com/cockroachdb/errors v1.11.1 // indirect
	github.com/cockroachdb/logtags v0.0.0-20230118201751-21c54148d20b // indirect
	github.com/cockroachdb/redact v1.1.5 // indirect
	github.com/confio/ics23/go v0.9.0 // indirect
	github.com/cosmos/cosmos-proto v1.0.0-beta.5 // indirect
	github.com/cosmos/go-bip39 v1.0.0 // indirect
	github.com/cosmos/gogogateway v1.2.0 // indirect
	github.com/cosmos/iavl v0.20.1 // indirect
	github.com/cosmos/ics23/go v0.10.0 // indirect
	github.com/davecgh/go-spew v1.1.2-0.20180830191138-d8f796af33cc // indirect
	github.com/decred/dcrd/dcrec/secp256k1/v4 v4.1.0 // indirect
	github.com/dvsekhvalnov/jose2go v1.6.0 // indirect
	github.com/felixge/httpsnoop v1.0.4 // indirect
	github.com/fsnotify/fsnotify v1.7.0 // indirect
	github.com/getsentry/sentry-go v0.23.0 // indirect
	github.com/go-kit/kit v0.12.0 // indirect
	github.com/go-kit/log v0.2.1 // indirect
	github.com/go-logfmt/logfmt v0.6.0 // indirect
	github.com/godbus/dbus v0.0.0-20190726142602-4481cbc300e2 // indirect
	github.com/gogo/googleapis v1.4.1 // indirect
	github.com/gogo/protobuf v1.3.3 // indirect
	github.com/golang/mock v1.6.0 // indirect
	github.com/golang/protobuf v1.5.4 // indirect
	github.com/golang/snappy v0.0.4 // indirect
	github.com/google/btree v1.1.2 // indirect
	github.com/google/go-cmp v0.6.0 // indirect
	github.com/gorilla/handlers v1.5.1 // indirect
	github.com/gorilla/mux v1.8.1 // indirect
	github.com/gorilla/websocket v1.5.0 // indirect
	github.com/grpc-ecosystem/go-grpc-middleware v1.3.0 // indirect
	github.com/grpc-ecosystem/grpc-gateway v1.16.0 // indirect
	github.com/gsterjov/go-libsecret v0.0.0-20161001094733-a6f4afe4910c // indirect
	github.com/gtank/merlin v0.1.1 // indirect
	github.com/gtank/ristretto255 v0.1.2 // indirect
	github.com/hashicorp/go-immutable-radix v1.3.1 // indirect
	github.com/hashicorp/golang-lru v0.5.5-0.20210104140557-80c98217689d // indirect
	github.com/hashicorp/hcl v1.0.0 // indirect
	github.com/hdevalence/ed25519consensus v0.1.0 // indirect
	github.com/huandu/skiplist v1.2.0 // indirect
	github.com/kr/pretty v0.3.1 // indirect
	github.com/kr/text v0.2.0 // indirect
	github.com/libp2p/go-buffer-pool v0.1.0 // indirect
	github.com/magiconair/properties v1.8.7 // indirect
	github.com/mattn/go-isatty v0.0.20 // indirect
	github.com/matttproud/golang_protobuf_extensions v1.0.4 // indirect
	github.com/mimoo/StrobeGo v0.0.0-20210601165009-122bf33a46e0 // indirect
	github.com/mitchellh/mapstructure v1.5.0 // indirect
	github.com/mtibben/percent v0.2.1 // indirect
	github.com/pelletier/go-toml/v2 v2.1.0 // indirect
	github.com/pkg/errors v0.9.1 // indirect
	github.com/pmezard/go-difflib v1.0.1-0.20181226105442-5d4384ee4fb2 // indirect
	github.com/prometheus/client_golang v1.14.0 // indirect
	github.com/prometheus/client_model v0.3.0 // indirect
	github.com/prometheus/common v0.42.0 // indirect
	github.com/prometheus/procfs v0.9.0 // indirect
	github.com/rcrowley/go-metrics v0.0.0-20201227073835-cf1acfcdf475 // indirect
	github.com/rogpeppe/go-internal v1.11.0 // indirect
	github.com/sagikazarmark/slog-shim v0.1.0 // indirect
	github.com/spf13/afero v1.11.0 // indirect
	github.com/spf13/cast v1.6.0 // indirect
	github.com/spf13/cobra v1.8.0 // indirect
	github.com/spf13/pflag v1.0.5 // indirect
	github.com/spf13/viper v1.18.2 // indirect
	github.com/stretchr/testify v1.9.0 // indirect
	github.com/subosito/gotenv v1.6.0 // indirect
	github.com/syndtr/goleveldb v1.0.1-0.20220721030215-126854af5e6d // indirect
	github.com/tendermint/go-amino v0.16.0 // indirect
	github.com/tidwall/btree v1.6.0 // indirect
	golang.org/x/exp v0.0.0-20230905200255-921286631fa9 // indirect
	golang.org/x/net v0.23.0 // indirect
	golang.org/x/sync v0.6.0 // indirect
	golang.org/x/sys v0.18.0 // indirect
	golang.org/x/term v0.18.0 // indirect
	golang.org/x/text v0.14.0 // indirect
	google.golang.org/genproto v0.0.0-20240123012728-ef4313101c80 // indirect
	google.golang.org/genproto/googleapis/api v0.0.0-20240123012728-ef4313101c80 // indirect
	google.golang.org/genproto/googleapis/rpc v0.0.0-20240125205218-1f4bbc51befe // indirect
	google.golang.org/grpc v1.62.1 // indirect
	gopkg.in/ini.v1 v1.67.0 // indirect
	gopkg.in/yaml.v2 v2.4.0 // indirect
	gopkg.in/yaml.v3 v3.0.1 // indirect
	pgregory.net/rapid v1.1.0 // indirect
	sigs.k8s.io/yaml v1.4.0 // indirect
)

replace (
	github.com/99designs/keyring => github.com/cosmos/keyring v1.2.0
	github.com/dgrijalva/jwt-go => github.com/golang-jwt/jwt/v4 v4.4.2
	github.com/gogo/protobuf => github.com/regen-network/protobuf v1.3.3-alpha.regen.1
	github.com/syndtr/goleveldb => github.com/syndtr/goleveldb v1.0.1-0.20210819022825-2ae1ddf74ef7
	golang.org/x/exp => golang.org/x/exp v0.0.0-20230711153332-06a737ee72cb
)

replace (
	github.com/regen-network/regen-ledger/api/v2 => /repo/api
	github.com/regen-network/regen-ledger/types/v2 => /repo/types
	github.com/regen-network/regen-ledger/x/data/v3 => /repo/x/data
	github.com/regen-network/regen-ledger/x/ecocredit/v3 => /repo/x/ecocredit
	github.com/regen-network/regen-ledger/x/intertx => /repo/x/intertx
)
