# sourced by every script: offline Go environment
export GOFLAGS=-mod=mod GOPROXY=off GOSUMDB=off GOTOOLCHAIN=local
export VERIF_ROOT="${VERIF_ROOT:-/verif}"
