# sourced by every script (after cd to the checkout root): offline Go environment.
export GOFLAGS=-mod=mod GOPROXY=off GOSUMDB=off GOTOOLCHAIN=local
# Evidence, replays and known_findings.txt are taken from the checkout the
# script runs in (/verif for the registered commands; a snapshot for vp run).
export VERIF_ROOT="${VERIF_ROOT:-$(pwd)}"
