#!/bin/bash
# usage: scripts/mutant_run.sh <patch.diff> <tier> <property id>...
# Runs the given checks against a scratch worktree of /repo with the patch
# applied, WITHOUT touching /repo or /verif/evidence: the harness is copied
# next to the worktree with its go.mod replace directives pointing at it.
# Prints one line per check: "<id> exit=<code>" plus the VIOLATION lines.
set -uo pipefail
cd "$(dirname "$0")/.."
. scripts/env.sh
patch=$(readlink -f "$1"); tier="$2"; shift 2
scratch=$(mktemp -d "${TMPDIR:-/var/tmp}/verif-mut.XXXXXX")
wt="$scratch/repo"
cleanup() { git -C /repo worktree remove --force "$wt" >/dev/null 2>&1; rm -rf "$scratch"; }
trap cleanup EXIT
git -C /repo worktree add --detach "$wt" HEAD -q || exit 2
if ! git -C "$wt" apply "$patch"; then echo "patch does not apply" >&2; exit 2; fi
rsync -a --exclude '*_test.go' ${VERIF_MUT_EXCLUDE:+--exclude "$VERIF_MUT_EXCLUDE"} harness/ "$scratch/harness/"
sed -i "s#=> /repo/#=> $wt/#" "$scratch/harness/go.mod"
mkdir -p "$scratch/root"; cp known_findings.txt "$scratch/root/"
( cd "$scratch/harness" && go build -tags verif -o "$scratch/mc" ./cmd/mc ) || { echo "mutant does not compile with the harness"; exit 2; }
for id in "$@"; do
  if [ "$id" = "C10" ]; then
    bin/rewriter -repo "$wt" -out "$scratch/ov" >/dev/null || { echo "C10 exit=2 (rewriter)"; continue; }
    # the rewriter reports sites relative to /repo/: harmless for a worktree
    ( cd "$scratch/harness" && go build -tags "verif shim" -overlay "$scratch/ov/overlay.json" -o "$scratch/mcshim" ./cmd/mc ) || { echo "C10 exit=2 (shim build)"; continue; }
    export VERIF_SHIM_BIN="$scratch/mcshim" VERIF_SHIM_REPORT="$scratch/ov/report.json"
  fi
  out=$(VERIF_ROOT="$scratch/root" "$scratch/mc" check -p "$id" -tier "$tier" 2>"$scratch/stderr.txt"); rc=$?
  echo "$id exit=$rc"
  # exit 2 = the check could not run (for example a seed that no longer builds): show why
  if [ $rc -ge 2 ] || [ -n "${VERIF_MUT_STDERR:-}" ]; then tail -n 8 "$scratch/stderr.txt" | cut -c1-600; fi
  echo "$out" | grep -A2 "^VIOLATION" | cut -c1-400
done
# note: every patched tree adds its own entries to the shared Go build cache (a few hundred MB each);
# after many runs `go clean -cache` gives the space back
