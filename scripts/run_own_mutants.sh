#!/bin/bash
# Runs every patch in /verif/mutants against the quick check of the property
# named in its .txt file (in a scratch worktree; /repo untouched) and writes
# mutants/RESULTS.md. Expected: exit=1 for every mutant.
cd "$(dirname "$0")/.."
out=mutants/RESULTS.md
{
  echo "# Own deliberate property-breaking changes: detection results"
  echo
  echo "Produced by scripts/run_own_mutants.sh (each patch applied to a scratch worktree of /repo, the registered quick check of the property run against it)."
  echo
  echo "| patch | property | what it does | quick check exit | violation kinds |"
  echo "|---|---|---|---|---|"
} > "$out"
for p in mutants/*.patch; do
  n=$(basename "$p" .patch)
  prop=$(head -1 "mutants/$n.txt" | sed 's/property: //')
  desc=$(sed -n 2p "mutants/$n.txt")
  res=$(scripts/mutant_run.sh "$p" quick $prop 2>&1)
  rc=$(echo "$res" | grep -o "^$prop exit=[0-9]*" | head -1 | sed 's/.*=//')
  kinds=$(echo "$res" | grep -o "kind=[^ ]*" | sed 's/kind=//' | sort -u | head -4 | tr '\n' ' ')
  echo "| $n | $prop | $desc | $rc | $kinds |" >> "$out"
  echo "$n $prop exit=$rc"
done
