#!/bin/bash
# Builds bin/mc from /repo's CURRENT working tree (the harness module replaces
# the regen modules by /repo paths) with the verif hooks on. Builds to a
# private name and renames, so concurrent checks do not clash.
set -euo pipefail
cd "$(dirname "$0")/.."
. scripts/env.sh
mkdir -p bin
tmp="bin/.mc.$$"
( cd harness && go build -tags verif -o "../$tmp" ./cmd/mc )
mv -f "$tmp" bin/mc.$$.bin
echo "bin/mc.$$.bin"
