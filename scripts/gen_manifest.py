#!/usr/bin/env python3
"""Generates /verif/MANIFEST.json from the table below (single source of truth)."""
import json, os, subprocess
ROOT = os.path.dirname(os.path.dirname(os.path.abspath(__file__)))

TRUST = ("Trusted base: Go, cosmos-sdk v0.47.12 (baseapp cache/commit semantics, auth, bank, ORM, IAVL), cometbft-db MemDB, protobuf; "
         "hand mirror of app/app.go wiring; messages delivered as a single-message tx (proto round trip, ValidateBasic, handler on a cache branch); "
         "bounded by the alphabets, depths and seeds listed in evidence.")

# id -> (engine, category, technique, text, design_ref, note)
CHECKS = {
 "C01": ("A", "model_checking", "explicit-state BFS over the real handlers (state = hash of all raw KV pairs), invariant on every distinct state",
         "All event sequences up to the stated depth over five alphabets (core, basket, market, bridge, 34-digit amounts) from prepared and near-initial seeds are executed on the real modules with a real bank keeper; on every distinct state the exact-rational conservation sums, the amount well-formedness and the chain's own registered batch-supply invariant are checked.",
         "§7 C01", TRUST),
}

PENDING_REASON = "check not built yet in this session (under construction; see DESIGN.md §7 for the planned model-checking design)"

def main():
    props = [json.loads(l) for l in open(os.path.join(ROOT, "properties.jsonl"))]
    checks, na = [], []
    for p in props:
        pid = p["id"]
        if pid in CHECKS:
            eng, cat, tech, text, ref, note = CHECKS[pid]
            checks.append({
                "property_id": pid,
                "quick_cmd": f"scripts/check.sh {pid} quick",
                "thorough_cmd": f"scripts/check.sh {pid} thorough",
                "evidence_file": f"/verif/evidence/{pid}.json",
                "replay_cmd_template": "bin/mc replay {path}",
                "engine": eng,
                "level_claimed": {"category": cat, "text": text, "design_ref": ref},
                "level_note": note,
                "technique": tech,
            })
        else:
            na.append({"property_id": pid, "reason": NA.get(pid, PENDING_REASON)})
    hooks = subprocess.run(["git", "-C", "/repo", "log", "--format=%H %s", "--grep=^verif hook"], capture_output=True, text=True).stdout.strip().splitlines()
    m = {
        "version": 1,
        "setup_cmd": "scripts/setup.sh",
        "hooks": {
            "guard": "verif",
            "enable": "go build -tags verif (scripts/build.sh builds /verif/harness, whose go.mod replaces the regen modules by /repo paths, so /repo's current working tree is compiled)",
            "baseline_off_cmd": "for m in . api types x/data x/ecocredit x/intertx; do (cd /repo/$m && GOFLAGS=-mod=mod go test -vet=off -count=1 -timeout 25m ./...); done",
            "source_commits": [h.split()[0] for h in hooks],
            "add_only": True,
        },
        "engines": [
            {"name": "A", "path": "harness/explore", "serves_properties": sorted(k for k, v in CHECKS.items() if v[0] == "A"),
             "kind_free_text": "explicit-state breadth-first model checker whose transition relation is the real regen-ledger modules + SDK bank/auth over IAVL; path replay on cache branches; full-state hashing"},
        ],
        "checks": checks,
        "not_applicable": na,
        "notes": "See DESIGN.md. known_findings.txt lists recorded findings and fixes.",
    }
    json.dump(m, open(os.path.join(ROOT, "MANIFEST.json"), "w"), indent=1)
    print("checks:", len(checks), "not_applicable:", len(na))

NA = {}
if __name__ == "__main__":
    main()
