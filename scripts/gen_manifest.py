#!/usr/bin/env python3
"""Generates /verif/MANIFEST.json from the table below (single source of truth)."""
import json, os, subprocess
ROOT = os.path.dirname(os.path.dirname(os.path.abspath(__file__)))

TRUST = ("Trusted base: Go, cosmos-sdk v0.47.12 (baseapp cache/commit semantics, auth, bank, ORM, IAVL), cometbft-db MemDB, protobuf; "
         "hand mirror of app/app.go wiring; messages delivered as a single-message tx (proto round trip, ValidateBasic, handler on a cache branch); "
         "bounded by the alphabets, depths and seeds listed in evidence.")

# id -> (engine, category, technique, text, design_ref, note)
A_TECH = "explicit-state BFS over the real handlers (state = hash of all raw KV pairs + block time + monitor ghost); "
B_TECH = "bounded-exhaustive input enumeration against an independent reference (math/big, hand-written recognisers)"
CHECKS = {
 "C01": ("A", "model_checking", A_TECH + "invariant on every distinct state",
         "All event sequences up to the stated depth over five alphabets (core, basket, market, bridge, 34-digit amounts) from prepared and near-initial seeds are executed on the real modules with a real bank keeper; on every distinct state the exact-rational conservation sums, amount well-formedness and the chain's own registered batch-supply invariant are checked.",
         "§7 C01", TRUST),
 "C02": ("A", "model_checking", A_TECH + "ghost ledger of issued amounts + frame monitor on every transition",
         "Same alphabets as C01; a ghost ledger fed from accepted CreateBatch/Mint/BridgeReceive contents is compared with T+R+C on every state, and every non-issuing transition (failed ones and block boundaries included) must leave T+R+C of every batch unchanged; sealed batches are frozen.",
         "§7 C02", TRUST),
 "C03": ("A", "model_checking", A_TECH + "frame condition over every third party on every transition",
         "For every successful message and every block boundary, every account that did not sign (module accounts included), every batch and every bank denom is compared before/after; the only admitted decreases are the exact escrow drop of a filled seller and fee-pool debits signed by the authority.",
         "§7 C03", TRUST),
 "C04": ("A", "model_checking", A_TECH + "monotonicity monitor on every transition",
         "Retired balances, retired supply and cancelled supply are compared across every transition of the C01 alphabets from seeds in which every written row already carries a retired amount; per-handler counters prove each writer was exercised on such rows.",
         "§7 C04", TRUST),
 "C05": ("A", "model_checking", A_TECH + "exact backing invariant on every state + mint/burn monitors",
         "Basket alphabets incl. 34-digit puts (totals beyond 34 significant digits), basket tokens used as a marketplace ask denomination with fees, and a state imported from a genesis with absent zero amounts: bank supply of each basket denom equals the exact-rational sum of basket balances x 10^precision on every state; Put/Take mint/burn/release exactly; the registered basket-supply invariant must never report a failure.",
         "§7 C05", TRUST),
 "C06": ("A", "model_checking", A_TECH + "escrow = open orders invariant on every state",
         "Market and expiry alphabets (sell, update up/down/denom change, cancel, partial/full/multi fills, expiry, allowed-denom changes): per (account,batch) escrow equals the sum of open order quantities, orders are well-formed, and each created/updated order's ask denom was allowed in the pre-state.",
         "§7 C06", TRUST),
 "C07": ("A", "model_checking", A_TECH + "many seeds (fee-rate pairs x order histories) x wide one-step BuyDirect alphabet, exact-rational settlement oracle",
         "Every successful BuyDirect is recomputed from the pre-state order, fee params and request in exact rationals: credits to the buyer (retired iff auto-retire), escrow/order shrink, seller payment and fee within one base unit per fill, buyer debit = payouts and <= exact total, max fee >= floor(buyer fee), nothing else moves.",
         "§7 C07", TRUST + " Alphabet bound: ask x quantity below 34 significant digits."),
 "C08": ("A", "model_checking", A_TECH + "role table evaluated in the pre-state + row-level footprint diff on every accepted message",
         "Every message type of the three ecocredit services and the data service is sent by every account (holder, former holder, holder of the same role elsewhere, stranger, authority) from plain and role-rotated seeds; acceptance requires the role in the pre-state, the row diff must stay inside the message's write set, after every creation or hand-over (also to a 32-byte account) the role is held by exactly the account(s) the message names, unimplemented RPCs must fail, sealed batches never change.",
         "§7 C08, Appendix A", TRUST),
 "C09": ("A", "model_checking", A_TECH + "genesis export/validate/import/re-export round trip on every distinct state",
         "On every distinct state of a boundary-input alphabet (equal dates, epoch and pre-1970 dates, maximal lengths, public resolvers, zero fees) and of the core/market/basket alphabets: ExportGenesis of both modules, the modules' ValidateGenesis, InitGenesis into a fresh chain, byte-identical re-export, registered invariants on the imported chain.",
         "§7 C09", TRUST + " Two recorded findings (known_findings.txt) are printed as KNOWN-FINDING."),
 "C10": ("C", "model_checking", "exhaustive ABCI trace enumeration x all restart subsets x fresh-process restarts x deviation-bounded map-order/clock schedules (source-rewriting shim), observations compared byte for byte",
         "All traces of B blocks with <= M single-message transactions over a mixed success/failure alphabet are executed through baseapp's real InitChain/BeginBlock/DeliverTx/EndBlock/Commit; per trace every non-empty subset of block boundaries tears down and rebuilds all application objects over the same database, a subset of traces runs every block in a fresh OS process (resets package-level state), the trace with failed transactions deleted must give identical hashes and results, and in an overlay build generated from the working tree every dynamic map-range instance of regen code is permuted (<=1 deviating instance quick, <=2 thorough) and the wall clock is moved; AppHash, tx results (code, gas, data, log, events), begin-block events and invariant outputs must be identical.",
         "§5, §7 C10", "Trusted base: Go, cosmos-sdk/baseapp/ORM/IAVL (not rewritten), cometbft-db MemDB. The in-process repetition only samples Go's map randomisation and is a cross-check, not the deciding step."),
 "C11": ("A", "model_checking", A_TECH + "admission iff-oracle and oldest-first drain oracle on every Put/Take",
         "Six baskets (every date-criteria variant, auto-retire on/off) x batches with start dates on, 1 ns/1 s before and after each boundary (epoch and pre-1970 included, ties, denom order != date order) x block-time steps and governance updates of the criteria: Put succeeds iff the oracle's admission predicate holds; Take equals the oracle's oldest-first drain; auto-retire baskets deliver retired credits.",
         "§7 C11", TRUST + " Alphabet bound: amounts below 34 significant digits."),
 "C12": ("A", "model_checking", A_TECH + "begin-block monitor on every block boundary",
         "Expiry alphabet (several orders per seller/batch, expiry = block time, +1 ns, after update / partial fill, gaps of 5 s..1 y): BeginBlock never panics or errors, removes exactly the orders due, refunds exactly their quantities to their sellers, leaves the others byte-identical; no expired order is ever bought.",
         "§7 C12", TRUST + " Block times after the Unix epoch."),
 "C13": ("A", "model_checking", A_TECH + "ghost set of consumed origin txs and contract bindings",
         "Bridge alphabet (three issuing entry points, replays across entry points/classes/contracts/letter case, allow-list changes, bridge out): no (class,id,source) issues twice, receipts only from allowed chains, a bound contract always mints into its batch, Bridge out cancels exactly (the owner's tradable balance drops by the bridged amounts, nothing else of any balance row moves) and reports the batch's contract in one event per credit.",
         "§7 C13", TRUST + " Origin tx identity is the literal (id, source) pair."),
 "C14": ("A+B", "model_checking", A_TECH + "id ghost (consecutive numbering) + referential integrity on every state; plus " + B_TECH + " for formats",
         "Creation histories with failing creations interleaved from a fresh chain and from a valid genesis with counters at 9/99/999 and three credit types: ids unique, accepted by the chain's validators, parsers recover parents, numbered consecutively by successful creations only, all listed references resolve (order -> market of the order's credit type included); genesis part: the module's own ValidateGenesis must refuse the exported state with one reference redirected to a missing key, for each reference it is known to follow (eight it does not follow are recorded findings). Format part: formatted ids and all short strings / edit neighbours against a hand-written recogniser.",
         "§7 C14", TRUST),
 "C15": ("A+B", "model_checking", B_TECH + " for the conversion functions; plus " + A_TECH + "ghost of the successful data messages per content hash, injected colliding ID hashers, by-hash / by-IRI / conversion queries for a fixed universe of content hashes on every state",
         "Conversion part: all 65536+ values of every numeric field, every hash length 19..65, extension strings, and parser-side edit neighbours / synthetic base58check payloads: round trip identity, injectivity over all valid hashes enumerated, accepted IRIs re-encode identically. On-chain part: over all histories of the data alphabet (9 content hashes incl. two with equal digest bytes and two never used, production and colliding ID hashers) every by-hash and by-IRI query answers with exactly the asked content hash's own record (IRI, hash, first anchor time, attestors, resolvers) or not at all.",
         "§7 C15", TRUST + " base58 library used only to build inputs."),
 "C16": ("A", "model_checking", A_TECH + "ghost of first-anchor times / attestations / registrations, injected weak ID hashers",
         "Data-module alphabet (Anchor/Attest/DefineResolver/RegisterResolver, 6 content hashes, 3 signers, time steps) under the production hasher and under constant / few-output / repeating-byte digests with MinLength 1,4,8 built with the repository's own hasher constructor: ids of distinct IRIs differ and never change, first timestamps are permanent, registrations are never lost, an anchored IRI stays acceptable to the chain's own parser, under the production hasher the id is the documented derivation (independent BLAKE2b), only managers register to private resolvers.",
         "§7 C16", TRUST + " Uses the verif-tagged constructor hook."),
 "C17": ("A", "model_checking", A_TECH + "on every distinct state all list and single-entity queries x filter arguments (present and near-miss) x page requests are enumerated against a brute-force filter of the primary-key scan",
         "States of a populate alphabet from four seeds (one a module-validated genesis with prefix-related ids C01/C011, C10/C100, C01-001/C01-0011, r/r1; one with byte-prefix-related data ids under a weak hasher): 27 list queries and 14 single-entity queries of the four query services are called with every present and near-miss filter value and with nil paging, key walks (limit 1,2,3,N,N+1), offset walks, reverse key and offset walks, and limit-less continuations; results must equal the brute-force multiset, pages neither drop nor repeat, totals are correct where the PageRequest contract defines them.",
         "§7 C17", TRUST + " Per-(query,argument) results are memoised on a content hash of the tables the handler reads. States with more than 100 matching rows are outside the bound."),
 "C18": ("A", "model_checking", "exhaustive product of accepted parameter configurations x user operations executed on the real handlers (two acceptance paths: governance messages, genesis validation+import)",
         "Every configuration of the parameter alphabet that a path accepts is followed by CreateClass, basket Create (several offers each), Sell+BuyDirect per allowed denom, Put+Take: operations whose preconditions hold must succeed without panic (also with an explicit zero max fee, and on the basket of a three-letter credit type added through governance), the accepted fee rates are in force (exact fee collected and seller payment), creation fees (up to amounts beyond 64 bits) are debited and burned exactly, underpaid/unfunded creations are rejected, no fee set => nothing charged.",
         "§7 C18", TRUST),
 "C19": ("A+B", "model_checking", B_TECH + " + operation-sequence search for aliasing and history dependence, for types/math; plus " + A_TECH + "exact truncation of coin amounts at the marketplace use sites on every fill",
         "Arithmetic part: ~500 (thorough ~2000) decimal literals, all ordered pairs x 14 operations against big.Rat; every string over {0,1,5,.,-,+,e} up to length 5 (6) against the reference grammar; operand immutability on the internal apd words; a BFS over operation sequences on a shared pool for big.Int aliasing; a probe set that must be bit-identical after every earlier-operation kind. Use-site part (marketplace and basket): every successful BuyDirect of the fee-rate x order-history seeds pays the seller trunc(exact proceeds) and collects trunc(exact fees).",
         "§7 C19", TRUST + " Go math/big is the arithmetic reference."),
 "C20": ("B", "model_checking", "exhaustive product of inputs x environment answers (and an earlier call on the same keeper) executed on the real keeper against recording fakes of the ICA controller and capability keepers",
         "Owners (20- and 32-byte, upper-case spelling, another chain's prefix) x connections (incl. blank-suffixed ids) x message shapes x block times (incl. sub-second) x channel/capability availability x SendTx outcome x delivery (in memory, wire round trip) x cold/warm keeper, through ValidateBasic and the real keeper.SubmitTx: one packet on the owner's own port with exactly the inner message and timeout = block time + 60 s, or no send and an error.",
         "§7 C20", "Trusted base: ibc-go packet (de)serialisation used to decode the recorded packet (cross-checked by a hand-written wire reader)."),
}

# sentences added in session 3 (what the check covers beyond the text above)
EXTRA = {
 "C01": " Genesis part: the exported state with one batch in two baskets must pass the module's genesis validation and seven documents with one supply or basket holding off by one unit must be refused. A second seed of the 34-digit scenario carries a 35-digit retired balance that the marketplace and basket paths add to.",
 "C02": " The 34/35-digit amount scenario is part of this check too (a helper that rounds at 34 digits makes T+R+C drift from what was issued).",
 "C04": " The 34/35-digit amount scenario is part of this check too: a 35-digit retired balance written by an issuance must not lose its last place when a purchase with auto-retire, a Take with retire-on-take or a Send with a retired amount adds to it.",
 "C05": " A second genesis seed holds basket balance rows no message writes (a balance spelled with one decimal place beyond the precision, an all-zero row).",
 "C06": " A scenario with 101 orders of one seller lapsing in one block and orders of one seller for two batches adjacent in the expiration index is included.",
 "C12": " A scenario with 101 orders of one seller lapsing in one block (more than any page size) and orders of one seller for two batches adjacent in the expiration index is included.",
 "C14": " The genesis part also offers documents with an APPENDED all-zero row (basket balance, balance, supply) that names a batch which does not exist: such a row changes no sum, so only the reference check can refuse it.",
 "C15": " A small scenario over 64- and 33-byte digests that agree on their first 40 bytes is included.",
 "C16": " A small scenario over 64- and 33-byte digests that agree on their first 40 bytes is included.",
 "C17": " The deprecated aggregate Params query is compared part by part with the stored singletons and tables, the alphabet contains the governance messages that change them, and a seed imported from a genesis document carries absent zero amounts, a project whose id is not the prefix of its batches' denoms and legacy data rows (by-hash queries are not asked for content hashes that fail the stateless validation). A seed with 101 allowed classes of one basket, 101 class creators, issuers, allowed denoms and bridge chains exercises every un-paginated sub-list and list beyond the default page limit of 100.",
 "C18": " A sub-product covers the bridge-chain allowlist: names in several spellings x {governance message, genesis}; on every accepted configuration Bridge must succeed with the target as configured and as listed, an unlisted target must fail, and removal by the configured spelling must empty the list.",
 "C19": " On every state of the Engine A part no stored balance, supply, basket balance or order quantity is negative, including the histories of a genesis whose open orders exceed the seller's escrow.",
}

BASELINE_CMD = "for m in $(cat /w/out/gomods.txt); do MF=$(cd /repo/$m && . /w/out/goenv.sh && gomodflag); (cd /repo/$m && go test $MF -json -vet=off -count=1 -timeout 25m ./...); done"

PENDING_REASON = "check not built yet in this session (under construction; see DESIGN.md §7 for the planned model-checking design)"

def main():
    props = [json.loads(l) for l in open(os.path.join(ROOT, "properties.jsonl"))]
    checks, na = [], []
    for p in props:
        pid = p["id"]
        if pid in CHECKS:
            eng, cat, tech, text, ref, note = CHECKS[pid]
            text += EXTRA.get(pid, "")
            checks.append({
                "property_id": pid,
                "quick_cmd": f"scripts/check.sh {pid} quick",
                "thorough_cmd": f"scripts/check.sh {pid} thorough",
                "evidence_file": f"/verif/evidence/{pid}.json",
                "replay_cmd_template": "bin/mc replay {path}",
                "engine": eng,
                "level_claimed": {"category": cat, "text": text, "design_ref": ref},
                "level_note": note,
                "technique": tech,
            })
        else:
            na.append({"property_id": pid, "reason": NA.get(pid, PENDING_REASON)})
    hooks = subprocess.run(["git", "-C", "/repo", "log", "--format=%H %s", "--grep=^verif hook"], capture_output=True, text=True).stdout.strip().splitlines()
    m = {
        "version": 1,
        "setup_cmd": "scripts/setup.sh",
        "hooks": {
            "guard": "verif",
            "enable": "go build -tags verif (scripts/build.sh builds /verif/harness, whose go.mod replaces the regen modules by /repo paths, so /repo's current working tree is compiled)",
            "baseline_off_cmd": json.load(open("/root/.vp/BASELINE.json"))["cmd"] if os.path.exists("/root/.vp/BASELINE.json") else BASELINE_CMD,
            "source_commits": [h.split()[0] for h in hooks],
            "add_only": True,
        },
        "engines": [
            {"name": "A", "path": "harness/explore", "serves_properties": sorted(k for k, v in CHECKS.items() if "A" in v[0]),
             "kind_free_text": "explicit-state breadth-first model checker whose transition relation is the real regen-ledger modules + SDK bank/auth over IAVL; path replay on cache branches; full-state hashing"},
            {"name": "C", "path": "harness/detc", "serves_properties": ["C10"],
             "kind_free_text": "ABCI trace explorer: restart subsets, fresh-process restarts, map-order/clock schedules via a go build -overlay produced by tools/rewriter"},
            {"name": "B", "path": "harness/pure", "serves_properties": sorted(k for k, v in CHECKS.items() if "B" in v[0]),
             "kind_free_text": "bounded-exhaustive enumerators of pure functions (formats, IRIs, decimals, intertx) against independent references"},
        ],
        "checks": checks,
        "not_applicable": na,
        "notes": "See DESIGN.md. known_findings.txt lists recorded findings and fixes.",
    }
    json.dump(m, open(os.path.join(ROOT, "MANIFEST.json"), "w"), indent=1)
    print("checks:", len(checks), "not_applicable:", len(na))

NA = {}
if __name__ == "__main__":
    main()
