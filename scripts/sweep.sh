#!/bin/bash
# usage: scripts/sweep.sh <tier> [ids...]   runs the registered checks one after the other and prints one line each
cd "$(dirname "$0")/.."
tier=${1:-thorough}; shift
ids=${@:-C01 C02 C03 C04 C05 C06 C07 C08 C09 C10 C11 C12 C13 C14 C15 C16 C17 C18 C19 C20}
mkdir -p evidence replays
for p in $ids; do
  s=$(date +%s)
  out=$(scripts/check.sh $p $tier 2>/dev/null); rc=$?
  echo "$p $tier exit=$rc wall=$(( $(date +%s) - s ))s $(echo "$out" | grep -c '^VIOLATION') violations"
  echo "$out" | grep -A2 "^VIOLATION\|^KNOWN" | cut -c1-300
done
