#!/bin/bash
# Re-runs every confirmed seeded change (seeded/*/patch.diff) against the quick
# check of its property (and the other checks recorded in its meta.json) in a
# scratch worktree, and writes seeded/RESULTS.md. /repo is never touched.
cd "$(dirname "$0")/.."
out=seeded/RESULTS.md
{
  echo "# Seeded changes (written by independent sub-agents, confirmed by me): detection results"
  echo
  echo "Produced by scripts/rerun_seeded.sh with the machinery as committed. exit=1 means the registered quick check reports a VIOLATION on the changed tree."
  echo
  echo "| change | property | needs to manifest | checks run (exit code) | violation kinds |"
  echo "|---|---|---|---|---|"
} > "$out"
for d in seeded/*/; do
  n=$(basename "$d")
  [ -f "$d/patch.diff" ] || continue
  prop=$(python3 -c "import json;print(json.load(open('$d/meta.json'))['property'])")
  others=$(python3 -c "import json;print(' '.join(k for k in json.load(open('$d/meta.json')).get('quick_checks_run_against_it',{}) if k!='$prop'))")
  needs=$(python3 -c "import json;print((json.load(open('$d/meta.json')).get('needs_to_manifest') or '').replace('|','/').replace('\n',' ')[:260])")
  res=$(scripts/mutant_run.sh "$d/patch.diff" quick $prop $others 2>&1)
  codes=$(echo "$res" | grep -o "^C[0-9]* exit=[0-9]*" | tr '\n' ' ')
  kinds=$(echo "$res" | grep -o "kind=[^ ]*" | sed 's/kind=//; s#/var/tmp/[^ ]*/repo/##' | sort -u | head -5 | tr '\n' ' ')
  echo "| $n | $prop | $needs | $codes | $kinds |" >> "$out"
  echo "$n: $codes"
  python3 - "$d/meta.json" "$codes" "$kinds" <<'PY'
import json,sys,re
p,codes,kinds=sys.argv[1:4]
m=json.load(open(p))
m["quick_checks_run_against_it"]={a:int(b) for a,b in re.findall(r"(C\d+) exit=(\d+)",codes)}
m["violation_kinds_reported"]=kinds.split()
json.dump(m,open(p,"w"),indent=1)
PY
done
