#!/bin/bash
# Re-runs every confirmed seeded change (seeded/*/patch.diff) against the quick
# check of its property (and the other checks recorded in its meta.json) in a
# scratch worktree, updates each meta.json and writes seeded/RESULTS.md.
# /repo is never touched.   usage: scripts/rerun_seeded.sh [jobs] [name-glob]
cd "$(dirname "$0")/.."
jobs=${1:-2}; glob=${2:-*}
tmp=$(mktemp -d "${TMPDIR:-/var/tmp}/verif-rerun.XXXXXX")
one() {
  d=$1; tmp=$2
  n=$(basename "$d")
  prop=$(python3 -c "import json;print(json.load(open('$d/meta.json'))['property'])")
  others=$(python3 -c "import json;print(' '.join(k for k in json.load(open('$d/meta.json')).get('quick_checks_run_against_it',{}) if k!='$prop'))")
  res=$(scripts/mutant_run.sh "$d/patch.diff" quick $prop $others 2>&1)
  codes=$(echo "$res" | grep -o "^C[0-9]* exit=[0-9]*" | tr '\n' ' ')
  kinds=$(echo "$res" | grep -o "kind=[^ ]*" | sed 's/kind=//; s#/var/tmp/[^ ]*/repo/##' | sort -u | head -5 | tr '\n' ' ')
  echo "$n: $codes"
  # nothing ran (no disk space, patch does not apply, harness does not compile): keep the recorded result
  [ -z "$codes" ] && return
  python3 - "$d/meta.json" "$codes" "$kinds" <<'PY'
import json,sys,re
p,codes,kinds=sys.argv[1:4]
m=json.load(open(p))
m["quick_checks_run_against_it"]={a:int(b) for a,b in re.findall(r"(C\d+) exit=(\d+)",codes)}
m["violation_kinds_reported"]=kinds.split()
json.dump(m,open(p,"w"),indent=1)
PY
}
export -f one
ls -d seeded/$glob/ | while read d; do [ -f "$d/patch.diff" ] && echo "${d%/}"; done | xargs -P "$jobs" -I{} bash -c 'one {} '"$tmp"
rm -rf "$tmp"
python3 - <<'PY'
import json,glob,os
rows=["# Seeded changes (written by independent sub-agents, confirmed by me): detection results","",
"Produced by scripts/rerun_seeded.sh with the machinery as committed. exit=1 means the registered quick check reports a VIOLATION on the changed tree.","",
"| change | property | needs to manifest | checks run (exit code) | violation kinds |","|---|---|---|---|---|"]
for p in sorted(glob.glob("seeded/*/meta.json")):
    m=json.load(open(p)); n=os.path.basename(os.path.dirname(p))
    needs=(m.get("needs_to_manifest") or "").replace("|","/").replace("\n"," ")[:260]
    codes=" ".join(f"{k} exit={v}" for k,v in (m.get("quick_checks_run_against_it") or {}).items())
    rows.append(f"| {n} | {m.get('property')} | {needs} | {codes} | {' '.join((m.get('violation_kinds_reported') or [])[:5])} |")
open("seeded/RESULTS.md","w").write("\n".join(rows)+"\n")
PY
