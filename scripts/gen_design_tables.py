#!/usr/bin/env python3
"""Rewrites the generated tables of DESIGN.md (between the BEGIN/END markers) from
evidence/*.json, seeded/*/meta.json and mutants/RESULTS.md."""
import glob, json, os, re

ROOT = os.path.dirname(os.path.dirname(os.path.abspath(__file__)))


def bounds_table():
    rows = ["| prop | level | tier | states | transitions / evaluations | exhaustive | wall s | what was enumerated |", "|---|---|---|---|---|---|---|---|"]
    for f in sorted(glob.glob(os.path.join(ROOT, "evidence", "C*.json"))):
        e = json.load(open(f))
        c = e["coverage"]
        what = ""
        if "scenarios" in c and isinstance(c["scenarios"], list):
            per = {}
            for s in c["scenarios"]:
                k = s["scenario"]
                p = per.setdefault(k, {"seeds": 0, "alpha": s["alphabet"], "depth": s["depth_completed"], "states": 0})
                p["seeds"] += 1
                p["states"] += s["states"]
                p["depth"] = min(p["depth"], s["depth_completed"])
            what = "; ".join(f"{k}: |Σ|={v['alpha']}, depth {v['depth']}, {v['seeds']} seed(s), {v['states']} states" for k, v in per.items())
        elif "rule" in c:
            what = c["rule"][:260]
        rows.append(f"| {e['property_id']} | {e['level']} | {e['tier']} | {c.get('states', '')} | {c.get('transitions', c.get('evaluations', ''))} | {c.get('exhaustive')} | {e['wall_s']:.0f} | {what} |")
    return "\n".join(rows)


def seeded_table():
    rows = ["| change | property | what it needs in order to manifest | quick checks run against it (exit code; 1 = VIOLATION reported) | kinds reported |", "|---|---|---|---|---|"]
    for d in sorted(glob.glob(os.path.join(ROOT, "seeded", "*", "meta.json"))):
        m = json.load(open(d))
        name = os.path.basename(os.path.dirname(d))
        needs = (m.get("needs_to_manifest") or "").replace("|", "/").replace("\n", " ")
        if len(needs) > 300:
            needs = needs[:300] + "…"
        codes = ", ".join(f"{k}:{v}" for k, v in (m.get("quick_checks_run_against_it") or {}).items())
        kinds = " ".join(re.sub(r"/var/tmp/\S*?/repo/", "", k) for k in (m.get("violation_kinds_reported") or [])[:4])
        rows.append(f"| {name} | {m.get('property')} | {needs} | {codes} | {kinds} |")
    return "\n".join(rows)


def summary():
    tot = own = other = none = 0
    missed = []
    for d in sorted(glob.glob(os.path.join(ROOT, "seeded", "*", "meta.json"))):
        m = json.load(open(d))
        name = os.path.basename(os.path.dirname(d))
        codes = m.get("quick_checks_run_against_it") or {}
        tot += 1
        if codes.get(m.get("property")) == 1:
            own += 1
        elif any(v == 1 for v in codes.values()):
            other += 1
            missed.append(name + " (reported by " + ", ".join(k for k, v in codes.items() if v == 1) + ")")
        else:
            none += 1
            missed.append(name + " (NOT reported)")
    rounds = {}
    for d in glob.glob(os.path.join(ROOT, "seeded", "*")):
        n = os.path.basename(d)
        if os.path.isdir(d):
            r = re.search(r"-r(\d)m", n)
            rounds[r.group(1) if r else "1"] = rounds.get(r.group(1) if r else "1", 0) + 1
    lines = [f"**{tot} seeded changes kept** (per round: " + ", ".join(f"round {k}: {v}" for k, v in sorted(rounds.items())) + "). "
             f"With the machinery as committed, the registered quick check of the change's own property reports a VIOLATION for **{own}**; "
             f"**{other}** are reported only by the quick check of another property; **{none}** are not reported."]
    if missed:
        lines.append("")
        lines.append("Not reported by the own property's check: " + "; ".join(missed) + ".")
    return "\n".join(lines)


def own_table():
    p = os.path.join(ROOT, "mutants", "RESULTS.md")
    if not os.path.exists(p):
        return "(run scripts/run_own_mutants.sh)"
    lines = [l for l in open(p).read().splitlines() if l.startswith("|")]
    return "\n".join(lines)


def main():
    p = os.path.join(ROOT, "DESIGN.md")
    s = open(p).read()
    for tag, gen in [("BOUNDS", bounds_table), ("SEEDED", seeded_table), ("OWN", own_table), ("SUMMARY", summary)]:
        b, e = f"<!-- BEGIN {tag} -->", f"<!-- END {tag} -->"
        if b in s and e in s:
            s = s[: s.index(b) + len(b)] + "\n" + gen() + "\n" + s[s.index(e):]
    open(p, "w").write(s)


if __name__ == "__main__":
    main()
