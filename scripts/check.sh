#!/bin/bash
# usage: scripts/check.sh <property id> <quick|thorough>
# exit 0: property held on everything explored (KNOWN-FINDING lines allowed)
# exit 1: VIOLATION property=<id> replay=<path>
# exit 2: infrastructure failure (does not compile, internal error)
set -uo pipefail
cd "$(dirname "$0")/.."
. scripts/env.sh
id="$1"; tier="${2:-${VERIF_TIER:-quick}}"
log="build.$$.log"
bin=$(scripts/build.sh 2>"$log" | tail -1)
if [ -z "$bin" ] || [ ! -x "$bin" ]; then
  cat "$log" >&2; rm -f "$log"
  echo "build failed: /repo working tree does not compile with the harness" >&2
  exit 2
fi
rm -f "$log"
scratch=""
cleanup() { rm -f "$bin"; [ -n "$scratch" ] && rm -rf "$scratch"; }
trap cleanup EXIT
if [ "$id" = "C10" ]; then
  # map-order / wall-clock dimension: regenerate the overlay from the CURRENT
  # working tree and build the shim binary with it
  scratch=$(mktemp -d "${TMPDIR:-/var/tmp}/verif-c10.XXXXXX")
  if [ ! -x bin/rewriter ]; then ( cd tools/rewriter && go build -o ../../bin/rewriter . ) || { echo "rewriter build failed" >&2; exit 2; }; fi
  bin/rewriter -repo /repo -out "$scratch/ov" >&2 || { echo "rewriter failed (does the working tree type-check?)" >&2; exit 2; }
  ( cd harness && go build -tags "verif shim" -overlay "$scratch/ov/overlay.json" -o "$scratch/mcshim" ./cmd/mc ) >&2 || { echo "shim build failed" >&2; exit 2; }
  export VERIF_SHIM_BIN="$scratch/mcshim" VERIF_SHIM_REPORT="$scratch/ov/report.json"
fi
"$bin" check -p "$id" -tier "$tier"
exit $?
