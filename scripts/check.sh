#!/bin/bash
# usage: scripts/check.sh <property id> <quick|thorough>
# exit 0: property held on everything explored (KNOWN-FINDING lines allowed)
# exit 1: VIOLATION property=<id> replay=<path>
# exit 2: infrastructure failure (does not compile, internal error)
set -uo pipefail
cd "$(dirname "$0")/.."
. scripts/env.sh
id="$1"; tier="${2:-${VERIF_TIER:-quick}}"
bin=$(scripts/build.sh 2>build.$$.log | tail -1)
if [ -z "$bin" ] || [ ! -x "$bin" ]; then
  cat build.$$.log >&2; rm -f build.$$.log
  echo "build failed: /repo working tree does not compile with the harness" >&2
  exit 2
fi
rm -f build.$$.log
"$bin" check -p "$id" -tier "$tier"
rc=$?
rm -f "$bin"
exit $rc
