#!/usr/bin/env python3
"""Validates MANIFEST.json and every evidence file against the schemas under /root/.vp (run with python3-vt)."""
import glob, json, sys
import jsonschema
bad = 0
m = json.load(open("/verif/MANIFEST.json"))
jsonschema.validate(m, json.load(open("/root/.vp/MANIFEST.schema.json")))
es = json.load(open("/root/.vp/EVIDENCE.schema.json"))
for f in sorted(glob.glob("/verif/evidence/C*.json")):
    try:
        jsonschema.validate(json.load(open(f)), es)
    except Exception as e:
        bad += 1
        print("INVALID", f, str(e)[:300])
ids = {c["property_id"] for c in m["checks"]} | {n["property_id"] if isinstance(n, dict) else n for n in m.get("not_applicable", [])}
props = [json.loads(l)["id"] for l in open("/verif/properties.jsonl")]
missing = [p for p in props if p not in ids]
print("manifest ok; evidence files invalid:", bad, "; properties neither claimed nor listed as not applicable:", missing)
sys.exit(1 if bad or missing else 0)
