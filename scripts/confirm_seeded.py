#!/usr/bin/env python3
"""Confirms a seeded change delivered by a sub-agent and, if confirmed, stores it under /verif/seeded/.

usage: confirm_seeded.py <delivery dir (patch.diff, demo/, meta.json)> <name> <property id> [more check ids...]

Steps (all in a scratch worktree of /repo, removed afterwards; /repo is never touched):
  1. demo passes on the unchanged tree, 2. patch applies and compiles, 3. demo fails with the patch,
  4. the existing tests of every touched module still pass with the patch (demo removed),
  5. the registered quick checks of the given properties are run against the patched tree (scripts/mutant_run.sh).
"""
import json, os, re, shutil, subprocess, sys, tempfile

ENV = dict(os.environ, GOFLAGS="-mod=mod", GOPROXY="off", GOSUMDB="off", GOTOOLCHAIN="local")


def sh(cmd, cwd=None, timeout=3600):
    p = subprocess.run(cmd, shell=True, cwd=cwd, env=ENV, capture_output=True, text=True, timeout=timeout)
    return p.returncode, (p.stdout + p.stderr)


def main():
    d, name, checks = os.path.abspath(sys.argv[1]), sys.argv[2], sys.argv[3:]
    readme = ""
    for f in os.listdir(os.path.join(d, "demo")):
        if f.lower().startswith("readme"):
            readme = open(os.path.join(d, "demo", f)).read()
    copies = []
    # "cp a.go b.go <repo>/dir/" or "cp a.go <repo>/dir/a.go"
    for srcs, dst in re.findall(r"\bcp\s+((?:\S+\.go\s+)+)\s*(?:<repo>/)?((?:x|types)/\S+)", readme):
        for src in srcs.split():
            copies.append((src, dst if dst.endswith(".go") else dst.rstrip("/") + "/" + os.path.basename(src)))
    # "name.go\n   copy to:  path/name.go"
    for src, dst in re.findall(r"(\S+\.go)\s*\n\s*copy to:\s+(?:<repo>/)?(\S+\.go)", readme):
        copies.append((src, dst))
    # every "`file` to `path`" pair
    if not copies:
        copies = re.findall(r"`([^`\s]+\.go)`\s+to\s+`([^`\s]+)`", readme)
    if not copies:  # "a.go -> path/b.go" form
        copies = re.findall(r"(\S+\.go)\s*->\s*(\S+\.go)", readme)
    if not copies:  # same sentence without backticks
        copies = re.findall(r"[Cc]opy\s+(\S+\.go)\s+to\s+(\S+\.go)", readme)
    if not copies:  # "copy X to dir/" form
        for src, dst in re.findall(r"`?([\w./-]+\.go)`?[^\n]*?\bto\s+`?((?:x|types)/[\w./-]+/)`?", readme):
            copies.append((src, dst + os.path.basename(src)))
    m = re.search(r"cd\s+(?:<repo>/)?(\S+)\s*&&\s*(?:[A-Z]+=\S+\s+)*(go test[^\n]*)", readme)
    # every .go file of the delivery must go somewhere: files not named in a pair go to the first directory the README names
    gofiles = [f for f in os.listdir(os.path.join(d, "demo")) if f.endswith(".go")]
    named = {os.path.basename(src) for src, _ in copies}
    mdir = re.search(r"\bto\s+`?((?:x|types)/[\w./-]+?)/?`?\s", readme)
    if mdir:
        for f in gofiles:
            if f not in named:
                copies.append((f, mdir.group(1).rstrip("/") + "/" + f))
    copies = [(s_, d_) for s_, d_ in copies if os.path.basename(s_) in gofiles]
    # a destination that is a directory gets the file name appended
    copies = [(src, dst if dst.rstrip(".,;").endswith(".go") else dst.rstrip(".,;").rstrip("/") + "/" + os.path.basename(src)) for src, dst in copies]
    if not copies or not m:
        print(json.dumps({"name": name, "error": "cannot parse README", "readme": readme[:400]}))
        return 2
    mod, cmd = m.group(1), m.group(2).strip()
    scratch = tempfile.mkdtemp(prefix="verif-confirm.", dir=os.environ.get("TMPDIR", "/var/tmp"))
    wt = os.path.join(scratch, "repo")
    res = {"name": name, "property": checks[0], "demo_cmd": f"cd {mod} && {cmd}"}
    try:
        rc, out = sh(f"git -C /repo worktree add --detach {wt} HEAD -q")
        assert rc == 0, out

        def put_demo():
            for src, dst in copies:
                dst = dst.rstrip(".,;")
                os.makedirs(os.path.dirname(os.path.join(wt, dst)), exist_ok=True)
                shutil.copy(os.path.join(d, "demo", os.path.basename(src)), os.path.join(wt, dst))

        def del_demo():
            for src, dst in copies:
                p = os.path.join(wt, dst.rstrip(".,;"))
                if os.path.exists(p):
                    os.remove(p)

        put_demo()
        rc, out = sh(cmd, cwd=os.path.join(wt, mod))
        res["demo_passes_without_change"] = rc == 0
        if rc != 0:
            res["demo_output_without"] = out[-600:]
        rc, out = sh(f"git -C {wt} apply {os.path.join(d, 'patch.diff')}")
        res["patch_applies"] = rc == 0
        if rc != 0:
            res["apply_output"] = out[-400:]
            print(json.dumps(res, indent=1))
            return 1
        rc, out = sh(cmd, cwd=os.path.join(wt, mod))
        res["demo_fails_with_change"] = rc != 0
        res["demo_output_with"] = out[-500:]
        del_demo()
        patch = open(os.path.join(d, "patch.diff")).read()
        touched = sorted({m for m in ["types", "x/data", "x/ecocredit", "x/intertx"] if re.search(r"^\+\+\+ b/" + re.escape(m) + "/", patch, re.M)})
        res["modules_touched"] = touched
        ok = True
        for mm in touched:
            rc, out = sh("go build ./... && go test -count=1 ./...", cwd=os.path.join(wt, mm))
            res[f"existing_tests[{mm}]"] = "pass" if rc == 0 else "FAIL"
            if rc != 0:
                ok = False
                res[f"existing_tests_output[{mm}]"] = "\n".join(l for l in out.splitlines() if "FAIL" in l or "---" in l)[-800:]
        res["existing_tests_pass"] = ok
    finally:
        sh(f"git -C /repo worktree remove --force {wt}")
        shutil.rmtree(scratch, ignore_errors=True)
    confirmed = res.get("demo_passes_without_change") and res.get("demo_fails_with_change") and res.get("existing_tests_pass")
    res["confirmed"] = bool(confirmed)
    if confirmed:
        rc, out = sh(f"/verif/scripts/mutant_run.sh {os.path.join(d, 'patch.diff')} quick {' '.join(checks)}", cwd="/verif")
        det = {}
        for line in out.splitlines():
            mm = re.match(r"^(C\d+) exit=(\d+)", line)
            if mm:
                det[mm.group(1)] = int(mm.group(2))
        res["quick_check_exit_codes"] = det
        res["violation_kinds"] = re.findall(r"kind=(\S+)", out)[:8]
        dst = f"/verif/seeded/{name}"
        shutil.rmtree(dst, ignore_errors=True)
        os.makedirs(dst)
        shutil.copy(os.path.join(d, "patch.diff"), dst)
        shutil.copytree(os.path.join(d, "demo"), os.path.join(dst, "demo"))
        meta = {}
        try:
            meta = json.load(open(os.path.join(d, "meta.json")))
        except Exception:
            pass
        meta_out = {
            "property": checks[0],
            "summary": meta.get("summary"),
            "needs_to_manifest": meta.get("needs_to_manifest"),
            "files_changed": meta.get("files_changed"),
            "origin": "independent sub-agent given only the property text and a scratch worktree",
            "confirmed_by_me": {
                "demo_command": res["demo_cmd"],
                "demo_passes_without_change": True,
                "demo_fails_with_change": True,
                "existing_tests": {k: v for k, v in res.items() if k.startswith("existing_tests[")},
                "how": "scripts/confirm_seeded.py in a scratch worktree of /repo (removed afterwards)",
            },
            "quick_checks_run_against_it": det,
            "violation_kinds_reported": res["violation_kinds"],
        }
        json.dump(meta_out, open(os.path.join(dst, "meta.json"), "w"), indent=1)
    print(json.dumps(res, indent=1))
    return 0 if confirmed else 1


if __name__ == "__main__":
    sys.exit(main())
