#!/bin/bash
# MANIFEST.setup_cmd: pre-build the harness (warms the Go build cache) from
# files on disk only, and run the harness self-test.
set -euo pipefail
cd "$(dirname "$0")/.."
. scripts/env.sh
bin=$(scripts/build.sh | tail -1)
mv -f "$bin" bin/mc
bin/mc list >/dev/null
echo "setup ok"
