#!/bin/bash
# MANIFEST.setup_cmd: pre-build the harness and the rewriter (warms the Go
# build cache) from files on disk only, and run a smoke test.
set -euo pipefail
cd "$(dirname "$0")/.."
. scripts/env.sh
mkdir -p bin evidence replays
( cd tools/rewriter && go build -o ../../bin/rewriter . )
bin=$(scripts/build.sh | tail -1)
mv -f "$bin" bin/mc
bin/mc list >/dev/null
# warm the cache of the overlay (shim) build used by C10
scratch=$(mktemp -d "${TMPDIR:-/var/tmp}/verif-setup.XXXXXX")
trap 'rm -rf "$scratch"' EXIT
bin/rewriter -repo /repo -out "$scratch/ov"
( cd harness && go build -tags "verif shim" -overlay "$scratch/ov/overlay.json" -o "$scratch/mcshim" ./cmd/mc )
echo "setup ok"
